package main

// C21 — struct fields follow their tags and the naming configuration.
//
// Part 1 (marshal): struct values are iterated through iterator.NewSession(nil,cfg)
// into a Recorder; the emitted keys/values are compared with a reference written
// from the property text (search oracle) and recorded for the Coq model
// (CE.Model.Fields: IterCase, SnakeCase).
// Part 2 (unmarshal): documents (event lists encoded to CBE with the library's
// encoder) are unmarshaled into struct templates through ce.UnmarshalFromCBEDocument;
// the field every key reached is compared with the reference (oracle) and
// recorded for the model (LookupCase, BuildCase).

import (
	"bytes"
	"encoding/json"
	"fmt"
	"math/rand"
	"reflect"
	"sort"
	"strconv"
	"strings"
	"time"
	"unicode"
	"unicode/utf8"

	"github.com/kstenerud/go-concise-encoding/ce"
	"github.com/kstenerud/go-concise-encoding/ce/events"
	"github.com/kstenerud/go-concise-encoding/configuration"
	"github.com/kstenerud/go-concise-encoding/iterator"
)

func init() { register("C21", runC21, replayC21) }

// ---------------------------------------------------------------------------
// Coq printers

func c21Str(s string) string {
	var sb strings.Builder
	sb.WriteString("[")
	first := true
	for _, r := range s {
		if !first {
			sb.WriteString(";")
		}
		first = false
		fmt.Fprintf(&sb, "%d", r)
	}
	sb.WriteString("]")
	return sb.String()
}

func c21Path(p []int) string {
	ss := make([]string, len(p))
	for i, x := range p {
		ss[i] = strconv.Itoa(x)
	}
	return "[" + strings.Join(ss, ";") + "]"
}

// utab: unicode.ToLower on the non-ASCII runes of the given strings
func c21Utab(strs ...string) string {
	seen := map[rune]bool{}
	items := []string{}
	for _, s := range strs {
		for _, r := range s {
			if r >= 128 && !seen[r] {
				seen[r] = true
				items = append(items, fmt.Sprintf("(%d,%d)", r, unicode.ToLower(r)))
			}
		}
	}
	sort.Strings(items)
	return "[" + strings.Join(items, ";") + "]"
}

// ---------------------------------------------------------------------------
// Struct types as seen through reflect

type c21Decl struct {
	Name     string
	Exported bool // first rune upper case (common.IsFieldExported)
	ReflExp  bool // reflect's IsExported (builder)
	Tag      string
	Kind     int // 0 leaf, 1 embedded struct, 2 embedded non-struct
	Sub      []c21Decl
	Type     reflect.Type
}

func c21DeclsOf(t reflect.Type) []c21Decl {
	ds := []c21Decl{}
	for i := 0; i < t.NumField(); i++ {
		f := t.Field(i)
		r, _ := utf8.DecodeRuneInString(f.Name)
		d := c21Decl{Name: f.Name, Exported: unicode.IsUpper(r), ReflExp: f.IsExported(), Tag: f.Tag.Get("ce"), Type: f.Type}
		if f.Anonymous {
			if f.Type.Kind() == reflect.Struct {
				d.Kind = 1
				d.Sub = c21DeclsOf(f.Type)
			} else {
				d.Kind = 2
			}
		}
		ds = append(ds, d)
	}
	return ds
}

func c21DeclsCoq(ds []c21Decl) string {
	items := make([]string, len(ds))
	for i, d := range ds {
		switch d.Kind {
		case 0:
			items[i] = cApp("FLeaf", c21Str(d.Name), cBool(d.Exported), c21Str(d.Tag))
		case 1:
			items[i] = cApp("FEmbStruct", c21Str(d.Name), cBool(d.Exported), c21Str(d.Tag), c21DeclsCoq(d.Sub))
		default:
			items[i] = cApp("FEmbOther", c21Str(d.Name), cBool(d.Exported), c21Str(d.Tag))
		}
	}
	return cList(items)
}

func c21DeclStrings(ds []c21Decl, acc []string) []string {
	for _, d := range ds {
		acc = append(acc, d.Name, d.Tag)
		acc = c21DeclStrings(d.Sub, acc)
	}
	return acc
}

func c21TypeString(ds []c21Decl) string {
	parts := []string{}
	for _, d := range ds {
		s := d.Name
		switch d.Kind {
		case 0:
			s += " " + d.Type.String()
		case 1:
			s = "embed " + d.Name + "{" + c21TypeString(d.Sub) + "}"
		default:
			s = "embed " + d.Type.String()
		}
		if d.Tag != "" {
			s += " ce:" + strconv.Quote(d.Tag)
		}
		parts = append(parts, s)
	}
	return strings.Join(parts, "; ")
}

// ---------------------------------------------------------------------------
// Reference written from the property text

const (
	c21OmitDefault = 0
	c21OmitNever   = 1
	c21OmitAlways  = 2
	c21OmitEmpty   = 3
	c21OmitZero    = 4
)

var c21OmitCoq = []string{"ODefault", "ONever", "OAlways", "OEmpty", "OZero"}
var c21OmitCfg = []configuration.FieldOmitBehavior{configuration.OmitFieldChooseDefault, configuration.OmitFieldNever,
	configuration.OmitFieldAlways, configuration.OmitFieldEmpty, configuration.OmitFieldZero}

type c21RefTags struct {
	Name  string
	Omit  int
	Order int64
	WF    bool // every entry has one of the documented forms
}

// the documented tag forms: omit | omit_empty | omit_zero | omit_never | name=<text> | order=<int64>
func c21RefTagsOf(fieldName, tag string) c21RefTags {
	t := c21RefTags{Name: fieldName, Order: 1<<63 - 1, WF: true}
	tag = strings.TrimSpace(tag)
	if tag == "" {
		return t
	}
	for _, e := range strings.Split(tag, ",") {
		e = strings.TrimSpace(e)
		if kv := strings.Split(e, "="); strings.TrimSpace(kv[0]) == "name" && len(kv) == 2 {
			// the name is taken as the code takes it, so that probes carry a value of the right type;
			// only the plain form name=<text> counts as documented
			t.Name = strings.TrimSpace(kv[1])
			if kv[0] != "name" || t.Name != kv[1] || t.Name == "" {
				t.WF = false
			}
			continue
		}
		switch {
		case e == "omit":
			t.Omit = c21OmitAlways
		case e == "omit_empty":
			t.Omit = c21OmitEmpty
		case e == "omit_zero":
			t.Omit = c21OmitZero
		case e == "omit_never":
			t.Omit = c21OmitNever
		case strings.HasPrefix(e, "order="):
			n, err := strconv.ParseInt(e[6:], 10, 64)
			if err != nil || strings.HasPrefix(e[6:], "+") {
				t.WF = false
			}
			t.Order = n
		default:
			t.WF = false
		}
	}
	return t
}

type c21Leaf struct {
	Name  string // tag name or Go name
	Path  []int
	Omit  int
	Order int64
	Type  reflect.Type
}

// status of a type with respect to what the property text defines
type c21TypeStatus struct {
	Malformed bool // a live tag is outside the documented forms: behaviour unspecified
	EmbPtr    bool // embedded pointer-to-struct reached (an ordinary field; failures on such types keep their old key)
	EmbOther  bool // embedded named non-struct reached (likewise)
	ExpDiffer bool // the two "exported" predicates disagree on a field
}

// iterator side: exported fields in declaration order, embedded structs flattened in place
// (skipped entirely when tagged omit), fields tagged omit dropped
func c21RefIterLeaves(ds []c21Decl, path []int, st *c21TypeStatus) []c21Leaf {
	out := []c21Leaf{}
	for i, d := range ds {
		if d.Exported != d.ReflExp {
			st.ExpDiffer = true
		}
		if !d.Exported {
			continue
		}
		p := append(append([]int{}, path...), i)
		t := c21RefTagsOf(d.Name, d.Tag)
		if !t.WF {
			st.Malformed = true
		}
		if t.Omit == c21OmitAlways {
			continue
		}
		switch d.Kind {
		case 0:
			out = append(out, c21Leaf{Name: t.Name, Path: p, Omit: t.Omit, Order: t.Order, Type: d.Type})
		case 1:
			out = append(out, c21RefIterLeaves(d.Sub, p, st)...)
		default:
			// an embedded field that is not a struct is an ordinary field named after its type
			if d.Type.Kind() == reflect.Ptr && d.Type.Elem().Kind() == reflect.Struct {
				st.EmbPtr = true
			} else {
				st.EmbOther = true
			}
			out = append(out, c21Leaf{Name: t.Name, Path: p, Omit: t.Omit, Order: t.Order, Type: d.Type})
		}
	}
	return out
}

// builder side: every exported field is addressable by its tag name, embedded structs flattened
func c21RefBuildLeaves(ds []c21Decl, path []int, st *c21TypeStatus) []c21Leaf {
	out := []c21Leaf{}
	for i, d := range ds {
		if !d.Exported {
			continue
		}
		p := append(append([]int{}, path...), i)
		switch d.Kind {
		case 0, 2:
			if d.Kind == 2 {
				if d.Type.Kind() == reflect.Ptr && d.Type.Elem().Kind() == reflect.Struct {
					st.EmbPtr = true
				} else {
					st.EmbOther = true
				}
			}
			t := c21RefTagsOf(d.Name, d.Tag)
			if !t.WF {
				st.Malformed = true
			}
			out = append(out, c21Leaf{Name: t.Name, Path: p, Type: d.Type})
		case 1:
			out = append(out, c21RefBuildLeaves(d.Sub, p, st)...)
		}
	}
	return out
}

func c21IsUp(r rune) bool  { return r >= 'A' && r <= 'Z' }
func c21IsLow(r rune) bool { return r >= 'a' && r <= 'z' }
func c21IsDig(r rune) bool { return r >= '0' && r <= '9' }

// snake_case as a single left-to-right pass per rule (independent of package regexp)
func c21RefSnake(name string) string {
	rs := []rune(name)
	var a []rune
	for i, r := range rs {
		a = append(a, r)
		if i+2 < len(rs) && c21IsUp(r) && c21IsUp(rs[i+1]) && c21IsLow(rs[i+2]) {
			a = append(a, '_')
		}
	}
	var b []rune
	for i, r := range a {
		b = append(b, r)
		if i+1 < len(a) && (c21IsLow(r) || c21IsDig(r)) && c21IsUp(a[i+1]) {
			b = append(b, '_')
		}
	}
	return strings.ToLower(string(b))
}

func c21RefEmpty(v reflect.Value) bool {
	switch v.Kind() {
	case reflect.Interface, reflect.Ptr:
		return v.IsNil()
	case reflect.Map, reflect.Slice, reflect.Array, reflect.String:
		return v.Len() == 0
	}
	return false
}

func c21RefKeep(omit, def int, v reflect.Value) bool {
	if omit == c21OmitDefault {
		omit = def
	}
	switch omit {
	case c21OmitAlways:
		return false
	case c21OmitEmpty:
		return !c21RefEmpty(v)
	case c21OmitZero:
		return !(v.IsZero() || c21RefEmpty(v))
	}
	return true
}

func c21FieldAt(v reflect.Value, path []int) reflect.Value {
	for _, i := range path {
		v = v.Field(i)
	}
	return v
}

type c21KV struct {
	Key  string
	Path []int
}

// what the property requires the struct iterator to emit
func c21RefEmitted(leaves []c21Leaf, snake bool, def int, v reflect.Value) []c21KV {
	kept := []c21Leaf{}
	for _, l := range leaves {
		if c21RefKeep(l.Omit, def, c21FieldAt(v, l.Path)) {
			kept = append(kept, l)
		}
	}
	sort.SliceStable(kept, func(i, j int) bool { return kept[i].Order < kept[j].Order })
	out := []c21KV{}
	for _, l := range kept {
		n := l.Name
		if snake {
			n = c21RefSnake(n)
		}
		out = append(out, c21KV{n, l.Path})
	}
	return out
}

// "ignoring case and underscores"
func c21Fold(s string) string {
	return strings.ReplaceAll(strings.ToLower(s), "_", "")
}

// what the implementation additionally ignores (spaces); used only to decide whether a key is clearly unknown
func c21FoldLoose(s string) string {
	return strings.ReplaceAll(c21Fold(s), " ", "")
}

// ---------------------------------------------------------------------------
// The zoo: hand-written struct types

type c21zinner struct { // unexported type with exported fields
	A int
	B string
}
type C21ZInner struct {
	A int
	B string
}
type C21ZInner2 struct {
	C []int `ce:"order=1"`
	D map[string]int
	E *int
}
type C21ZDeep struct {
	C21ZInner2
	F float64 `ce:"order=-1"`
}
type C21ZLeaf struct{ V int }
type C21ZMyInt int

type c21Z01 struct {
	A int `json:"a"`
	B string
	C float64 `json:"c" ce:"omit_never"`
}
type c21Z02 struct {
	HTTPServer  int
	MyURLParser string
	ID          int
	X2Y         int
	A_B         int
	ABc         int
	Abc9Def     int
	UserID2Name int
}
type c21Z03 struct {
	a int
	B int
	c string
	D string
	e []int `ce:"omit_never"`
}
type c21Z04 struct {
	A int `ce:"name=alpha"`
	B int `ce:"name=BetaGamma"`
	C int `ce:"name=with space"`
	D int `ce:"name=x_y"`
	E int `ce:"name=HTTPServer"`
}
type c21Z05 struct {
	A int `ce:"order=2"`
	B int `ce:"order=1"`
	C int
	D int `ce:"order=1"`
}
type c21Z06 struct {
	A int `ce:"order=-5"`
	B int `ce:"order=9223372036854775807"`
	C int
	D int `ce:"order=-5"`
	E int `ce:"order=0"`
	F int `ce:"order=-9223372036854775808"`
	G int
}
type c21Z07 struct {
	A int `ce:"omit"`
	B int `ce:"omit_empty"`
	C int `ce:"omit_zero"`
	D int `ce:"omit_never"`
	E int
}
type c21Z08 struct {
	A *int `ce:"omit"`
	B *int `ce:"omit_empty"`
	C *int `ce:"omit_zero"`
	D *int `ce:"omit_never"`
	E *int
}
type c21Z09 struct {
	A []int `ce:"omit"`
	B []int `ce:"omit_empty"`
	C []int `ce:"omit_zero"`
	D []int `ce:"omit_never"`
	E []int
}
type c21Z10 struct {
	A map[string]int `ce:"omit"`
	B map[string]int `ce:"omit_empty"`
	C map[string]int `ce:"omit_zero"`
	D map[string]int `ce:"omit_never"`
	E map[string]int
}
type c21Z11 struct {
	A string `ce:"omit"`
	B string `ce:"omit_empty"`
	C string `ce:"omit_zero"`
	D string `ce:"omit_never"`
	E string
}
type c21Z12 struct {
	A interface{} `ce:"omit"`
	B interface{} `ce:"omit_empty"`
	C interface{} `ce:"omit_zero"`
	D interface{} `ce:"omit_never"`
	E interface{}
}
type c21Z13 struct {
	A [0]int `ce:"omit_empty"`
	B [2]int `ce:"omit_empty"`
	C [0]int `ce:"omit_zero"`
	D [2]int `ce:"omit_zero"`
	E [0]int
	F [2]int
	G [0]int `ce:"omit_never"`
}
type c21Z14 struct {
	A C21ZLeaf `ce:"omit"`
	B C21ZLeaf `ce:"omit_empty"`
	C C21ZLeaf `ce:"omit_zero"`
	D C21ZLeaf `ce:"omit_never"`
	E C21ZLeaf
}
type c21Z15 struct {
	A bool    `ce:"omit_zero"`
	B float64 `ce:"omit_zero"`
	C uint8   `ce:"omit_zero"`
	D bool    `ce:"omit_empty"`
	E float32
	F int64 `ce:"omit_never"`
}
type c21Z16 struct {
	C21ZInner
	C int
}
type c21Z17 struct { // the embedded A is shadowed in Go
	C21ZInner
	A int
	C int
}
type c21Z18 struct {
	c21zinner
	C int
}
type c21Z19 struct {
	C21ZInner `ce:"omit"`
	C         int
}
type c21Z20 struct { // tags other than omit on an embedded struct
	C21ZInner `ce:"order=1,name=zzz,omit_never"`
	C         int `ce:"order=0"`
}
type c21Z21 struct {
	C21ZDeep
	G int `ce:"order=1"`
	H int `ce:"order=-1"`
}
type c21Z22 struct {
	Z int `ce:"order=5"`
	C21ZInner
	C21ZInner2
	Y int `ce:"order=0"`
}
type c21Z23 struct { // embedded pointer to struct
	*C21ZInner
	C int
}
type c21Z24 struct { // embedded named non-struct
	C21ZMyInt
	C int
}
type c21Z25 struct {
	*C21ZInner `ce:"omit"`
	C          int
}
type c21Z26 struct {
	A int `ce:"-"`
	B int
}
type c21Z27 struct {
	A int      `ce:"name=a1,order=2,omit_zero"`
	B int      `ce:" omit_never , order = 1 "`
	C int      `ce:"order=2,name=c1"`
	D []string `ce:"omit_empty,omit_never,order=3,order=-3"`
}
type c21Z28 struct { // three names with one identifier
	AB  int
	Ab  int
	A_B int
}
type c21Z29 struct { // a tag name equal to another field's identifier
	Ab int
	X  int `ce:"name=ab"`
}
type c21Z30 struct {
	Ärger     int
	ÉlanVital string
	ΩMega     int
	ÑandúID   int `ce:"order=1"`
}
type c21Z31 struct {
	A int    `ce:"omit"`
	B string `ce:"omit"`
}
type c21Z32 struct{}
type c21Z33 struct {
	P  *int
	S  []int
	M  map[string]int
	St string
	I  interface{}
	N  int
	F  float64
	Bo bool
	Ar [0]int
	L  C21ZLeaf
	PL *C21ZLeaf
}
type c21Z34 struct {
	PL  *C21ZLeaf `ce:"omit_zero"`
	PS  *string   `ce:"omit_zero"`
	PP  **int     `ce:"omit_empty"`
	SS  [][]int   `ce:"omit_empty"`
	Sl  []string  `ce:"omit_zero,name=Strs"`
	Any interface{}
}
type c21Z35 struct { // malformed tags: each is a different error path
	A int `ce:"order"`
	B int
}
type c21Z36 struct {
	A int `ce:"name"`
	B int
}
type c21Z37 struct {
	A int `ce:"order=1_000"`
	B int
}
type c21Z38 struct { // unexported field with a bad tag is never looked at
	a int `ce:"bogus"`
	B int `ce:"order=+7"`
	C int `ce:"omit=yes"`
}
type c21Z39 struct {
	C21ZInner `ce:"bogus"`
	C         int
}
type c21Z40 struct {
	Name      string `ce:"order=1"`
	FirstName string `ce:"order=1"`
	LastName  string `ce:"order=1"`
	Age       uint   `ce:"order=0,omit_zero"`
	Tags      []string
	Meta      map[string]int `ce:"omit_never"`
}

// embedded fields whose type is not a struct: ordinary fields named after their type
type C21ZMyStr string
type C21ZMySlice []int
type C21ZMyMap map[string]int
type C21ZMyFloat float64
type C21ZMyBool bool
type C21ZMyAny interface{}
type c21zmyint int
type C21ZEmbMid struct {
	C21ZMyInt
	*C21ZInner
	M int
}
type C21ZEmbTop struct {
	C21ZEmbMid `ce:"order=9"`
	T          string
}

type c21Z41 struct { // one of each kind
	C21ZMyInt
	C21ZMyStr
	C21ZMySlice
	C21ZMyMap
	C21ZMyFloat
	C21ZMyBool
	C21ZMyAny
	C int
}
type c21Z42 struct { // with tags
	C21ZMyInt   `ce:"name=Count,order=1"`
	C21ZMyStr   `ce:"omit_empty"`
	C21ZMySlice `ce:"omit_zero,order=-1"`
	C21ZMyMap   `ce:"omit_never"`
	C21ZMyFloat `ce:"omit"`
	B           int `ce:"order=1"`
}
type c21Z43 struct {
	*C21ZInner `ce:"omit_empty"`
	C          int
}
type c21Z44 struct {
	*C21ZInner `ce:"omit_never,name=In"`
	C          int `ce:"order=0"`
}
type c21Z45 struct { // a pointer embedded beside a flattened struct
	*C21ZInner `ce:"order=-1,omit_zero"`
	C21ZInner2
	Z int
}
type c21Z46 struct { // at depth 1
	C21ZEmbMid
	C21ZMyStr `ce:"order=0"`
	Z         int
}
type c21Z47 struct { // at depth 2
	C21ZEmbTop
	X int `ce:"order=-2"`
}
type c21Z48 struct { // embedded pointers to named non-structs
	*C21ZMyInt
	*C21ZMyStr `ce:"omit_empty"`
	C          int
}
type c21Z49 struct { // unexported embedded non-struct: not a field of the document
	c21zmyint
	B int
}
type c21Z50 struct {
	C21ZMyAny  `ce:"omit_zero,name=anything"`
	C21ZMyBool `ce:"omit_zero"`
	B          int
}

var c21ZooTypes = []reflect.Type{
	reflect.TypeOf(c21Z01{}), reflect.TypeOf(c21Z02{}), reflect.TypeOf(c21Z03{}), reflect.TypeOf(c21Z04{}), reflect.TypeOf(c21Z05{}),
	reflect.TypeOf(c21Z06{}), reflect.TypeOf(c21Z07{}), reflect.TypeOf(c21Z08{}), reflect.TypeOf(c21Z09{}), reflect.TypeOf(c21Z10{}),
	reflect.TypeOf(c21Z11{}), reflect.TypeOf(c21Z12{}), reflect.TypeOf(c21Z13{}), reflect.TypeOf(c21Z14{}), reflect.TypeOf(c21Z15{}),
	reflect.TypeOf(c21Z16{}), reflect.TypeOf(c21Z17{}), reflect.TypeOf(c21Z18{}), reflect.TypeOf(c21Z19{}), reflect.TypeOf(c21Z20{}),
	reflect.TypeOf(c21Z21{}), reflect.TypeOf(c21Z22{}), reflect.TypeOf(c21Z23{}), reflect.TypeOf(c21Z24{}), reflect.TypeOf(c21Z25{}),
	reflect.TypeOf(c21Z26{}), reflect.TypeOf(c21Z27{}), reflect.TypeOf(c21Z28{}), reflect.TypeOf(c21Z29{}), reflect.TypeOf(c21Z30{}),
	reflect.TypeOf(c21Z31{}), reflect.TypeOf(c21Z32{}), reflect.TypeOf(c21Z33{}), reflect.TypeOf(c21Z34{}), reflect.TypeOf(c21Z35{}),
	reflect.TypeOf(c21Z36{}), reflect.TypeOf(c21Z37{}), reflect.TypeOf(c21Z38{}), reflect.TypeOf(c21Z39{}), reflect.TypeOf(c21Z40{}),
	reflect.TypeOf(c21Z41{}), reflect.TypeOf(c21Z42{}), reflect.TypeOf(c21Z43{}), reflect.TypeOf(c21Z44{}), reflect.TypeOf(c21Z45{}),
	reflect.TypeOf(c21Z46{}), reflect.TypeOf(c21Z47{}), reflect.TypeOf(c21Z48{}), reflect.TypeOf(c21Z49{}), reflect.TypeOf(c21Z50{}),
}

// ---------------------------------------------------------------------------
// Values

// fill sets every settable leaf of v; mode 0 = zero, 1 = non-zero, 2 = random
// emptiness class per leaf (zero / nil / empty non-nil / pointer to zero / non-zero)
func c21Fill(rng *rand.Rand, v reflect.Value, mode int, depth int) {
	if !v.CanSet() {
		return
	}
	cls := mode
	if mode == 2 {
		cls = []int{0, 1, 1, 3, 4}[rng.Intn(5)]
	}
	if cls == 0 {
		v.Set(reflect.Zero(v.Type()))
		return
	}
	n := int64(rng.Intn(90) + 1)
	switch v.Kind() {
	case reflect.Bool:
		v.SetBool(true)
	case reflect.Int, reflect.Int8, reflect.Int16, reflect.Int32, reflect.Int64:
		v.SetInt(n)
	case reflect.Uint, reflect.Uint8, reflect.Uint16, reflect.Uint32, reflect.Uint64:
		v.SetUint(uint64(n))
	case reflect.Float32, reflect.Float64:
		v.SetFloat(float64(n) + 0.5)
	case reflect.String:
		v.SetString("s" + strconv.Itoa(int(n)))
	case reflect.Slice:
		k := 1 + rng.Intn(2)
		if cls >= 3 {
			k = 0 // empty, not nil
		}
		s := reflect.MakeSlice(v.Type(), k, k)
		for i := 0; i < k; i++ {
			c21Fill(rng, s.Index(i), 1, depth+1)
		}
		v.Set(s)
	case reflect.Array:
		for i := 0; i < v.Len(); i++ {
			c21Fill(rng, v.Index(i), 1, depth+1)
		}
	case reflect.Map:
		m := reflect.MakeMap(v.Type())
		if cls < 3 {
			kv := reflect.New(v.Type().Key()).Elem()
			c21Fill(rng, kv, 1, depth+1)
			ev := reflect.New(v.Type().Elem()).Elem()
			c21Fill(rng, ev, 1, depth+1)
			m.SetMapIndex(kv, ev)
		}
		v.Set(m)
	case reflect.Ptr:
		p := reflect.New(v.Type().Elem())
		if cls < 3 {
			c21Fill(rng, p.Elem(), 1, depth+1)
		} // else: pointer to the zero value
		v.Set(p)
	case reflect.Interface:
		if cls >= 3 {
			v.Set(reflect.ValueOf(0)) // non-nil interface holding a zero
		} else {
			v.Set(reflect.ValueOf("i" + strconv.Itoa(int(n))))
		}
	case reflect.Struct:
		for i := 0; i < v.NumField(); i++ {
			m := mode
			if mode != 2 {
				m = cls
			}
			c21Fill(rng, v.Field(i), m, depth+1)
		}
	}
}

// fill the leaves of a struct value along its declaration (embedded structs are walked, not treated as one leaf)
func c21FillStruct(rng *rand.Rand, v reflect.Value, ds []c21Decl, mode int) {
	for i, d := range ds {
		f := v.Field(i)
		if d.Kind == 1 {
			c21FillStruct(rng, f, d.Sub, mode)
		} else {
			c21Fill(rng, f, mode, 0)
		}
	}
}

// vinfo of every exported leaf, as a Coq list
func c21ValsCoq(v reflect.Value, ds []c21Decl, path []int, acc []string) []string {
	for i, d := range ds {
		p := append(append([]int{}, path...), i)
		f := v.Field(i)
		if d.Kind == 1 {
			acc = c21ValsCoq(f, d.Sub, p, acc)
			continue
		}
		kind, isNil, len0 := "KOther", false, false
		switch f.Kind() {
		case reflect.Interface, reflect.Ptr:
			kind, isNil = "KNilable", f.IsNil()
		case reflect.Map, reflect.Slice:
			kind, isNil, len0 = "KMapSlice", f.IsNil(), f.Len() == 0
		case reflect.Array, reflect.String:
			kind, len0 = "KArrStr", f.Len() == 0
		}
		acc = append(acc, cPair(c21Path(p), cApp("mkV", kind, cBool(isNil), cBool(len0), cBool(f.IsZero()))))
	}
	return acc
}

// ---------------------------------------------------------------------------
// Running the iterator

type c21Emit struct {
	Key string
	Val string // rendered value events
}

// c21Iterate runs a fresh iterator session; returns the recorded events or failed=true (error/panic)
func c21Iterate(v interface{}, cfg *configuration.Configuration) (evs []Ev, failed bool, msg string) {
	defer func() {
		if r := recover(); r != nil {
			failed, msg = true, fmt.Sprint(r)
		}
	}()
	rec := &Recorder{}
	iterator.NewSession(nil, cfg).NewIterator(rec).Iterate(v)
	return rec.Evs, false, ""
}

// one value starting at es[i]: returns the index behind it, or -1
func c21SkipValue(es []Ev, i int) int {
	if i >= len(es) {
		return -1
	}
	switch es[i].K {
	case "l", "m", "node", "rec":
		i++
		for i < len(es) && es[i].K != "e" {
			i = c21SkipValue(es, i)
			if i < 0 {
				return -1
			}
		}
		if i >= len(es) {
			return -1
		}
		return i + 1
	case "e", "ed", "bd", "v":
		return -1
	case "edge": // the iterator sends no end event for an edge
		i++
		for k := 0; k < 3; k++ {
			i = c21SkipValue(es, i)
			if i < 0 {
				return -1
			}
		}
		return i
	case "mk":
		return c21SkipValue(es, i+1)
	}
	return i + 1
}

// split "bd v m (key value)* e ed" into pairs
func c21ParseStruct(es []Ev) ([]c21Emit, bool) {
	if len(es) < 5 || es[0].K != "bd" || es[1].K != "v" || es[2].K != "m" || es[len(es)-1].K != "ed" || es[len(es)-2].K != "e" {
		return nil, false
	}
	out := []c21Emit{}
	i, end := 3, len(es)-2
	for i < end {
		if es[i].K != "sa" || es[i].A != events.ArrayTypeString {
			return nil, false
		}
		key := string(es[i].Data)
		j := c21SkipValue(es, i+1)
		if j < 0 || j > end {
			return nil, false
		}
		out = append(out, c21Emit{key, evsString(es[i+1 : j])})
		i = j
	}
	return out, true
}

// the events of a value iterated on its own (without the document frame)
func c21Standalone(v reflect.Value, cfg *configuration.Configuration) (string, bool) {
	var x interface{}
	if v.IsValid() && v.CanInterface() {
		x = v.Interface()
	} else if v.IsValid() {
		return "", false
	}
	es, failed, _ := c21Iterate(x, cfg)
	if failed || len(es) < 3 {
		return "", false
	}
	return evsString(es[2 : len(es)-1]), true
}

func c21Cfg(snake bool, def int, ci bool) *configuration.Configuration {
	cfg := configuration.New()
	if snake {
		cfg.Iterator.FieldNameStyle = configuration.FieldNameSnakeCase
	} else {
		cfg.Iterator.FieldNameStyle = configuration.FieldNameCamelCase
	}
	cfg.Iterator.DefaultFieldOmitBehavior = c21OmitCfg[def]
	cfg.Builder.CaseInsensitiveStructFieldNames = ci
	cfg.Builder.IgnoreUnknownFields = true
	return cfg
}

// ---------------------------------------------------------------------------
// Part 1: one struct value through the iterator

type c21Type struct {
	T      reflect.Type
	Decls  []c21Decl
	Label  string
	IterLv []c21Leaf
	IterSt c21TypeStatus
	BldLv  []c21Leaf
	BldSt  c21TypeStatus
	Strs   []string
}

func c21NewType(t reflect.Type, label string) *c21Type {
	ty := &c21Type{T: t, Decls: c21DeclsOf(t), Label: label}
	ty.IterLv = c21RefIterLeaves(ty.Decls, nil, &ty.IterSt)
	ty.BldLv = c21RefBuildLeaves(ty.Decls, nil, &ty.BldSt)
	ty.Strs = c21DeclStrings(ty.Decls, nil)
	return ty
}

func c21KVString(kvs []c21KV) string {
	ss := make([]string, len(kvs))
	for i, kv := range kvs {
		ss[i] = fmt.Sprintf("%q@%v", kv.Key, kv.Path)
	}
	return strings.Join(ss, " ")
}

// all exported leaves (any omit flag) with their standalone renderings, for candidate matching
func c21AllLeaves(ds []c21Decl, path []int, acc [][]int) [][]int {
	for i, d := range ds {
		p := append(append([]int{}, path...), i)
		if !d.Exported {
			continue
		}
		switch d.Kind {
		case 0, 2:
			acc = append(acc, p)
		case 1:
			acc = c21AllLeaves(d.Sub, p, acc)
		}
	}
	return acc
}

type c21IterResult struct {
	Failed   bool
	Msg      string
	Emitted  []c21Emit
	Cands    [][][]int // per emitted pair: the leaves whose own iteration gives the same events
	ParseBad bool
}

func c21RunIter(ty *c21Type, v reflect.Value, snake bool, def int) c21IterResult {
	cfg := c21Cfg(snake, def, true)
	es, failed, msg := c21Iterate(v.Interface(), cfg)
	res := c21IterResult{Failed: failed, Msg: msg}
	if failed {
		return res
	}
	em, ok := c21ParseStruct(es)
	if !ok {
		res.ParseBad = true
		res.Msg = evsString(es)
		return res
	}
	res.Emitted = em
	leaves := c21AllLeaves(ty.Decls, nil, nil)
	render := map[string]string{}
	for _, p := range leaves {
		if s, ok := c21Standalone(c21FieldAt(v, p), cfg); ok {
			render[c21Path(p)] = s
		}
	}
	for _, e := range em {
		cs := [][]int{}
		for _, p := range leaves {
			if s, ok := render[c21Path(p)]; ok && s == e.Val {
				cs = append(cs, p)
			}
		}
		res.Cands = append(res.Cands, cs)
	}
	return res
}

func c21PathIn(p []int, ps [][]int) bool {
	for _, q := range ps {
		if c21Path(q) == c21Path(p) {
			return true
		}
	}
	return false
}

// oracle for one iteration; returns "" when the property holds, else (key, expect, got)
// failures on types with an embedded non-struct field keep the keys under which that defect was first recorded
func c21EmbKey(st c21TypeStatus, key string) string {
	if key == "" || !(st.EmbPtr || st.EmbOther) {
		return key
	}
	if !(strings.HasPrefix(key, "C21/iterate/") || strings.HasPrefix(key, "C21/record/") || (strings.HasPrefix(key, "C21/build/") && key != "C21/build/hang")) {
		return key
	}
	if st.EmbPtr {
		return "C21/embedded-pointer-to-struct"
	}
	return "C21/embedded-non-struct"
}

func c21IterOracle(ty *c21Type, v reflect.Value, snake bool, def int, res c21IterResult) (key, expect, got string) {
	key, expect, got = c21IterOracle0(ty, v, snake, def, res)
	return c21EmbKey(ty.IterSt, key), expect, got
}

func c21IterOracle0(ty *c21Type, v reflect.Value, snake bool, def int, res c21IterResult) (key, expect, got string) {
	st := ty.IterSt
	if st.Malformed {
		return "", "", "" // tags outside the documented forms: nothing is required
	}
	want := c21RefEmitted(ty.IterLv, snake, def, v)
	if res.Failed {
		return "C21/iterate/error", c21KVString(want), "error: " + res.Msg
	}
	if res.ParseBad {
		return "C21/iterate/shape", c21KVString(want), res.Msg
	}
	gotS := []string{}
	for i, e := range res.Emitted {
		gotS = append(gotS, fmt.Sprintf("%q@%v", e.Key, res.Cands[i]))
	}
	got = strings.Join(gotS, " ")
	expect = c21KVString(want)
	// the kept set, each once
	if len(want) != len(res.Emitted) {
		return "C21/iterate/kept-set", expect, got
	}
	used := map[string]bool{}
	for _, w := range want {
		found := false
		for i := range res.Emitted {
			if !used[strconv.Itoa(i)] && c21PathIn(w.Path, res.Cands[i]) {
				used[strconv.Itoa(i)] = true
				found = true
				break
			}
		}
		if !found {
			return "C21/iterate/kept-set", expect, got
		}
	}
	for i, w := range want {
		if !c21PathIn(w.Path, res.Cands[i]) {
			return "C21/iterate/order", expect, got
		}
	}
	for i, w := range want {
		if res.Emitted[i].Key != w.Key {
			return "C21/iterate/name", expect, got
		}
	}
	return "", "", ""
}

func c21IterCaseTerm(ty *c21Type, v reflect.Value, snake bool, def int, res c21IterResult) (string, string) {
	impl := "None"
	human := "error"
	if !res.Failed && !res.ParseBad {
		items := []string{}
		hs := []string{}
		strs := []string{}
		for i, e := range res.Emitted {
			ps := []string{}
			for _, p := range res.Cands[i] {
				ps = append(ps, c21Path(p))
			}
			items = append(items, cPair(c21Str(e.Key), cList(ps)))
			hs = append(hs, fmt.Sprintf("%q", e.Key))
			strs = append(strs, e.Key)
		}
		impl = cSome(cList(items))
		human = strings.Join(hs, " ")
	}
	vals := c21ValsCoq(v, ty.Decls, nil, nil)
	term := cApp("IterCase", c21Utab(ty.Strs...), cBool(snake), c21OmitCoq[def], c21DeclsCoq(ty.Decls), cList(vals), impl)
	return term, fmt.Sprintf("iterate %s {%s} snake=%v default=%s value=%+v -> %s", ty.Label, c21TypeString(ty.Decls), snake, c21OmitCoq[def], v.Interface(), human)
}

// ---------------------------------------------------------------------------
// Type specs (replayable) and random types through reflect.StructOf

type c21FieldSpec struct {
	Name  string `json:"n"`
	Code  string `json:"t"`
	Tag   string `json:"g"`
	Embed bool   `json:"e,omitempty"`
}
type c21TypeSpec struct {
	Zoo    int            `json:"zoo"` // index into the zoo, or -1
	Fields []c21FieldSpec `json:"fields,omitempty"`
}

var c21TypeCodes = map[string]reflect.Type{
	"int": reflect.TypeOf(int(0)), "int8": reflect.TypeOf(int8(0)), "uint16": reflect.TypeOf(uint16(0)), "float64": reflect.TypeOf(float64(0)),
	"string": reflect.TypeOf(""), "bool": reflect.TypeOf(false), "[]int": reflect.TypeOf([]int{}), "[]string": reflect.TypeOf([]string{}),
	"map": reflect.TypeOf(map[string]int{}), "*int": reflect.TypeOf(new(int)), "*string": reflect.TypeOf(new(string)),
	"iface": reflect.TypeOf((*interface{})(nil)).Elem(), "[0]int": reflect.TypeOf([0]int{}), "[2]int": reflect.TypeOf([2]int{}),
	"leaf": reflect.TypeOf(C21ZLeaf{}), "*leaf": reflect.TypeOf(&C21ZLeaf{}),
	"inner": reflect.TypeOf(C21ZInner{}), "inner2": reflect.TypeOf(C21ZInner2{}), "deep": reflect.TypeOf(C21ZDeep{}),
	"myint": reflect.TypeOf(C21ZMyInt(0)), "*inner": reflect.TypeOf(&C21ZInner{}),
	"mystr": reflect.TypeOf(C21ZMyStr("")), "myslice": reflect.TypeOf(C21ZMySlice(nil)), "mymap": reflect.TypeOf(C21ZMyMap(nil)),
	"myfloat": reflect.TypeOf(C21ZMyFloat(0)), "*myint": reflect.TypeOf(new(C21ZMyInt)), "mid": reflect.TypeOf(C21ZEmbMid{}),
}
var c21LeafCodes = []string{"int", "int", "int", "int8", "uint16", "float64", "string", "string", "bool", "[]int", "[]string", "map", "*int", "*string", "iface", "[0]int", "[2]int", "leaf", "*leaf"}
var c21EmbedNames = map[string]string{"inner": "C21ZInner", "inner2": "C21ZInner2", "deep": "C21ZDeep", "myint": "C21ZMyInt", "*inner": "C21ZInner",
	"mystr": "C21ZMyStr", "myslice": "C21ZMySlice", "mymap": "C21ZMyMap", "myfloat": "C21ZMyFloat", "*myint": "C21ZMyInt", "mid": "C21ZEmbMid"}

func c21TypeOfSpec(sp c21TypeSpec) (t reflect.Type, err error) {
	if sp.Zoo >= 0 {
		if sp.Zoo >= len(c21ZooTypes) {
			return nil, fmt.Errorf("no zoo type %d", sp.Zoo)
		}
		return c21ZooTypes[sp.Zoo], nil
	}
	defer func() {
		if r := recover(); r != nil {
			err = fmt.Errorf("StructOf: %v", r)
		}
	}()
	fs := []reflect.StructField{}
	for _, f := range sp.Fields {
		ft, ok := c21TypeCodes[f.Code]
		if !ok {
			return nil, fmt.Errorf("unknown type code %q", f.Code)
		}
		sf := reflect.StructField{Name: f.Name, Type: ft, Anonymous: f.Embed}
		if f.Tag != "" {
			sf.Tag = reflect.StructTag("ce:" + strconv.Quote(f.Tag))
		}
		fs = append(fs, sf)
	}
	return reflect.StructOf(fs), nil
}

func c21SpecJSON(sp c21TypeSpec) string {
	b, _ := json.Marshal(sp)
	return string(b)
}

func c21SpecLabel(sp c21TypeSpec) string {
	if sp.Zoo >= 0 {
		return fmt.Sprintf("Z%02d", sp.Zoo+1)
	}
	return "structof"
}

func c21MakeValue(ty *c21Type, vseed int64, mode int) reflect.Value {
	v := reflect.New(ty.T).Elem()
	c21FillStruct(rand.New(rand.NewSource(vseed)), v, ty.Decls, mode)
	return v
}

// --- names

var c21Words = []string{"Name", "Id", "ID", "URL", "HTTP", "Server", "X", "A", "B", "My", "Field", "Value", "Count", "IO", "V2", "Utf8", "Item", "JSON", "Api", "Key", "Q", "Zed", "Ärger", "Élan", "Ωmega", "Ñu", "İl", "Über"}

func c21GenName(rng *rand.Rand) string {
	n := 1 + rng.Intn(4)
	var sb strings.Builder
	for i := 0; i < n; i++ {
		w := c21Words[rng.Intn(len(c21Words))]
		switch rng.Intn(10) {
		case 0:
			w = strings.ToUpper(w)
		case 1:
			if i > 0 {
				w = strings.ToLower(w)
			}
		case 2:
			if i > 0 {
				sb.WriteString("_")
			}
		case 3:
			w += strconv.Itoa(rng.Intn(100))
		}
		sb.WriteString(w)
	}
	s := sb.String()
	r, _ := utf8.DecodeRuneInString(s)
	if !unicode.IsUpper(r) {
		s = "X" + s
	}
	return s
}

// arbitrary text for name= tags (never contains ',' '=' nor outer white space)
func c21GenTagName(rng *rand.Rand) string {
	switch rng.Intn(6) {
	case 0:
		return c21GenName(rng)
	case 1:
		return strings.ToLower(c21GenName(rng))
	case 2:
		a := []rune(c21GenName(rng))
		return strings.ToLower(string(a[:1])) + string(a[1:])
	case 3:
		return c21GenName(rng) + " " + c21GenName(rng)
	case 4:
		alphabet := []rune("abAB_ 09zZ-.$éÉßΣσ")
		k := 1 + rng.Intn(8)
		rs := make([]rune, k)
		for i := range rs {
			rs[i] = alphabet[rng.Intn(len(alphabet))]
		}
		return strings.TrimSpace(string(rs)) + "q"
	}
	return strconv.Itoa(rng.Intn(50)) + c21GenName(rng)
}

func c21GenTag(rng *rand.Rand, malformedPct int) string {
	if rng.Intn(100) < malformedPct {
		bad := []string{"-", "order", "name", "order=", "order=x", "order=1.5", "order=1_0", "order=9223372036854775808", "order=-9223372036854775809",
			"omit,", ",omit", "omitempty", "Omit", "name=a=b", "order=1=2", "omit=1", "omit_zero=", "order=+3", "order= 4 ", "name= spaced ", " ", "\t",
			"name=", "order= 7 ", " omit_never ", "omit ,\torder=2", "order=--1", "order=0x10", "order=007", "name=x,,order=1"}
		return bad[rng.Intn(len(bad))]
	}
	parts := []string{}
	if rng.Intn(3) == 0 {
		parts = append(parts, []string{"omit", "omit_empty", "omit_zero", "omit_never"}[rng.Intn(4)])
	}
	if rng.Intn(3) == 0 {
		parts = append(parts, "name="+c21GenTagName(rng))
	}
	if rng.Intn(2) == 0 {
		o := int64(rng.Intn(5)) - 2
		if rng.Intn(10) == 0 {
			o = []int64{1<<63 - 1, -1 << 63, 1 << 40}[rng.Intn(3)]
		}
		parts = append(parts, "order="+strconv.FormatInt(o, 10))
	}
	rng.Shuffle(len(parts), func(i, j int) { parts[i], parts[j] = parts[j], parts[i] })
	sep := ","
	if rng.Intn(8) == 0 {
		sep = " , "
	}
	return strings.Join(parts, sep)
}

func c21GenSpec(rng *rand.Rand, malformedPct int) c21TypeSpec {
	sp := c21TypeSpec{Zoo: -1}
	n := 1 + rng.Intn(7)
	if rng.Intn(6) == 0 {
		n = 13 + rng.Intn(18) // wide structs: sorting algorithms behave differently above a dozen elements
	}
	used := map[string]bool{}
	embedded := map[string]bool{}
	for i := 0; i < n; i++ {
		if rng.Intn(7) == 0 {
			codes := []string{"inner", "inner2", "deep", "inner", "inner2", "myint", "*inner", "mystr", "myslice", "mymap", "myfloat", "*myint", "mid", "*inner", "myint"}
			code := codes[rng.Intn(len(codes))]
			nm := c21EmbedNames[code]
			if code == "deep" || code == "inner2" {
				if embedded["inner2"] {
					continue
				}
				embedded["inner2"] = true
			}
			if used[nm] {
				continue
			}
			used[nm] = true
			tag := ""
			if rng.Intn(3) == 0 {
				tag = c21GenTag(rng, malformedPct)
			}
			sp.Fields = append(sp.Fields, c21FieldSpec{Name: nm, Code: code, Tag: tag, Embed: true})
			continue
		}
		nm := c21GenName(rng)
		if used[nm] {
			continue
		}
		used[nm] = true
		sp.Fields = append(sp.Fields, c21FieldSpec{Name: nm, Code: c21LeafCodes[rng.Intn(len(c21LeafCodes))], Tag: c21GenTag(rng, malformedPct)})
	}
	if len(sp.Fields) == 0 {
		sp.Fields = append(sp.Fields, c21FieldSpec{Name: "Solo", Code: "int"})
	}
	return sp
}

// ---------------------------------------------------------------------------
// Part 2: documents into struct templates

// a document value as a tree; ids identify values inside fields
type c21Val struct {
	K     string // "str" "int" "nint" "bool" "null" "float" "list" "map" "node" "edge"
	S     string
	ID    int
	Items []*c21Val
}

func (v *c21Val) events(out []Ev) []Ev {
	switch v.K {
	case "str":
		return append(out, Ev{K: "sa", A: events.ArrayTypeString, Data: []byte(v.S)})
	case "int":
		return append(out, Ev{K: "pi", N: uint64(v.ID)})
	case "nint":
		return append(out, Ev{K: "ni", N: uint64(v.ID)})
	case "bool":
		return append(out, Ev{K: "b", B: true})
	case "null":
		return append(out, Ev{K: "null"})
	case "float":
		return append(out, Ev{K: "fl", F: float64(v.ID) + 0.25})
	case "list", "map", "node":
		out = append(out, Ev{K: map[string]string{"list": "l", "map": "m", "node": "node"}[v.K]})
		for _, it := range v.Items {
			out = it.events(out)
		}
		return append(out, Ev{K: "e"})
	case "edge":
		out = append(out, Ev{K: "edge"})
		for _, it := range v.Items {
			out = it.events(out)
		}
		return append(out, Ev{K: "e"})
	}
	panic("bad value kind " + v.K)
}

func (v *c21Val) coq(out []string) []string {
	switch v.K {
	case "str":
		return append(out, cApp("BStr", c21Str(v.S)))
	case "int", "nint", "bool", "null", "float":
		return append(out, cApp("BScalar", cNi(v.ID)))
	case "list", "map", "node":
		out = append(out, cApp("BBegin", map[string]string{"list": "CList", "map": "CMap", "node": "CNode"}[v.K], cNi(v.ID)))
		for _, it := range v.Items {
			out = it.coq(out)
		}
		return append(out, "BEnd")
	case "edge":
		out = append(out, "BEdge")
		for _, it := range v.Items {
			out = it.coq(out)
		}
		return append(out, "BEnd")
	}
	panic("bad value kind " + v.K)
}

func (v *c21Val) String() string {
	switch v.K {
	case "str":
		return strconv.Quote(v.S)
	case "int":
		return strconv.Itoa(v.ID)
	case "nint":
		return "-" + strconv.Itoa(v.ID)
	case "bool":
		return "true"
	case "null":
		return "null"
	case "float":
		return fmt.Sprintf("%d.25", v.ID)
	}
	ss := []string{}
	for _, it := range v.Items {
		ss = append(ss, it.String())
	}
	return v.K + "(" + strings.Join(ss, " ") + ")"
}

func (v *c21Val) hasEdge() bool {
	if v.K == "edge" {
		return true
	}
	for _, it := range v.Items {
		if it.hasEdge() {
			return true
		}
	}
	return false
}

// how a leaf type is written and read back; cat "" = not used as a target
func c21LeafCat(t reflect.Type) string {
	switch t.Kind() {
	case reflect.Int, reflect.Int8, reflect.Int16, reflect.Int32, reflect.Int64,
		reflect.Uint, reflect.Uint8, reflect.Uint16, reflect.Uint32, reflect.Uint64, reflect.Float32, reflect.Float64:
		return "num"
	case reflect.String:
		return "str"
	case reflect.Interface:
		if t.NumMethod() == 0 {
			return "iface"
		}
	case reflect.Ptr:
		switch c21LeafCat(t.Elem()) {
		case "num":
			return "pnum"
		case "str":
			return "pstr"
		}
		if t.Elem() == reflect.TypeOf(C21ZInner{}) {
			return "pinner"
		}
	case reflect.Slice:
		if c21LeafCat(t.Elem()) == "num" {
			return "slice"
		}
	case reflect.Map:
		if t.Key().Kind() == reflect.String && c21LeafCat(t.Elem()) == "num" {
			return "map"
		}
	case reflect.Struct:
		if t == reflect.TypeOf(C21ZLeaf{}) {
			return "leaf"
		}
	}
	return ""
}

func c21IntLike(cat string) bool { return cat == "num" || cat == "iface" || cat == "pnum" }

// the document value carrying id for a leaf of the given category, and the model's name for it once stored
func c21ValueFor(cat string, id int) (*c21Val, string) {
	switch cat {
	case "num", "pnum", "iface":
		return &c21Val{K: "int", ID: id}, cApp("AScalar", cNi(id))
	case "str", "pstr":
		s := "v" + strconv.Itoa(id)
		return &c21Val{K: "str", S: s}, cApp("AStr", c21Str(s))
	case "slice":
		return &c21Val{K: "list", ID: id, Items: []*c21Val{{K: "int", ID: id}}}, cApp("ACont", cNi(id))
	case "map":
		return &c21Val{K: "map", ID: id, Items: []*c21Val{{K: "str", S: "k"}, {K: "int", ID: id}}}, cApp("ACont", cNi(id))
	case "leaf":
		return &c21Val{K: "map", ID: id, Items: []*c21Val{{K: "str", S: "V"}, {K: "int", ID: id}}}, cApp("ACont", cNi(id))
	case "pinner":
		return &c21Val{K: "map", ID: id, Items: []*c21Val{{K: "str", S: "A"}, {K: "int", ID: id}}}, cApp("ACont", cNi(id))
	}
	return &c21Val{K: "int", ID: id}, cApp("AScalar", cNi(id))
}

func c21NumOf(v reflect.Value) (int, bool) {
	switch v.Kind() {
	case reflect.Int, reflect.Int8, reflect.Int16, reflect.Int32, reflect.Int64:
		return int(v.Int()), true
	case reflect.Uint, reflect.Uint8, reflect.Uint16, reflect.Uint32, reflect.Uint64:
		return int(v.Uint()), true
	case reflect.Float32, reflect.Float64:
		f := v.Float()
		if f == float64(int(f)) {
			return int(f), true
		}
	}
	return 0, false
}

// read a leaf back: "" when it still has its zero value, else the model's name of the stored value
// ("?" + text when it holds something no document value of ours can have produced)
func c21ReadLeaf(v reflect.Value) string {
	if v.IsZero() {
		return ""
	}
	switch c21LeafCat(v.Type()) {
	case "num":
		if n, ok := c21NumOf(v); ok {
			return cApp("AScalar", cNi(n))
		}
	case "str":
		return cApp("AStr", c21Str(v.String()))
	case "pnum":
		if n, ok := c21NumOf(v.Elem()); ok {
			return cApp("AScalar", cNi(n))
		}
	case "pstr":
		return cApp("AStr", c21Str(v.Elem().String()))
	case "iface":
		e := v.Elem()
		if n, ok := c21NumOf(e); ok {
			return cApp("AScalar", cNi(n))
		}
		if e.Kind() == reflect.String {
			return cApp("AStr", c21Str(e.String()))
		}
	case "slice":
		if v.Len() == 1 {
			if n, ok := c21NumOf(v.Index(0)); ok {
				return cApp("ACont", cNi(n))
			}
		}
	case "map":
		if v.Len() == 1 {
			if n, ok := c21NumOf(v.MapIndex(reflect.ValueOf("k"))); ok {
				return cApp("ACont", cNi(n))
			}
		}
	case "leaf":
		return cApp("ACont", cNi(int(v.Field(0).Int())))
	case "pinner":
		return cApp("ACont", cNi(int(v.Elem().Field(0).Int())))
	}
	return "?" + fmt.Sprintf("%v", v)
}

type c21Entry struct {
	Key    *c21Val // a string, or (defect probes) a non-string scalar
	Val    *c21Val
	Stored string // model name of Val once stored in a field
}

type c21Doc struct{ Entries []c21Entry }

func (d *c21Doc) events() []Ev {
	es := []Ev{{K: "bd"}, {K: "v", N: 0}, {K: "m"}}
	for _, e := range d.Entries {
		es = e.Key.events(es)
		es = e.Val.events(es)
	}
	return append(es, Ev{K: "e"}, Ev{K: "ed"})
}

func (d *c21Doc) coq() string {
	out := []string{}
	for _, e := range d.Entries {
		out = e.Key.coq(out)
		out = e.Val.coq(out)
	}
	out = append(out, "BEnd")
	return cList(out)
}

func (d *c21Doc) String() string {
	ss := []string{}
	for _, e := range d.Entries {
		ss = append(ss, e.Key.String()+"="+e.Val.String())
	}
	return "{" + strings.Join(ss, " ") + "}"
}

func (d *c21Doc) strings() []string {
	out := []string{}
	var walk func(v *c21Val)
	walk = func(v *c21Val) {
		if v.K == "str" {
			out = append(out, v.S)
		}
		for _, it := range v.Items {
			walk(it)
		}
	}
	for _, e := range d.Entries {
		walk(e.Key)
		walk(e.Val)
	}
	return out
}

func c21EncodeCBE(es []Ev) (doc []byte, err error) {
	defer func() {
		if r := recover(); r != nil {
			err = fmt.Errorf("encoder: %v", r)
		}
	}()
	var buf bytes.Buffer
	enc := ce.NewCBEEncoder(configuration.New())
	enc.PrepareToEncode(&buf)
	for _, e := range es {
		play(enc, e)
	}
	return buf.Bytes(), nil
}

type c21BuildResult struct {
	Err     bool
	Msg     string
	Hung    bool
	Fields  map[string]string // path -> model name of the stored value
	Paths   map[string][]int
	Printed string
}

var c21Hung bool // a previous unmarshal never returned: stop calling the builder

// unmarshal a CBE document into a zero template of the type, with a watchdog
func c21Unmarshal(ty *c21Type, doc []byte, ci bool) c21BuildResult {
	res := c21BuildResult{Fields: map[string]string{}, Paths: map[string][]int{}}
	if c21Hung {
		res.Hung = true
		return res
	}
	type out struct {
		v   interface{}
		err error
		pan interface{}
	}
	ch := make(chan out, 1)
	go func() {
		var o out
		defer func() {
			if r := recover(); r != nil {
				o.pan = r
			}
			ch <- o
		}()
		o.v, o.err = ce.UnmarshalFromCBEDocument(doc, reflect.New(ty.T).Elem().Interface(), c21Cfg(true, c21OmitEmpty, ci))
	}()
	var o out
	select {
	case o = <-ch:
	case <-time.After(10 * time.Second):
		c21Hung = true
		res.Hung = true
		return res
	}
	if o.pan != nil {
		res.Err, res.Msg = true, fmt.Sprint("panic: ", o.pan)
		return res
	}
	if o.err != nil {
		res.Err, res.Msg = true, o.err.Error()
	}
	if o.v == nil {
		return res
	}
	rv := reflect.ValueOf(o.v)
	for rv.Kind() == reflect.Ptr && !rv.IsNil() {
		rv = rv.Elem()
	}
	if rv.Type() != ty.T {
		res.Err, res.Msg = true, fmt.Sprintf("result has type %v", rv.Type())
		return res
	}
	res.Printed = fmt.Sprintf("%+v", rv.Interface())
	for _, p := range c21AllLeaves(ty.Decls, nil, nil) {
		if s := c21ReadLeaf(c21FieldAt(rv, p)); s != "" {
			res.Fields[c21Path(p)] = s
			res.Paths[c21Path(p)] = p
		}
	}
	return res
}

func c21FieldsString(m map[string]string) string {
	ks := []string{}
	for k := range m {
		ks = append(ks, k)
	}
	sort.Strings(ks)
	ss := []string{}
	for _, k := range ks {
		ss = append(ss, k+"="+m[k])
	}
	return strings.Join(ss, " ")
}

func c21FieldsCoq(m map[string]string) string {
	ks := []string{}
	for k := range m {
		ks = append(ks, k)
	}
	sort.Strings(ks)
	ss := []string{}
	for _, k := range ks {
		v := m[k]
		if strings.HasPrefix(v, "?") {
			v = "(AScalar 4000000000)"
		}
		ss = append(ss, cPair(k, v))
	}
	return cList(ss)
}

// ---------------------------------------------------------------------------
// Part 2 reference: which field a key must reach

func c21HasCollision(ty *c21Type) bool {
	seen := map[string]bool{}
	for _, l := range ty.BldLv {
		f := c21FoldLoose(l.Name)
		if seen[f] {
			return true
		}
		seen[f] = true
	}
	return false
}

func c21LooseTargets(ty *c21Type, key string) []c21Leaf {
	out := []c21Leaf{}
	for _, l := range ty.BldLv {
		if c21FoldLoose(l.Name) == c21FoldLoose(key) {
			out = append(out, l)
		}
	}
	return out
}

// status "hit": the property requires leaf; "none": the key matches no field; "unspec": the text does not decide
func c21SpecMatch(ty *c21Type, ci bool, key string) (leaf *c21Leaf, status string) {
	var hits []int
	for i, l := range ty.BldLv {
		if (ci && c21Fold(l.Name) == c21Fold(key)) || (!ci && l.Name == key) {
			hits = append(hits, i)
		}
	}
	if len(hits) == 1 {
		return &ty.BldLv[hits[0]], "hit"
	}
	if len(hits) > 1 {
		return nil, "unspec"
	}
	if len(c21LooseTargets(ty, key)) == 0 {
		return nil, "none"
	}
	return nil, "unspec"
}

func c21KeyVariant(rng *rand.Rand, name string) string {
	rs := []rune(name)
	switch rng.Intn(8) {
	case 0:
		return name
	case 1:
		return c21RefSnake(name)
	case 2:
		return strings.ToUpper(name)
	case 3:
		return strings.ToLower(name)
	case 4:
		for i := range rs {
			if rng.Intn(2) == 0 {
				if unicode.IsUpper(rs[i]) {
					rs[i] = unicode.ToLower(rs[i])
				} else {
					rs[i] = unicode.ToUpper(rs[i])
				}
			}
		}
		return string(rs)
	case 5:
		out := []rune{}
		for _, r := range rs {
			if rng.Intn(3) == 0 {
				out = append(out, '_')
			}
			out = append(out, r)
		}
		return string(out) + "_"
	case 6:
		return strings.ReplaceAll(name, "_", "")
	}
	out := []rune{}
	for i, r := range rs {
		if i > 0 && rng.Intn(3) == 0 {
			out = append(out, ' ')
		}
		out = append(out, r)
	}
	return string(out)
}

func c21UnknownKey(rng *rand.Rand, ty *c21Type) string {
	for {
		var k string
		switch rng.Intn(5) {
		case 0:
			k = "zz"
		case 1:
			k = c21RefSnake(c21GenName(rng)) + "_q"
		case 2:
			if len(ty.BldLv) > 0 {
				k = ty.BldLv[rng.Intn(len(ty.BldLv))].Name + "x"
			} else {
				k = "nofield"
			}
		case 3:
			if len(ty.BldLv) > 0 {
				n := ty.BldLv[rng.Intn(len(ty.BldLv))].Name
				_, sz := utf8.DecodeRuneInString(n)
				k = n[sz:] + "-"
			} else {
				k = ""
			}
		default:
			k = ""
		}
		if len(c21LooseTargets(ty, k)) == 0 {
			return k
		}
	}
}

type c21IDs struct{ n int }

func (g *c21IDs) next() int { g.n++; return g.n }

// a random value for an unknown key; names of fields are used as inner keys/strings on purpose
func c21UnknownValue(rng *rand.Rand, ty *c21Type, ids *c21IDs, depth int, edges bool) *c21Val {
	fieldName := func() string {
		if len(ty.BldLv) > 0 && rng.Intn(2) == 0 {
			return ty.BldLv[rng.Intn(len(ty.BldLv))].Name
		}
		return "k" + strconv.Itoa(rng.Intn(5))
	}
	r := rng.Intn(12)
	if depth >= 3 && r >= 6 {
		r = rng.Intn(6)
	}
	switch r {
	case 0, 1:
		return &c21Val{K: "int", ID: ids.next()}
	case 2:
		return &c21Val{K: "str", S: fieldName()}
	case 3:
		return &c21Val{K: "null", ID: ids.next()}
	case 4:
		return &c21Val{K: "bool", ID: ids.next()}
	case 5:
		return &c21Val{K: "float", ID: ids.next()}
	case 6, 7:
		v := &c21Val{K: "list", ID: ids.next()}
		for i := rng.Intn(4); i > 0; i-- {
			v.Items = append(v.Items, c21UnknownValue(rng, ty, ids, depth+1, edges))
		}
		return v
	case 8, 9:
		v := &c21Val{K: "map", ID: ids.next()}
		used := map[string]bool{}
		for i := rng.Intn(4); i > 0; i-- {
			k := fieldName()
			if used[k] {
				continue
			}
			used[k] = true
			v.Items = append(v.Items, &c21Val{K: "str", S: k}, c21UnknownValue(rng, ty, ids, depth+1, edges))
		}
		return v
	case 10:
		v := &c21Val{K: "node", ID: ids.next()}
		v.Items = append(v.Items, &c21Val{K: "int", ID: ids.next()})
		for i := rng.Intn(3); i > 0; i-- {
			v.Items = append(v.Items, c21UnknownValue(rng, ty, ids, depth+1, edges))
		}
		return v
	}
	if !edges {
		return &c21Val{K: "int", ID: ids.next()}
	}
	return &c21Val{K: "edge", Items: []*c21Val{{K: "int", ID: ids.next()}, {K: "int", ID: ids.next()}, {K: "int", ID: ids.next()}}}
}

func c21Targetable(ty *c21Type) []c21Leaf {
	out := []c21Leaf{}
	for _, l := range ty.BldLv {
		if c21LeafCat(l.Type) != "" {
			out = append(out, l)
		}
	}
	return out
}

// a clean document: keys that must hit a field (renamed per the case/underscore rule when ci) and keys that match nothing
func c21GenDoc(rng *rand.Rand, ty *c21Type, ci bool) *c21Doc {
	d := &c21Doc{}
	ids := &c21IDs{}
	tl := c21Targetable(ty)
	used := map[string]bool{}
	n := rng.Intn(7)
	for i := 0; i < n; i++ {
		if len(tl) > 0 && rng.Intn(10) < 6 {
			l := tl[rng.Intn(len(tl))]
			key := l.Name
			if ci {
				key = c21KeyVariant(rng, l.Name)
			}
			if hit, st := c21SpecMatch(ty, ci, key); st != "hit" || c21Path(hit.Path) != c21Path(l.Path) || used[key] {
				continue
			}
			used[key] = true
			v, stored := c21ValueFor(c21LeafCat(l.Type), ids.next())
			d.Entries = append(d.Entries, c21Entry{Key: &c21Val{K: "str", S: key}, Val: v, Stored: stored})
		} else {
			key := c21UnknownKey(rng, ty)
			if used[key] {
				continue
			}
			used[key] = true
			d.Entries = append(d.Entries, c21Entry{Key: &c21Val{K: "str", S: key}, Val: c21UnknownValue(rng, ty, ids, 0, false)})
		}
	}
	return d
}

// what the property requires of the result; ok=false when the text does not decide for some key
func c21DocExpect(ty *c21Type, ci bool, d *c21Doc) (map[string]string, bool) {
	exp := map[string]string{}
	for _, e := range d.Entries {
		if e.Key.K != "str" {
			continue // matches no field
		}
		l, st := c21SpecMatch(ty, ci, e.Key.S)
		switch st {
		case "hit":
			if e.Stored == "" {
				return nil, false
			}
			exp[c21Path(l.Path)] = e.Stored
		case "unspec":
			return nil, false
		}
	}
	return exp, true
}

func (d *c21Doc) withoutUnknown(ty *c21Type, ci bool) *c21Doc {
	o := &c21Doc{}
	for _, e := range d.Entries {
		if e.Key.K == "str" {
			if _, st := c21SpecMatch(ty, ci, e.Key.S); st == "hit" {
				o.Entries = append(o.Entries, e)
			}
		}
	}
	return o
}

func c21MapsEqual(a, b map[string]string) bool {
	if len(a) != len(b) {
		return false
	}
	for k, v := range a {
		if b[k] != v {
			return false
		}
	}
	return true
}

// classify a document that the implementation handles differently from what the property requires
func c21BuildFailKey(d *c21Doc) string {
	for _, e := range d.Entries {
		if e.Key.K != "str" {
			return "C21/non-string-key"
		}
	}
	for _, e := range d.Entries {
		if e.Val.hasEdge() {
			return "C21/unknown-key-edge-value"
		}
	}
	return ""
}

// the oracle for one document; returns "" or a failure key with expect/got
func c21BuildOracle(ty *c21Type, ci bool, d *c21Doc, res c21BuildResult) (key, expect, got string) {
	key, expect, got = c21BuildOracle0(ty, ci, d, res)
	return c21EmbKey(ty.BldSt, key), expect, got
}

func c21BuildOracle0(ty *c21Type, ci bool, d *c21Doc, res c21BuildResult) (key, expect, got string) {
	if res.Hung {
		return "C21/build/hang", "a result", "no return within 10 s"
	}
	if ty.BldSt.Malformed || c21HasCollision(ty) {
		return "", "", ""
	}
	exp, ok := c21DocExpect(ty, ci, d)
	if !ok {
		return "", "", ""
	}
	expect = "ok " + c21FieldsString(exp)
	got = c21FieldsString(res.Fields)
	if res.Err {
		got = "error(" + res.Msg + ") " + got
	} else {
		got = "ok " + got
	}
	if !res.Err && c21MapsEqual(exp, res.Fields) {
		return "", "", ""
	}
	if k := c21BuildFailKey(d); k != "" {
		return k, expect, got
	}
	if res.Err {
		return "C21/build/error", expect, got
	}
	for p, v := range exp {
		if res.Fields[p] != v {
			if _, set := res.Fields[p]; !set {
				return "C21/build/key-not-matched", expect, got
			}
		}
	}
	return "C21/build/other-field-disturbed", expect, got
}

// ---------------------------------------------------------------------------
// Snake-case observation: a one-field struct whose field is named through a name= tag

func c21ObserveSnake(name string) (string, bool) {
	sp := c21TypeSpec{Zoo: -1, Fields: []c21FieldSpec{{Name: "X", Code: "int", Tag: "name=" + name}}}
	t, err := c21TypeOfSpec(sp)
	if err != nil {
		return "", false
	}
	v := reflect.New(t).Elem()
	v.Field(0).SetInt(1)
	es, failed, _ := c21Iterate(v.Interface(), c21Cfg(true, c21OmitNever, true))
	if failed {
		return "", false
	}
	em, ok := c21ParseStruct(es)
	if !ok || len(em) != 1 {
		return "", false
	}
	return em[0].Key, true
}

// ---------------------------------------------------------------------------
// Steps shared by the run and the replay

func c21IterStep(sp c21TypeSpec, vseed int64, mode int, snake bool, def int) (ty *c21Type, v reflect.Value, res c21IterResult, key, expect, got string, err error) {
	t, err := c21TypeOfSpec(sp)
	if err != nil {
		return nil, v, res, "", "", "", err
	}
	ty = c21NewType(t, c21SpecLabel(sp))
	v = c21MakeValue(ty, vseed, mode)
	res = c21RunIter(ty, v, snake, def)
	key, expect, got = c21IterOracle(ty, v, snake, def, res)
	return
}

func c21BuildStep(sp c21TypeSpec, ci bool, d *c21Doc) (ty *c21Type, res c21BuildResult, key, expect, got string, err error) {
	t, err := c21TypeOfSpec(sp)
	if err != nil {
		return nil, res, "", "", "", err
	}
	ty = c21NewType(t, c21SpecLabel(sp))
	doc, err := c21EncodeCBE(d.events())
	if err != nil {
		return ty, res, "", "", "", err
	}
	res = c21Unmarshal(ty, doc, ci)
	key, expect, got = c21BuildOracle(ty, ci, d, res)
	if key == "" && !res.Hung && !ty.BldSt.Malformed && !c21HasCollision(ty) {
		// "leaves the others as a document without those keys would"
		if _, ok := c21DocExpect(ty, ci, d); ok {
			base := d.withoutUnknown(ty, ci)
			if len(base.Entries) != len(d.Entries) {
				if bdoc, e2 := c21EncodeCBE(base.events()); e2 == nil {
					bres := c21Unmarshal(ty, bdoc, ci)
					if bres.Err != res.Err || !c21MapsEqual(bres.Fields, res.Fields) {
						return ty, res, c21EmbKey(ty.BldSt, "C21/build/unknown-key-disturbs"), "as without the unknown keys: " + c21FieldsString(bres.Fields), c21FieldsString(res.Fields), nil
					}
				}
			}
		}
	}
	return
}

// ---------------------------------------------------------------------------
// The same struct registered as a record type

type c21RecResult struct {
	Failed   bool
	ParseBad bool
	Msg      string
	Keys     []string
	Vals     []string
	Cands    [][][]int
}

func c21RunRecord(ty *c21Type, v reflect.Value, snake bool, def int) c21RecResult {
	cfg := c21Cfg(snake, def, true)
	cfg.Iterator.RecordTypes[ty.T] = "r"
	es, failed, msg := c21Iterate(v.Interface(), cfg)
	res := c21RecResult{Failed: failed, Msg: msg}
	if failed {
		return res
	}
	bad := func() c21RecResult {
		res.ParseBad = true
		res.Msg = evsString(es)
		return res
	}
	// bd v rt keys* e rec values* e ed
	if len(es) < 7 || es[0].K != "bd" || es[1].K != "v" || es[2].K != "rt" || es[len(es)-1].K != "ed" || es[len(es)-2].K != "e" {
		return bad()
	}
	i := 3
	for i < len(es) && es[i].K == "sa" && es[i].A == events.ArrayTypeString {
		res.Keys = append(res.Keys, string(es[i].Data))
		i++
	}
	if i+1 >= len(es) || es[i].K != "e" || es[i+1].K != "rec" {
		return bad()
	}
	i += 2
	end := len(es) - 2
	for i < end {
		j := c21SkipValue(es, i)
		if j < 0 || j > end {
			return bad()
		}
		res.Vals = append(res.Vals, evsString(es[i:j]))
		i = j
	}
	plain := c21Cfg(snake, def, true)
	leaves := c21AllLeaves(ty.Decls, nil, nil)
	render := map[string]string{}
	for _, p := range leaves {
		if s, ok := c21Standalone(c21FieldAt(v, p), plain); ok {
			render[c21Path(p)] = s
		}
	}
	for _, val := range res.Vals {
		cs := [][]int{}
		for _, p := range leaves {
			if s, ok := render[c21Path(p)]; ok && s == val {
				cs = append(cs, p)
			}
		}
		res.Cands = append(res.Cands, cs)
	}
	return res
}

// a record type declares, in tag order, every field that its omit flag (or the default) does not drop
// outright; every record carries exactly those fields, empty or not
func c21RecordOracle(ty *c21Type, snake bool, def int, res c21RecResult) (key, expect, got string) {
	st := ty.IterSt
	if st.Malformed {
		return "", "", ""
	}
	kept := []c21Leaf{}
	for _, l := range ty.IterLv {
		o := l.Omit
		if o == c21OmitDefault {
			o = def
		}
		if o != c21OmitAlways {
			kept = append(kept, l)
		}
	}
	sort.SliceStable(kept, func(i, j int) bool { return kept[i].Order < kept[j].Order })
	want := []c21KV{}
	for _, l := range kept {
		n := l.Name
		if snake {
			n = c21RefSnake(n)
		}
		want = append(want, c21KV{n, l.Path})
	}
	expect = c21KVString(want)
	if res.Failed {
		return c21EmbKey(st, "C21/record/error"), expect, "error: " + res.Msg
	}
	if res.ParseBad {
		return c21EmbKey(st, "C21/record/shape"), expect, res.Msg
	}
	got = fmt.Sprintf("keys %q values %v", res.Keys, res.Cands)
	if len(res.Keys) != len(want) {
		return c21EmbKey(st, "C21/record/keys"), expect, got
	}
	for i, w := range want {
		if res.Keys[i] != w.Key {
			return c21EmbKey(st, "C21/record/keys"), expect, got
		}
	}
	if len(res.Vals) != len(want) {
		return c21EmbKey(st, "C21/record/values"), expect, got
	}
	for i, w := range want {
		if !c21PathIn(w.Path, res.Cands[i]) {
			return c21EmbKey(st, "C21/record/values"), expect, got
		}
	}
	return "", "", ""
}

func c21RecordCaseTerm(ty *c21Type, v reflect.Value, snake bool, def int, res c21RecResult) (string, string) {
	impl, human := "None", "error"
	if !res.Failed && !res.ParseBad {
		keys := []string{}
		for _, k := range res.Keys {
			keys = append(keys, c21Str(k))
		}
		vals := []string{}
		for _, cs := range res.Cands {
			ps := []string{}
			for _, p := range cs {
				ps = append(ps, c21Path(p))
			}
			vals = append(vals, cList(ps))
		}
		impl = cSome(cPair(cList(keys), cList(vals)))
		human = fmt.Sprintf("keys %q values %v", res.Keys, res.Vals)
	}
	term := cApp("RecordCase", c21Utab(ty.Strs...), cBool(snake), c21OmitCoq[def], c21DeclsCoq(ty.Decls), impl)
	return term, fmt.Sprintf("record %s {%s} snake=%v default=%s value=%+v -> %s", ty.Label, c21TypeString(ty.Decls), snake, c21OmitCoq[def], v.Interface(), human)
}

func c21RecordStep(sp c21TypeSpec, vseed int64, mode int, snake bool, def int) (ty *c21Type, v reflect.Value, res c21RecResult, key, expect, got string, err error) {
	t, err := c21TypeOfSpec(sp)
	if err != nil {
		return nil, v, res, "", "", "", err
	}
	ty = c21NewType(t, c21SpecLabel(sp))
	v = c21MakeValue(ty, vseed, mode)
	res = c21RunRecord(ty, v, snake, def)
	key, expect, got = c21RecordOracle(ty, snake, def, res)
	return
}

func c21DocJSON(d *c21Doc) string {
	b, _ := json.Marshal(d)
	return string(b)
}

// ---------------------------------------------------------------------------

func runC21(c *Ctx) {
	c.Rep.Rule = "marshal: 50 zoo struct types (embedding of structs and of non-struct types — named scalars/slices/maps/interfaces, pointers to structs nil and non-nil, at depth, tagged —, every tag form, duplicate orders, every emptiness class, malformed tags) x 3+ values x 2 name styles x 5 omit defaults, " +
		"plus random reflect.StructOf types (random names incl. acronyms/digits/underscores/non-ASCII, random and malformed tags, embedded named structs); " +
		"each zoo type and a third of the random types also registered as a record type (record type keys and record values); snake-case: generated names observed through a name= tag; unmarshal: per type x both case settings, one-key probes (renamed, re-cased, underscored, spaced, unknown keys) and whole documents " +
		"(reordered, renamed, extra keys with scalar/container values, defect probes with edge values and non-string keys). " +
		"non-trivial = the type has at least one exported field and the tags are well-formed, or the document has at least one entry; distinct = distinct (type, value, configuration) or (type, setting, document)"
	cf := c.Cases("fields", "CE.Model.Fields", "fields_case", "fields_case_ok")
	rng := c.Rng

	// 0. the hypothesis of the lookup theorem about unicode.ToLower, on every rune
	for r := rune(0); r <= unicode.MaxRune; r++ {
		l := unicode.ToLower(r)
		if unicode.ToLower(l) != l || (r < 128 && l >= 128) || (r >= 128 && l < 128 && l >= 'A' && l <= 'Z') {
			c.Fail(Replay{Kind: "tolower", Key: "C21/tolower-not-idempotent", Input: map[string]string{"rune": strconv.Itoa(int(r))},
				Expect: "ToLower(ToLower(r)) = ToLower(r)", Got: fmt.Sprintf("%d -> %d -> %d", r, l, unicode.ToLower(l))})
		}
	}
	c.Count("tolower-sweep", true)

	// 1. snake case on generated names
	snakeSeen := map[string]bool{}
	nSnake := c.Pick(250, 3000)
	fixed := []string{"", "A", "a", "AB", "ABc", "AbC", "HTTPServer", "MyURLParser", "ID", "X2Y", "A_B", "aB", "a1B", "1B", "ABCd", "ABCDe", "AAa", "AaA", "aAa", "AAAa",
		"abcDEFGhi", "with space", "É", "ÉCole", "éCole", "aÉb", "ABÉc", "ΣΑΣ", "İX", "a_B", "a__B", "A1B2C3", "x9Y", "XMLHttpRequest", "userID", "UserIDName", "IOError", "getHTTPSPort", "Z", "zZ", "ZZ", "zzZZzz"}
	for i := 0; i < nSnake; i++ {
		var name string
		if i < len(fixed) {
			name = fixed[i]
		} else {
			name = c21GenTagName(rng)
		}
		if snakeSeen[name] || strings.ContainsAny(name, ",=") || strings.TrimSpace(name) != name {
			continue
		}
		snakeSeen[name] = true
		got, ok := c21ObserveSnake(name)
		c.Count("snake|"+name, name != "")
		if !ok {
			c.Fail(Replay{Kind: "snake", Key: "C21/snake/observe", Input: map[string]string{"name": name}, Expect: "one key", Got: "iteration failed"})
			continue
		}
		want := c21RefSnake(name)
		c.Dist(fmt.Sprintf("snake/changed=%v", got != name))
		if len(c.Rep.Samples) < 2 {
			c.Sample(map[string]string{"snake_of": name, "emitted": got})
		}
		if got != want {
			c.Fail(Replay{Kind: "snake", Key: "C21/snake/name", Input: map[string]string{"name": name}, Expect: want, Got: got})
		}
		cf.Add(cApp("SnakeCase", c21Utab(name), c21Str(name), c21Str(got)), fmt.Sprintf("snake %q -> %q", name, got))
	}

	// 2. the types
	specs := []c21TypeSpec{}
	for i := range c21ZooTypes {
		specs = append(specs, c21TypeSpec{Zoo: i})
	}
	nZoo := len(specs)
	for i := 0; i < c.Pick(160, 3000); i++ {
		pct := 4
		if i%5 == 0 {
			pct = 40 // the malformed stream
		}
		specs = append(specs, c21GenSpec(rng, pct))
	}

	iterCases, lookupCases, buildCases, recordCases := 0, 0, 0, 0
	maxIter, maxLookup, maxBuild, maxRecord := c.Pick(650, 6000), c.Pick(520, 5000), c.Pick(330, 4000), c.Pick(300, 3000)

	for si, sp := range specs {
		t, err := c21TypeOfSpec(sp)
		if err != nil {
			c.Dist("type/structof-rejected")
			continue
		}
		ty := c21NewType(t, c21SpecLabel(sp))
		isZoo := si < nZoo
		// zoo types with an embedded non-struct field always send their unmarshal cases to Coq; the others are sampled in the quick tier
		prio := isZoo && (ty.BldSt.EmbPtr || ty.BldSt.EmbOther)
		c.Dist(fmt.Sprintf("type/zoo=%v/malformed=%v/embedded=%v", isZoo, ty.IterSt.Malformed, strings.Contains(c21TypeString(ty.Decls), "embed ")))
		if ty.IterSt.ExpDiffer {
			c.Fail(Replay{Kind: "exported", Key: "C21/exported-predicates-differ", Input: map[string]string{"type": c21SpecJSON(sp)},
				Expect: "first-rune-upper = reflect IsExported", Got: c21TypeString(ty.Decls)})
		}

		// ---- part 1
		type vm struct {
			seed int64
			mode int
		}
		values := []vm{{rng.Int63(), 2}}
		if isZoo {
			values = []vm{{1, 0}, {2, 1}, {rng.Int63(), 2}, {rng.Int63(), 2}}
			if c.Thorough() {
				for k := 0; k < 6; k++ {
					values = append(values, vm{rng.Int63(), 2})
				}
			}
		}
		for vi, val := range values {
			coqCfg := rng.Intn(10) // one configuration per value goes to Coq (all of them for the first two zoo values in thorough)
			for cfgi := 0; cfgi < 10; cfgi++ {
				snake, def := cfgi%2 == 0, cfgi/2
				if !isZoo && cfgi != coqCfg && cfgi != (coqCfg+3)%10 {
					continue
				}
				_, v, res, key, expect, got, _ := c21IterStep(sp, val.seed, val.mode, snake, def)
				nontrivial := len(ty.IterLv) > 0 && !ty.IterSt.Malformed
				c.Count(fmt.Sprintf("iter|%s|%d|%d|%d", c21SpecJSON(sp), val.seed, val.mode, cfgi), nontrivial)
				switch {
				case res.Failed:
					c.Dist("iterate/outcome=error")
				default:
					c.Dist(fmt.Sprintf("iterate/outcome=ok/emitted=%d", len(res.Emitted)))
				}
				c.Dist(fmt.Sprintf("iterate/style-snake=%v/default=%s", snake, c21OmitCoq[def]))
				if key != "" {
					c.Fail(Replay{Kind: "iterate", Key: key, Expect: expect, Got: got,
						Input: map[string]string{"type": c21SpecJSON(sp), "vseed": strconv.FormatInt(val.seed, 10), "mode": strconv.Itoa(val.mode),
							"snake": strconv.FormatBool(snake), "default": strconv.Itoa(def), "go_type": c21TypeString(ty.Decls)}})
				}
				toCoq := cfgi == coqCfg || (isZoo && vi < 2 && (c.Thorough() || cfgi == (coqCfg+5)%10))
				if toCoq && iterCases < maxIter {
					term, human := c21IterCaseTerm(ty, v, snake, def, res)
					cf.Add(term, human)
					iterCases++
					if isZoo && vi == 1 && cfgi == coqCfg && len(c.Rep.Samples) < 5 {
						c.Sample(map[string]string{"iterate": human})
					}
				}
			}
		}

		// ---- part 1b: the type registered as a record type
		for vi, val := range values {
			if vi >= 3 || (!isZoo && si%3 != 0) {
				break
			}
			for k := 0; k < 2; k++ {
				cfgi := rng.Intn(10)
				snake, def := cfgi%2 == 0, cfgi/2
				_, v, res, key, expect, got, _ := c21RecordStep(sp, val.seed, val.mode, snake, def)
				c.Count(fmt.Sprintf("record|%s|%d|%d|%d", c21SpecJSON(sp), val.seed, val.mode, cfgi), len(ty.IterLv) > 0 && !ty.IterSt.Malformed)
				c.Dist(fmt.Sprintf("record/failed=%v/keys=%d", res.Failed, len(res.Keys)))
				if key != "" {
					c.Fail(Replay{Kind: "record", Key: key, Expect: expect, Got: got,
						Input: map[string]string{"type": c21SpecJSON(sp), "vseed": strconv.FormatInt(val.seed, 10), "mode": strconv.Itoa(val.mode),
							"snake": strconv.FormatBool(snake), "default": strconv.Itoa(def), "go_type": c21TypeString(ty.Decls)}})
				}
				if recordCases < maxRecord {
					term, human := c21RecordCaseTerm(ty, v, snake, def, res)
					cf.Add(term, human)
					recordCases++
				}
			}
		}

		// ---- part 2
		if c21Hung {
			continue
		}
		for _, ci := range []bool{true, false} {
			// one-key probes
			keys := []string{}
			for _, l := range ty.BldLv {
				keys = append(keys, l.Name)
				if isZoo || rng.Intn(3) == 0 {
					keys = append(keys, c21RefSnake(l.Name), c21KeyVariant(rng, l.Name))
				}
			}
			keys = append(keys, c21UnknownKey(rng, ty))
			if isZoo {
				keys = append(keys, c21UnknownKey(rng, ty), "")
			}
			seenKey := map[string]bool{}
			for _, key := range keys {
				if seenKey[key] {
					continue
				}
				seenKey[key] = true
				cat := "num"
				skip := false
				lts := c21LooseTargets(ty, key)
				for i, l := range lts {
					lc := c21LeafCat(l.Type)
					if lc == "" || (i > 0 && lc != cat) {
						skip = true
					}
					cat = lc
				}
				if skip {
					continue
				}
				val, stored := c21ValueFor(cat, 7)
				d := &c21Doc{Entries: []c21Entry{{Key: &c21Val{K: "str", S: key}, Val: val, Stored: stored}}}
				_, res, fkey, expect, got, err := c21BuildStep(sp, ci, d)
				if err != nil {
					continue
				}
				_, st := c21SpecMatch(ty, ci, key)
				c.Count(fmt.Sprintf("probe|%s|%v|%s", c21SpecJSON(sp), ci, key), true)
				c.Dist(fmt.Sprintf("probe/ci=%v/spec=%s/err=%v/set=%d", ci, st, res.Err, len(res.Fields)))
				if fkey != "" {
					c.Fail(Replay{Kind: "build", Key: fkey, Expect: expect, Got: got,
						Input: map[string]string{"type": c21SpecJSON(sp), "ci": strconv.FormatBool(ci), "doc": c21DocJSON(d), "go_type": c21TypeString(ty.Decls), "doc_text": d.String()}})
				}
				if !ci && st == "unspec" && len(res.Fields) == 1 {
					c.Dist("obs/case-sensitive-setting-matches-alias")
				}
				if res.Hung {
					break
				}
				if lookupCases < maxLookup && (prio || c.Thorough() || rng.Intn(100) < 30) {
					obs := "LNone"
					switch {
					case res.Err || len(res.Fields) > 1:
						obs = "LErr"
					case len(res.Fields) == 1:
						for p := range res.Fields {
							obs = cApp("LField", p)
						}
					}
					cf.Add(cApp("LookupCase", c21Utab(append(append([]string{}, ty.Strs...), key)...), c21DeclsCoq(ty.Decls), cBool(ci), c21Str(key), obs),
						fmt.Sprintf("lookup %s {%s} ci=%v key=%q -> %s %s", ty.Label, c21TypeString(ty.Decls), ci, key, obs, res.Printed))
					lookupCases++
				}
			}
			if c21Hung || ty.BldSt.Malformed {
				continue
			}

			// whole documents
			docs := []*c21Doc{}
			nDocs := 2
			if isZoo {
				nDocs = c.Pick(3, 12)
			}
			for i := 0; i < nDocs; i++ {
				docs = append(docs, c21GenDoc(rng, ty, ci))
			}
			// defect probes: an edge inside the value of an unknown key; a non-string key
			var il []c21Leaf
			for _, l := range ty.BldLv {
				if _, st := c21SpecMatch(ty, ci, l.Name); st == "hit" && c21IntLike(c21LeafCat(l.Type)) {
					il = append(il, l)
				}
			}
			if (isZoo || rng.Intn(4) == 0) && !c21HasCollision(ty) {
				mk := func(l c21Leaf, id int) c21Entry {
					v, s := c21ValueFor(c21LeafCat(l.Type), id)
					return c21Entry{Key: &c21Val{K: "str", S: l.Name}, Val: v, Stored: s}
				}
				edge := func(a, b, cc int) *c21Val {
					return &c21Val{K: "edge", Items: []*c21Val{{K: "int", ID: a}, {K: "int", ID: b}, {K: "int", ID: cc}}}
				}
				unk := c21UnknownKey(rng, ty)
				if unk == "" {
					unk = "zz"
					if len(c21LooseTargets(ty, unk)) > 0 {
						unk = "no such field"
					}
				}
				uk := &c21Val{K: "str", S: unk}
				if len(il) >= 1 {
					a := il[rng.Intn(len(il))]
					b := il[rng.Intn(len(il))]
					docs = append(docs,
						&c21Doc{Entries: []c21Entry{{Key: uk, Val: edge(11, 12, 13)}, mk(a, 1)}},
						&c21Doc{Entries: []c21Entry{mk(a, 1), {Key: uk, Val: edge(11, 12, 13)}}},
						&c21Doc{Entries: []c21Entry{{Key: &c21Val{K: "int", ID: 21}, Val: &c21Val{K: "int", ID: 22}}, mk(a, 1)}},
						&c21Doc{Entries: []c21Entry{mk(a, 1), {Key: &c21Val{K: "int", ID: 21}, Val: &c21Val{K: "int", ID: 22}}}})
					if c21Path(a.Path) != c21Path(b.Path) {
						docs = append(docs,
							&c21Doc{Entries: []c21Entry{mk(a, 1), {Key: uk, Val: &c21Val{K: "list", ID: 30, Items: []*c21Val{edge(11, 12, 13), {K: "int", ID: 14}}}}, mk(b, 2)}},
							&c21Doc{Entries: []c21Entry{mk(a, 1), {Key: &c21Val{K: "int", ID: 21}, Val: &c21Val{K: "int", ID: 22}}, mk(b, 2)}})
					}
				} else {
					docs = append(docs, &c21Doc{Entries: []c21Entry{{Key: uk, Val: edge(11, 12, 13)}}},
						&c21Doc{Entries: []c21Entry{{Key: &c21Val{K: "int", ID: 21}, Val: &c21Val{K: "int", ID: 22}}}})
				}
			}
			for di, d := range docs {
				_, res, fkey, expect, got, err := c21BuildStep(sp, ci, d)
				if err != nil {
					c.Dist("doc/encode-error")
					continue
				}
				c.Count(fmt.Sprintf("doc|%s|%v|%s", c21SpecJSON(sp), ci, c21DocJSON(d)), len(d.Entries) > 0)
				unknown := 0
				for _, e := range d.Entries {
					if e.Stored == "" {
						unknown++
					}
				}
				c.Dist(fmt.Sprintf("doc/ci=%v/entries=%d/unknown=%d/err=%v", ci, len(d.Entries), unknown, res.Err))
				if fkey != "" {
					c.Fail(Replay{Kind: "build", Key: fkey, Expect: expect, Got: got,
						Input: map[string]string{"type": c21SpecJSON(sp), "ci": strconv.FormatBool(ci), "doc": c21DocJSON(d), "go_type": c21TypeString(ty.Decls), "doc_text": d.String()}})
				}
				if res.Hung {
					break
				}
				if !c21HasCollision(ty) && buildCases < maxBuild && (prio || c.Thorough() || rng.Intn(100) < 35) {
					strs := append(append([]string{}, ty.Strs...), d.strings()...)
					cf.Add(cApp("BuildCase", c21Utab(strs...), c21DeclsCoq(ty.Decls), cBool(ci), d.coq(), cBool(!res.Err), c21FieldsCoq(res.Fields)),
						fmt.Sprintf("build %s {%s} ci=%v doc=%s -> err=%v %s", ty.Label, c21TypeString(ty.Decls), ci, d.String(), res.Err, res.Printed))
					buildCases++
					if isZoo && di == 0 && len(d.Entries) > 2 && len(c.Rep.Samples) < 8 {
						c.Sample(map[string]string{"build": fmt.Sprintf("%s ci=%v doc=%s -> err=%v %s", ty.Label, ci, d.String(), res.Err, res.Printed)})
					}
				}
			}
			// non-string keys of other kinds (oracle only)
			if isZoo && len(il) > 0 && !c21HasCollision(ty) {
				a := il[0]
				v, s := c21ValueFor(c21LeafCat(a.Type), 1)
				for _, kk := range []string{"bool", "nint"} {
					d := &c21Doc{Entries: []c21Entry{{Key: &c21Val{K: "str", S: a.Name}, Val: v, Stored: s}, {Key: &c21Val{K: kk, ID: 5}, Val: &c21Val{K: "int", ID: 6}}}}
					_, res, fkey, expect, got, err := c21BuildStep(sp, ci, d)
					if err != nil {
						continue
					}
					c.Count(fmt.Sprintf("doc|%s|%v|%s", c21SpecJSON(sp), ci, c21DocJSON(d)), true)
					c.Dist(fmt.Sprintf("doc/non-string-key=%s/err=%v", kk, res.Err))
					if fkey != "" {
						c.Fail(Replay{Kind: "build", Key: fkey, Expect: expect, Got: got,
							Input: map[string]string{"type": c21SpecJSON(sp), "ci": strconv.FormatBool(ci), "doc": c21DocJSON(d), "go_type": c21TypeString(ty.Decls), "doc_text": d.String()}})
					}
				}
			}
		}
	}
	c.Rep.Extra["coq_cases"] = map[string]int{"iterate": iterCases, "lookup": lookupCases, "build": buildCases, "record": recordCases}
	c.Rep.Extra["hung"] = c21Hung
}

func replayC21(r *Replay) (bool, string) {
	switch r.Kind {
	case "tolower":
		n, _ := strconv.Atoi(r.Input["rune"])
		l := unicode.ToLower(rune(n))
		return unicode.ToLower(l) == l, fmt.Sprintf("%d -> %d -> %d", n, l, unicode.ToLower(l))
	case "snake":
		got, ok := c21ObserveSnake(r.Input["name"])
		want := c21RefSnake(r.Input["name"])
		return ok && got == want, fmt.Sprintf("name %q emitted as %q, required %q", r.Input["name"], got, want)
	case "exported":
		var sp c21TypeSpec
		if json.Unmarshal([]byte(r.Input["type"]), &sp) != nil {
			return false, "bad replay input"
		}
		t, err := c21TypeOfSpec(sp)
		if err != nil {
			return false, err.Error()
		}
		ty := c21NewType(t, "")
		return !ty.IterSt.ExpDiffer, c21TypeString(ty.Decls)
	case "iterate":
		var sp c21TypeSpec
		if json.Unmarshal([]byte(r.Input["type"]), &sp) != nil {
			return false, "bad replay input"
		}
		vseed, _ := strconv.ParseInt(r.Input["vseed"], 10, 64)
		mode, _ := strconv.Atoi(r.Input["mode"])
		def, _ := strconv.Atoi(r.Input["default"])
		if def < 0 || def > 4 {
			return false, "bad replay input"
		}
		ty, v, _, key, expect, got, err := c21IterStep(sp, vseed, mode, r.Input["snake"] == "true", def)
		if err != nil {
			return false, err.Error()
		}
		return key == "", fmt.Sprintf("type {%s} value %+v: required [%s] emitted [%s] %s", c21TypeString(ty.Decls), v.Interface(), expect, got, key)
	case "record":
		var sp c21TypeSpec
		if json.Unmarshal([]byte(r.Input["type"]), &sp) != nil {
			return false, "bad replay input"
		}
		vseed, _ := strconv.ParseInt(r.Input["vseed"], 10, 64)
		mode, _ := strconv.Atoi(r.Input["mode"])
		def, _ := strconv.Atoi(r.Input["default"])
		if def < 0 || def > 4 {
			return false, "bad replay input"
		}
		ty, v, _, key, expect, got, err := c21RecordStep(sp, vseed, mode, r.Input["snake"] == "true", def)
		if err != nil {
			return false, err.Error()
		}
		return key == "", fmt.Sprintf("record type {%s} value %+v: required [%s] emitted [%s] %s", c21TypeString(ty.Decls), v.Interface(), expect, got, key)
	case "build":
		var sp c21TypeSpec
		var d c21Doc
		if json.Unmarshal([]byte(r.Input["type"]), &sp) != nil || json.Unmarshal([]byte(r.Input["doc"]), &d) != nil {
			return false, "bad replay input"
		}
		ty, res, key, expect, got, err := c21BuildStep(sp, r.Input["ci"] == "true", &d)
		if err != nil {
			return false, err.Error()
		}
		return key == "", fmt.Sprintf("type {%s} document %s: required [%s] got [%s] result %s %s", c21TypeString(ty.Decls), d.String(), expect, got, res.Printed, key)
	}
	return false, "unknown replay kind " + r.Kind
}
