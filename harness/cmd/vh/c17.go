package main

// C17 — Concurrent use of separate instances is race-free and matches sequential use.
//
// Three parts:
//
//  1. the WORKLOAD (c17RunWorkload): goroutines x GOMAXPROCS x modes, every result compared with the
//     result of the same call run alone on fresh instances.  It runs in-process (no race detector) and,
//     as `vh c17worker <seed> <goroutines> <gomaxprocs> <mode>`, inside a binary built with `go build -race`
//     whose path is given by the environment variable VERIF_VH_RACE.
//  2. the SCENARIOS on the type caches (iterator.Session.GetIteratorForType /
//     builder.Session.GetBuilderGeneratorForType): sequences and small concurrent groups of calls on one
//     shared session, observed as (ok | error | never returns) plus whether the cache handed out its
//     placeholder closure or the generated function.  The same scenarios are evaluated by the Coq model
//     (CE.Model.Cache): sequential scenarios must agree exactly, concurrent ones must be among the
//     outcomes the model reaches under some schedule.
//  3. the oracle: every difference from the run-alone result, every data race report, every call that
//     never returns although it returns when run alone is a failure.

import (
	"bytes"
	"encoding/hex"
	"encoding/json"
	"fmt"
	"math/big"
	"math/rand"
	"os"
	"os/exec"
	"reflect"
	"runtime"
	"sort"
	"strconv"
	"strings"
	"sync"
	"sync/atomic"
	"time"

	"github.com/kstenerud/go-concise-encoding/builder"
	"github.com/kstenerud/go-concise-encoding/ce"
	"github.com/kstenerud/go-concise-encoding/configuration"
	"github.com/kstenerud/go-concise-encoding/iterator"
	describe "github.com/kstenerud/go-describe"
)

func init() {
	register("C17", runC17, replayC17)
	// hidden sub-command: the concurrent workload as a process of its own (so that it can be a -race build)
	if len(os.Args) >= 2 && os.Args[1] == "c17worker" {
		os.Exit(c17WorkerMain(os.Args[2:]))
	}
}

// ---------------------------------------------------------------------------
// Types used by the workloads

type c17Scalars struct {
	Bo  bool
	In  int
	I8  int8
	I64 int64
	U16 uint16
	U64 uint64
	F32 float32
	F64 float64
	St  string
	By  []byte
	Bi  *big.Int
}

type c17List struct {
	Va   int
	Next *c17List
}

type c17Tree struct {
	Name string
	Kids []c17Tree
	Mp   map[string]*c17Tree
}

type c17A struct {
	Xx int
	Bb *c17B
}

type c17B struct {
	Yy string
	Aa *c17A
	As []c17A
}

type c17Inner struct {
	Pa int16
	Pb string
}

type c17Wide struct {
	c17Hidden int
	Sa        []int16
	Sb        []string
	Sc        []float64
	Ma        map[int]string
	Mb        map[string][]int
	Aa        [3]uint8
	Ab        [2]string
	Ac        [2]c17Inner
	Pa        *float32
	Pb        **int
	Pc        []*string
	An        interface{}
	In        c17Inner
	Ip        *c17Inner
	Sl        []c17Inner
	Li        *c17List
}

type c17Embed struct {
	C17Emb
	Zz int
}

type C17Emb struct {
	Ea string
	Eb []uint32
}

// unsupported element kinds: the default iterator / builder generator panics on them
type c17BadChan struct {
	Aa int
	Ch chan int
}
type c17BadFunc struct {
	Fn func()
}
type c17BadCplx struct {
	Aa string
	Cx complex128
}
type c17HoldsBad struct {
	Xx int
	Pb *c17BadChan
}
type c17HoldsBadSlice struct {
	Sl []c17BadCplx
	Yy int
}

// mutually recursive types with an unsupported field: generating c17RecBad completes the functions for
// *c17RecBad2, c17RecBad2 and *c17RecBad (which captured c17RecBad's placeholder) before it fails
type c17RecBad struct {
	Aa *c17RecBad2
	Ch chan int
}
type c17RecBad2 struct {
	Bb *c17RecBad
}

var c17StaticTypes = []reflect.Type{
	reflect.TypeOf(c17Scalars{}), reflect.TypeOf(c17List{}), reflect.TypeOf(c17Tree{}), reflect.TypeOf(c17A{}),
	reflect.TypeOf(c17B{}), reflect.TypeOf(c17Wide{}), reflect.TypeOf(c17Embed{}), reflect.TypeOf(c17Inner{}),
	reflect.TypeOf([]c17Inner{}), reflect.TypeOf(map[string]c17Inner{}), reflect.TypeOf([2][]c17List{}),
	reflect.TypeOf([]interface{}{}), reflect.TypeOf(map[string]interface{}{}), reflect.TypeOf([]*c17A{}),
}

var c17LeafPool = []reflect.Type{
	reflect.TypeOf(false), reflect.TypeOf(int(0)), reflect.TypeOf(int8(0)), reflect.TypeOf(int32(0)), reflect.TypeOf(uint16(0)),
	reflect.TypeOf(uint64(0)), reflect.TypeOf(float32(0)), reflect.TypeOf(float64(0)), reflect.TypeOf(""), reflect.TypeOf([]byte{}),
	reflect.TypeOf([]int32{}), reflect.TypeOf([]string{}), reflect.TypeOf((*big.Int)(nil)), reflect.TypeOf([4]uint8{}),
}

// c17DynTypes makes struct types that exist only in this run (reflect.StructOf), so that no session has seen them.
func c17DynTypes(r *rand.Rand, n int, tag string) []reflect.Type {
	made := []reflect.Type{}
	pick := func() reflect.Type {
		var base reflect.Type
		switch k := r.Intn(10); {
		case k < 5 || len(made) == 0:
			base = c17LeafPool[r.Intn(len(c17LeafPool))]
		case k < 8:
			base = made[r.Intn(len(made))]
		default:
			base = c17StaticTypes[r.Intn(8)]
		}
		// no pointers to lists / maps: unmarshalling into them never returns even when run alone
		// (builder.Context.ArtificiallyTerminate loops after the builder's error) — not this property's business
		ptrOK := base.Kind() != reflect.Slice && base.Kind() != reflect.Map && base.Kind() != reflect.Array
		switch k := r.Intn(8); {
		case k == 1 && !ptrOK, k == 4 && !ptrOK:
			return base
		case k == 0:
			return reflect.SliceOf(base)
		case k == 1:
			return reflect.PtrTo(base)
		case k == 2:
			return reflect.MapOf(reflect.TypeOf(""), base)
		case k == 3:
			return reflect.ArrayOf(1+r.Intn(2), base)
		case k == 4:
			return reflect.SliceOf(reflect.PtrTo(base))
		}
		return base
	}
	for i := 0; i < n; i++ {
		nf := 1 + r.Intn(6)
		if r.Intn(6) == 0 {
			nf = 20 + r.Intn(40) // wide types: generation takes long enough for others to meet the placeholder
		}
		fields := []reflect.StructField{}
		for j := 0; j < nf; j++ {
			// the tag makes the type distinct from every type made with another tag
			fields = append(fields, reflect.StructField{Name: fmt.Sprintf("F%c%c", 'a'+j/26, 'a'+j%26), Type: pick(),
				Tag: reflect.StructTag(fmt.Sprintf(`c17:"%s-%d"`, tag, i))})
		}
		made = append(made, reflect.StructOf(fields))
	}
	return made
}

// c17Fill fills rv with a random value. Maps get at most one entry (map iteration order is random in Go and
// would make the encoded document differ between two runs of the same call); floats are never NaN.
func c17Fill(r *rand.Rand, rv reflect.Value, depth int) {
	switch rv.Kind() {
	case reflect.Bool:
		rv.SetBool(r.Intn(2) == 0)
	case reflect.Int, reflect.Int8, reflect.Int16, reflect.Int32, reflect.Int64:
		v := int64(r.Uint64() >> uint(r.Intn(64)))
		if r.Intn(2) == 0 {
			v = -v
		}
		rv.SetInt(v) // truncates to the width
	case reflect.Uint, reflect.Uint8, reflect.Uint16, reflect.Uint32, reflect.Uint64:
		rv.SetUint(r.Uint64() >> uint(r.Intn(64)))
	case reflect.Float32:
		rv.SetFloat(float64(float32(r.Intn(2000)-1000) / 8))
	case reflect.Float64:
		rv.SetFloat(float64(r.Intn(2000000)-1000000) / 64)
	case reflect.String:
		rv.SetString([]string{"", "a", "hello", "tab\there", "üñí", "x y z", "0"}[r.Intn(7)])
	case reflect.Ptr:
		if rv.Type() == reflect.TypeOf((*big.Int)(nil)) {
			b := new(big.Int).Lsh(big.NewInt(int64(r.Intn(1000))+1), uint(r.Intn(100)))
			if r.Intn(2) == 0 {
				b.Neg(b)
			}
			rv.Set(reflect.ValueOf(b))
			return
		}
		if depth <= 0 || r.Intn(4) == 0 {
			return
		}
		p := reflect.New(rv.Type().Elem())
		c17Fill(r, p.Elem(), depth-1)
		rv.Set(p)
	case reflect.Slice:
		if depth <= 0 || r.Intn(5) == 0 {
			return
		}
		n := r.Intn(4)
		s := reflect.MakeSlice(rv.Type(), n, n)
		for i := 0; i < n; i++ {
			c17Fill(r, s.Index(i), depth-1)
		}
		rv.Set(s)
	case reflect.Array:
		for i := 0; i < rv.Len(); i++ {
			c17Fill(r, rv.Index(i), depth-1)
		}
	case reflect.Map:
		if depth <= 0 || r.Intn(3) == 0 {
			return
		}
		m := reflect.MakeMap(rv.Type())
		k := reflect.New(rv.Type().Key()).Elem()
		c17Fill(r, k, depth-1)
		v := reflect.New(rv.Type().Elem()).Elem()
		c17Fill(r, v, depth-1)
		m.SetMapIndex(k, v)
		rv.Set(m)
	case reflect.Struct:
		for i := 0; i < rv.NumField(); i++ {
			if rv.Type().Field(i).PkgPath != "" && !rv.Type().Field(i).Anonymous {
				continue
			}
			if rv.Field(i).CanSet() {
				c17Fill(r, rv.Field(i), depth-1)
			}
		}
	case reflect.Interface:
		if depth <= 0 {
			return
		}
		var v interface{}
		switch r.Intn(7) {
		case 0:
			v = r.Intn(1000)
		case 1:
			v = "dyn"
		case 2:
			v = []interface{}{1, "two", 3.5}
		case 3:
			x := c17Inner{Pa: int16(r.Intn(100)), Pb: "in"}
			v = x
		case 4:
			x := &c17List{Va: r.Intn(9)}
			v = x
		case 5:
			v = map[string]interface{}{"k": r.Intn(5)}
		default:
			return
		}
		rv.Set(reflect.ValueOf(v))
	}
}

// ---------------------------------------------------------------------------
// Workload items and calls

type c17Item struct {
	Skip  bool // some call on this item does not return even when run alone (a sequential defect, reported separately): not used
	Typ   reflect.Type
	Val   interface{} // pointer to a filled value of type Typ
	DocB  []byte      // its CBE document (run alone)
	DocT  []byte      // its CTE document (run alone)
	Evs   []Ev        // an event stream (for the encoder / validator calls)
	EvDoc []byte      // that stream encoded in CBE (run alone)
}

// the calls a goroutine can make on an item
var c17Ops = []string{"marshal-cbe", "marshal-cte", "unmarshal-cbe", "unmarshal-cte", "encode-cbe", "encode-cte", "decode-cbe", "validate"}

// c17Instances is the set of instances one goroutine works with.
type c17Instances struct {
	cfg    *configuration.Configuration
	mB, mT ce.Marshaler
	uB, uT ce.Unmarshaler
	iterS  *iterator.Session // shared or own
	buildS *builder.Session
	fresh  bool // make new instances for every call
}

func c17NewInstances(cfg *configuration.Configuration, fresh bool, iterS *iterator.Session, buildS *builder.Session) *c17Instances {
	in := &c17Instances{cfg: cfg, fresh: fresh, iterS: iterS, buildS: buildS}
	if !fresh {
		in.mB, in.mT = ce.NewCBEMarshaler(cfg), ce.NewCTEMarshaler(cfg)
		in.uB, in.uT = ce.NewCBEUnmarshaler(cfg), ce.NewCTEUnmarshaler(cfg)
	}
	return in
}

type c17Result struct {
	Err   bool
	Bytes []byte      // marshal / encode results
	Obj   interface{} // unmarshal results
	Text  string      // decode / validate results
}

func (a c17Result) same(b c17Result) bool {
	return a.Err == b.Err && bytes.Equal(a.Bytes, b.Bytes) && a.Text == b.Text && reflect.DeepEqual(a.Obj, b.Obj)
}

func (a c17Result) String() string {
	s := fmt.Sprintf("err=%v", a.Err)
	if a.Bytes != nil {
		s += " bytes=" + hex.EncodeToString(a.Bytes)
	}
	if a.Obj != nil {
		s += " obj=" + describe.D(a.Obj)
	}
	if a.Text != "" {
		s += " " + a.Text
	}
	if len(s) > 600 {
		s = s[:600] + "…"
	}
	return s
}

// marshal through a (possibly shared) iterator session: the session hands out an iterator bound to an encoder
func c17IterMarshal(s *iterator.Session, enc ce.Encoder, obj interface{}) (doc []byte, err error) {
	defer func() {
		if r := recover(); r != nil {
			err = fmt.Errorf("%v", r)
		}
	}()
	var buf bytes.Buffer
	enc.PrepareToEncode(&buf)
	s.NewIterator(enc).Iterate(obj)
	return buf.Bytes(), nil
}

// unmarshal through a (possibly shared) builder session
func c17BuildUnmarshal(s *builder.Session, dec ce.Decoder, cfg *configuration.Configuration, doc []byte, template interface{}) (obj interface{}, err error) {
	defer func() {
		if r := recover(); r != nil {
			err = fmt.Errorf("%v", r)
		}
	}()
	b := s.NewBuilderFor(template)
	rules := ce.NewRules(b, cfg)
	err = dec.DecodeDocument(doc, rules)
	return b.GetBuiltObject(), err
}

func c17Call(in *c17Instances, op string, it *c17Item) (res c17Result) {
	defer func() {
		if r := recover(); r != nil {
			res = c17Result{Err: true, Text: "panic"}
		}
	}()
	cfg := in.cfg
	template := reflect.New(it.Typ).Elem().Interface()
	switch op {
	case "marshal-cbe", "marshal-cte":
		var d []byte
		var err error
		switch {
		case in.iterS != nil && op == "marshal-cbe":
			d, err = c17IterMarshal(in.iterS, ce.NewCBEEncoder(cfg), it.Val)
		case in.iterS != nil:
			d, err = c17IterMarshal(in.iterS, ce.NewCTEEncoder(cfg), it.Val)
		case in.fresh && op == "marshal-cbe":
			d, err = ce.MarshalToCBEDocument(it.Val, cfg)
		case in.fresh:
			d, err = ce.MarshalToCTEDocument(it.Val, cfg)
		case op == "marshal-cbe":
			d, err = in.mB.MarshalToDocument(it.Val)
		default:
			d, err = in.mT.MarshalToDocument(it.Val)
		}
		return c17Result{Err: err != nil, Bytes: append([]byte{}, d...)}
	case "unmarshal-cbe", "unmarshal-cte":
		var o interface{}
		var err error
		doc := it.DocB
		if op == "unmarshal-cte" {
			doc = it.DocT
		}
		switch {
		case in.buildS != nil && op == "unmarshal-cbe":
			o, err = c17BuildUnmarshal(in.buildS, ce.NewCBEDecoder(cfg), cfg, doc, template)
		case in.buildS != nil:
			o, err = c17BuildUnmarshal(in.buildS, ce.NewCTEDecoder(cfg), cfg, doc, template)
		case in.fresh && op == "unmarshal-cbe":
			o, err = ce.UnmarshalFromCBEDocument(doc, template, cfg)
		case in.fresh:
			o, err = ce.UnmarshalFromCTEDocument(doc, template, cfg)
		case op == "unmarshal-cbe":
			o, err = in.uB.UnmarshalFromDocument(doc, template)
		default:
			o, err = in.uT.UnmarshalFromDocument(doc, template)
		}
		return c17Result{Err: err != nil, Obj: o}
	case "encode-cbe", "encode-cte":
		var enc ce.Encoder
		if op == "encode-cbe" {
			enc = ce.NewCBEEncoder(cfg)
		} else {
			enc = ce.NewCTEEncoder(cfg)
		}
		var buf bytes.Buffer
		enc.PrepareToEncode(&buf)
		rej, _ := playAll(enc, it.Evs)
		return c17Result{Err: rej >= 0, Bytes: append([]byte{}, buf.Bytes()...)}
	case "decode-cbe":
		rec := &Recorder{}
		err := ce.NewCBEDecoder(cfg).DecodeDocument(it.EvDoc, ce.NewRules(rec, cfg))
		return c17Result{Err: err != nil, Text: evsString(rec.Evs)}
	case "validate":
		rec := &Recorder{}
		rej, _ := playAll(ce.NewRules(rec, cfg), it.Evs)
		return c17Result{Err: rej >= 0, Text: fmt.Sprintf("rej=%d ", rej) + evsString(rec.Evs)}
	}
	panic("bad op " + op)
}

// c17MakeItems builds the work table of one run. Everything in it is made sequentially, on fresh instances.
func c17MakeItems(r *rand.Rand, nDyn, nItems int, tag string) []*c17Item {
	types := append([]reflect.Type{}, c17StaticTypes...)
	types = append(types, c17DynTypes(r, nDyn, tag)...)
	items := []*c17Item{}
	for i := 0; i < nItems; i++ {
		t := types[r.Intn(len(types))]
		if i < len(types) {
			t = types[len(types)-1-i] // every type at least once when there is room, new types first
		}
		p := reflect.New(t)
		c17Fill(r, p.Elem(), 4)
		it := &c17Item{Typ: t, Val: p.Interface()}
		cfg := configuration.New()
		it.DocB, _ = ce.MarshalToCBEDocument(it.Val, cfg)
		it.DocT, _ = ce.MarshalToCTEDocument(it.Val, cfg)
		it.DocB, it.DocT = append([]byte{}, it.DocB...), append([]byte{}, it.DocT...)
		it.Evs = NewEvGen(r, DefaultGenOpts()).Document()
		if r.Intn(8) == 0 {
			it.Evs = NewEvGen(r, DefaultGenOpts()).Mutate(it.Evs) // now and then a stream the validator rejects
		}
		enc := ce.NewCBEEncoder(cfg)
		var buf bytes.Buffer
		enc.PrepareToEncode(&buf)
		func() {
			defer func() { recover() }()
			playAll(enc, it.Evs)
		}()
		it.EvDoc = append([]byte{}, buf.Bytes()...)
		// guard: every call must return when run alone, otherwise the item cannot be used to compare against
		done := make(chan struct{})
		go func() {
			for _, op := range c17Ops {
				c17Call(c17NewInstances(configuration.New(), true, nil, nil), op, it)
			}
			close(done)
		}()
		select {
		case <-done:
			items = append(items, it)
		case <-time.After(10 * time.Second):
			c17AloneHangs = append(c17AloneHangs, t.String())
		}
	}
	return items
}

// types on which a call did not return when run alone (sequential defect outside this property; listed in the report)
var c17AloneHangs []string

type c17Mismatch struct {
	Mode, Op  string
	Goroutine int
	Item      int
	Type      string
	Expect    string
	Got       string
}

type c17WorkloadReport struct {
	Seed       int64
	Goroutines int
	Procs      int
	Mode       string
	Calls      int
	Mismatches []c17Mismatch
	Hung       bool
	OpsCount   map[string]int
}

var c17Modes = []string{"separate", "fresh", "shared", "shared-cold"}

// c17RunWorkload: the concurrent workload.
//
//	separate     every goroutine has its own marshalers / unmarshalers (kept for all its calls), encoders, decoders, validators
//	fresh        every call makes new instances (the package-level convenience functions)
//	shared       one iterator.Session and one builder.Session shared by all goroutines, each call with its own encoder / decoder / validator
//	shared-cold  as shared, and all goroutines start with the same new types at the same moment (first use races on the shared caches)
//
// Every result is compared with the result of the same call on fresh instances, run alone before the goroutines start.
func c17RunWorkload(seed int64, goroutines, procs int, mode string, nItems, callsPer int) c17WorkloadReport {
	rep := c17WorkloadReport{Seed: seed, Goroutines: goroutines, Procs: procs, Mode: mode, OpsCount: map[string]int{}}
	r := rand.New(rand.NewSource(seed))
	items := c17MakeItems(r, 6, nItems, fmt.Sprintf("%d-%s", seed, mode))
	// expected results: run alone
	expect := make([]map[string]c17Result, len(items))
	for i, it := range items {
		expect[i] = map[string]c17Result{}
		for _, op := range c17Ops {
			alone := c17NewInstances(configuration.New(), true, nil, nil)
			if mode == "shared" || mode == "shared-cold" {
				// same entry points as the goroutines use, on sessions nobody else has
				alone = c17NewInstances(alone.cfg, true, iterator.NewSession(nil, alone.cfg), builder.NewSession(nil, alone.cfg))
			}
			expect[i][op] = c17Call(alone, op, it)
		}
	}
	// per-goroutine call lists
	type call struct {
		item int
		op   string
	}
	plans := make([][]call, goroutines)
	for g := range plans {
		for k := 0; k < callsPer; k++ {
			c := call{item: r.Intn(len(items)), op: c17Ops[r.Intn(len(c17Ops))]}
			if mode == "shared-cold" {
				// everybody walks the same items in the same order, marshal then unmarshal
				c.item = k / 2 % len(items)
				c.op = []string{"marshal-cbe", "unmarshal-cte", "marshal-cte", "unmarshal-cbe"}[(k%2)+2*(g%2)]
			}
			plans[g] = append(plans[g], c)
		}
	}
	old := runtime.GOMAXPROCS(procs)
	defer runtime.GOMAXPROCS(old)

	sharedCfg := configuration.New()
	var iterS *iterator.Session
	var buildS *builder.Session
	if mode == "shared" || mode == "shared-cold" {
		iterS, buildS = iterator.NewSession(nil, sharedCfg), builder.NewSession(nil, sharedCfg)
	}
	var mu sync.Mutex
	var wg sync.WaitGroup
	start := make(chan struct{})
	var calls int64
	for g := 0; g < goroutines; g++ {
		wg.Add(1)
		go func(g int) {
			defer wg.Done()
			var in *c17Instances
			switch mode {
			case "separate":
				in = c17NewInstances(configuration.New(), false, nil, nil)
			case "fresh":
				in = c17NewInstances(configuration.New(), true, nil, nil)
			default:
				in = c17NewInstances(sharedCfg, true, iterS, buildS)
			}
			<-start
			for _, c := range plans[g] {
				got := c17Call(in, c.op, items[c.item])
				atomic.AddInt64(&calls, 1)
				if want := expect[c.item][c.op]; !got.same(want) {
					mu.Lock()
					rep.Mismatches = append(rep.Mismatches, c17Mismatch{Mode: mode, Op: c.op, Goroutine: g, Item: c.item,
						Type: items[c.item].Typ.String(), Expect: want.String(), Got: got.String()})
					mu.Unlock()
				}
			}
		}(g)
	}
	close(start)
	done := make(chan struct{})
	go func() { wg.Wait(); close(done) }()
	select {
	case <-done:
	case <-time.After(120 * time.Second):
		rep.Hung = true
	}
	rep.Calls = int(atomic.LoadInt64(&calls))
	for _, p := range plans {
		for _, c := range p {
			rep.OpsCount[c.op]++
		}
	}
	return rep
}

func c17WorkerMain(args []string) int {
	if len(args) < 4 {
		fmt.Fprintln(os.Stderr, "usage: vh c17worker <seed> <goroutines> <gomaxprocs> <mode> [items] [calls-per-goroutine]")
		return 2
	}
	seed, _ := strconv.ParseInt(args[0], 10, 64)
	g, _ := strconv.Atoi(args[1])
	procs, _ := strconv.Atoi(args[2])
	nItems, callsPer := 24, 40
	if len(args) >= 6 {
		nItems, _ = strconv.Atoi(args[4])
		callsPer, _ = strconv.Atoi(args[5])
	}
	var rep c17WorkloadReport
	if args[3] == "selftest-race" {
		// a deliberate data race: the race-detector build must report it (checks that the detector is really on)
		x := 0
		var wg sync.WaitGroup
		for i := 0; i < 2; i++ {
			wg.Add(1)
			go func() {
				defer wg.Done()
				for k := 0; k < 1000; k++ {
					x++
				}
			}()
		}
		wg.Wait()
		fmt.Println("{\"Mode\":\"selftest-race\",\"Calls\":", x, "}")
		return 0
	}
	if args[3] == "caches" {
		rep = c17CacheStorm(seed, g, procs)
	} else {
		rep = c17RunWorkload(seed, g, procs, args[3], nItems, callsPer)
	}
	b, _ := json.Marshal(rep)
	fmt.Println(string(b))
	if rep.Hung {
		return 4
	}
	if len(rep.Mismatches) > 0 {
		return 3
	}
	return 0
}

// c17CacheStorm: all goroutines ask one shared session for the same cold types at the same moment, directly
// through GetIteratorForType / GetBuilderGeneratorForType, then use what they got.
func c17CacheStorm(seed int64, goroutines, procs int) c17WorkloadReport {
	rep := c17WorkloadReport{Seed: seed, Goroutines: goroutines, Procs: procs, Mode: "caches", OpsCount: map[string]int{}}
	old := runtime.GOMAXPROCS(procs)
	defer runtime.GOMAXPROCS(old)
	r := rand.New(rand.NewSource(seed))
	var mu sync.Mutex
	for round := 0; round < 6; round++ {
		types := append(c17DynTypes(r, 5, fmt.Sprintf("storm-%d-%d", seed, round)), c17StaticTypes[:7]...)
		vals := make([]reflect.Value, len(types))
		expect := make([]c17Result, len(types))
		expectB := make([]c17Result, len(types))
		for i, t := range types {
			p := reflect.New(t)
			c17Fill(r, p.Elem(), 3)
			vals[i] = p.Elem()
			expect[i] = c17IterUse(iterator.NewSession(nil, configuration.New()), t, vals[i])
			expectB[i] = c17BuildUse(builder.NewSession(nil, configuration.New()), t, vals[i])
		}
		cfg := configuration.New()
		is, bs := iterator.NewSession(nil, cfg), builder.NewSession(nil, cfg)
		var wg sync.WaitGroup
		start := make(chan struct{})
		for g := 0; g < goroutines; g++ {
			wg.Add(1)
			go func(g int) {
				defer wg.Done()
				<-start
				for k := range types {
					i := (k + g*(round%3)) % len(types)
					kind := ""
					got := c17IterUseK(is, types[i], vals[i], &kind)
					gotB := c17BuildUse(bs, types[i], vals[i])
					mu.Lock()
					rep.Calls += 2
					if kind == "ph" {
						rep.OpsCount["iter-handed-placeholder"]++
					}
					rep.OpsCount["iter-get-use"]++
					rep.OpsCount["build-get-use"]++
					if !got.same(expect[i]) {
						rep.Mismatches = append(rep.Mismatches, c17Mismatch{Mode: "caches", Op: "iter-get-use", Goroutine: g, Item: i, Type: types[i].String(), Expect: expect[i].String(), Got: got.String()})
					}
					if !gotB.same(expectB[i]) {
						rep.Mismatches = append(rep.Mismatches, c17Mismatch{Mode: "caches", Op: "build-get-use", Goroutine: g, Item: i, Type: types[i].String(), Expect: expectB[i].String(), Got: gotB.String()})
					}
					mu.Unlock()
				}
			}(g)
		}
		close(start)
		done := make(chan struct{})
		go func() { wg.Wait(); close(done) }()
		select {
		case <-done:
		case <-time.After(60 * time.Second):
			rep.Hung = true
			return rep
		}
	}
	return rep
}

// GetIteratorForType, then call the function on v with a CBE encoder behind it
func c17IterUse(s *iterator.Session, t reflect.Type, v reflect.Value) (res c17Result) {
	return c17IterUseK(s, t, v, nil)
}

// kind (if not nil) receives what the cache handed out: "ph" or "gen"
func c17IterUseK(s *iterator.Session, t reflect.Type, v reflect.Value, kind *string) (res c17Result) {
	defer func() {
		if r := recover(); r != nil {
			res = c17Result{Err: true, Text: "panic"}
		}
	}()
	cfg := configuration.New()
	f := s.GetIteratorForType(t)
	if kind != nil {
		*kind = c17FnKind(f)
	}
	enc := ce.NewCBEEncoder(cfg)
	var buf bytes.Buffer
	enc.PrepareToEncode(&buf)
	ctx := iterator.Context{GetIteratorForType: s.GetIteratorForType, Configuration: cfg, EventReceiver: enc,
		TryAddLocalReference: func(reflect.Value) bool { return false }}
	enc.OnBeginDocument()
	enc.OnVersion(0)
	f(&ctx, v)
	enc.OnEndDocument()
	return c17Result{Bytes: append([]byte{}, buf.Bytes()...)}
}

// GetBuilderGeneratorForType (through a builder for t), then build from the CBE document of v
func c17BuildUse(s *builder.Session, t reflect.Type, v reflect.Value) (res c17Result) {
	defer func() {
		if r := recover(); r != nil {
			res = c17Result{Err: true, Text: "panic"}
		}
	}()
	cfg := configuration.New()
	var dec ce.Decoder = ce.NewCBEDecoder(cfg)
	doc, err := ce.MarshalToCBEDocument(v.Addr().Interface(), cfg)
	if err != nil {
		// values of unsupported types cannot be marshaled: write the document by hand (CTE)
		doc, dec = []byte("c0 "+c17HandDoc(v)), ce.NewCTEDecoder(cfg)
	}
	o, err := c17BuildUnmarshal(s, dec, cfg, doc, v.Interface())
	return c17Result{Err: err != nil, Obj: o}
}

// c17HandDoc renders the supported part of a value of the harness's "bad" type family as CTE
// (ints, strings, pointers, slices, structs; chan / func / complex fields are left out).
func c17HandDoc(v reflect.Value) string {
	switch v.Kind() {
	case reflect.Int, reflect.Int8, reflect.Int16, reflect.Int32, reflect.Int64:
		return strconv.FormatInt(v.Int(), 10)
	case reflect.String:
		return strconv.Quote(v.String())
	case reflect.Ptr:
		if v.IsNil() {
			return "null"
		}
		return c17HandDoc(v.Elem())
	case reflect.Slice:
		parts := []string{}
		for i := 0; i < v.Len(); i++ {
			parts = append(parts, c17HandDoc(v.Index(i)))
		}
		return "[" + strings.Join(parts, " ") + "]"
	case reflect.Map:
		parts := []string{}
		for _, k := range v.MapKeys() {
			parts = append(parts, c17HandDoc(k)+"="+c17HandDoc(v.MapIndex(k)))
		}
		return "{" + strings.Join(parts, " ") + "}"
	case reflect.Struct:
		parts := []string{}
		for i := 0; i < v.NumField(); i++ {
			f := v.Type().Field(i)
			if _, bad := c17Desc("build", f.Type); bad || f.PkgPath != "" || c17IsEmpty(v.Field(i)) {
				continue
			}
			parts = append(parts, strconv.Quote(strings.ToLower(f.Name))+"="+c17HandDoc(v.Field(i)))
		}
		return "{" + strings.Join(parts, " ") + "}"
	}
	return "null"
}

// ---------------------------------------------------------------------------
// Scenarios on the type caches, mirrored in Coq (CE.Model.Cache)

// what kind of function did the cache hand out: its placeholder closure or a generated function
func c17FnKind(f interface{}) string {
	name := runtime.FuncForPC(reflect.ValueOf(f).Pointer()).Name()
	if strings.Contains(name, "GetIteratorForType.func") || strings.Contains(name, "GetBuilderGeneratorForType.func") {
		return "ph"
	}
	return "gen"
}

// c17Desc mirrors iterator.Session.getDefaultIteratorForType / builder.Session.defaultBuilderGeneratorForType:
// which types does generating the function for t ask the cache for, in which order; bad = the generator panics.
func c17Desc(side string, t reflect.Type) (kids []reflect.Type, bad bool) {
	isKind := func(k reflect.Kind, ks ...reflect.Kind) bool {
		for _, x := range ks {
			if x == k {
				return true
			}
		}
		return false
	}
	switch t.Kind() {
	case reflect.Bool, reflect.String, reflect.Int, reflect.Int8, reflect.Int16, reflect.Int32, reflect.Int64,
		reflect.Uint, reflect.Uint8, reflect.Uint16, reflect.Uint32, reflect.Uint64, reflect.Float32, reflect.Float64, reflect.Interface:
		return nil, false
	case reflect.Array, reflect.Slice:
		ek := t.Elem().Kind()
		if side == "iter" {
			if isKind(ek, reflect.Uint8, reflect.Uint16, reflect.Uint32, reflect.Uint64, reflect.Uint, reflect.Int8, reflect.Int16,
				reflect.Int32, reflect.Int64, reflect.Int, reflect.Float32, reflect.Float64, reflect.Bool) {
				return nil, false
			}
		} else if isKind(ek, reflect.Uint8, reflect.Uint16, reflect.Uint32, reflect.Uint64, reflect.Int8, reflect.Int16,
			reflect.Int32, reflect.Int64, reflect.Float32, reflect.Float64) {
			return nil, false
		}
		return []reflect.Type{t.Elem()}, false
	case reflect.Map:
		return []reflect.Type{t.Key(), t.Elem()}, false
	case reflect.Ptr:
		if t == reflect.TypeOf((*big.Int)(nil)) {
			return nil, false
		}
		return []reflect.Type{t.Elem()}, false
	case reflect.Struct:
		if t == reflect.TypeOf(big.Int{}) || t == reflect.TypeOf(time.Time{}) {
			return nil, false
		}
		if side == "build" {
			kids = append(kids, reflect.TypeOf(""))
		}
		var walk func(st reflect.Type)
		walk = func(st reflect.Type) {
			for i := 0; i < st.NumField(); i++ {
				f := st.Field(i)
				if f.PkgPath != "" {
					continue
				}
				if f.Anonymous {
					walk(f.Type)
				} else {
					kids = append(kids, f.Type)
				}
			}
		}
		walk(t)
		return kids, false
	}
	return nil, true // chan, func, complex, uintptr, unsafe pointer
}

// c17TypeTable numbers the types reachable from the given roots and renders the model's type table.
type c17TypeTable struct {
	side string
	ids  map[reflect.Type]int
	list []reflect.Type
}

func (tt *c17TypeTable) id(t reflect.Type) int {
	if i, ok := tt.ids[t]; ok {
		return i
	}
	i := len(tt.list)
	tt.ids[t] = i
	tt.list = append(tt.list, t)
	kids, _ := c17Desc(tt.side, t)
	for _, k := range kids {
		tt.id(k)
	}
	return i
}

func (tt *c17TypeTable) coq() string {
	rows := []string{}
	for i, t := range tt.list {
		kids, bad := c17Desc(tt.side, t)
		d := "TLeaf"
		if bad {
			d = "TBad"
		} else if len(kids) > 0 {
			ks := []string{}
			for _, k := range kids {
				ks = append(ks, cNi(tt.ids[k]))
			}
			d = "(TNode " + cList(ks) + ")"
		}
		rows = append(rows, cPair(cNi(i), d))
	}
	return cList(rows)
}

func c17IsEmpty(v reflect.Value) bool {
	switch v.Kind() {
	case reflect.Interface, reflect.Ptr:
		return v.IsNil()
	case reflect.Map, reflect.Slice:
		return v.IsNil() || v.Len() == 0
	case reflect.Array, reflect.String:
		return v.Len() == 0
	}
	return false
}

// c17Val: which of the functions obtained at generation time does using the function for v's type on v call
// (SKid i = the i-th of them), which types does it ask the cache for while running (SDyn t: interface values, iterator side only).
func c17Val(tt *c17TypeTable, v reflect.Value) string {
	t := v.Type()
	kids, _ := c17Desc(tt.side, t)
	subs := []string{}
	sub := func(i int, x reflect.Value) {
		subs = append(subs, cPair(fmt.Sprintf("SKid %d%%nat", i), c17Val(tt, x)))
	}
	switch t.Kind() {
	case reflect.Interface:
		if !v.IsNil() && tt.side == "iter" {
			subs = append(subs, cPair(fmt.Sprintf("SDyn %d", tt.id(v.Elem().Type())), c17Val(tt, v.Elem())))
		}
	case reflect.Ptr:
		if len(kids) > 0 && !v.IsNil() {
			if tt.side == "build" && c17WrittenAsNull(v.Elem()) {
				break // the pointer builder answers a null itself
			}
			sub(0, v.Elem())
		}
	case reflect.Slice, reflect.Array:
		if len(kids) > 0 {
			for i := 0; i < v.Len(); i++ {
				sub(0, v.Index(i))
			}
		}
	case reflect.Map:
		for _, k := range v.MapKeys() {
			sub(0, k)
			sub(1, v.MapIndex(k))
		}
	case reflect.Struct:
		if len(kids) > 0 {
			idx := 0
			if tt.side == "build" {
				idx = 1
			}
			var walk func(sv reflect.Value)
			walk = func(sv reflect.Value) {
				for i := 0; i < sv.NumField(); i++ {
					f := sv.Type().Field(i)
					if f.PkgPath != "" {
						continue
					}
					if f.Anonymous {
						walk(sv.Field(i))
						continue
					}
					if !c17IsEmpty(sv.Field(i)) { // default omit behaviour: empty fields are not visited
						if tt.side == "build" {
							sub(0, reflect.ValueOf("")) // the field name goes through the string builder
						}
						sub(idx, sv.Field(i))
					}
					idx++
				}
			}
			walk(v)
		}
	}
	return "(V " + cList(subs) + ")"
}

func c17WrittenAsNull(v reflect.Value) bool {
	switch v.Kind() {
	case reflect.Ptr, reflect.Interface:
		return v.IsNil() || (v.Kind() == reflect.Ptr && c17WrittenAsNull(v.Elem()))
	case reflect.Chan, reflect.Func, reflect.Complex64, reflect.Complex128, reflect.Uintptr, reflect.UnsafePointer:
		return true
	}
	return false
}

// one call of a scenario: ask the shared session for the function of Typ and use it on Val
type c17ScCall struct {
	Typ reflect.Type
	Val reflect.Value
}

type c17Obs struct {
	Class string // ok | panic | hang
	Kind  string // gen | ph | "" (not observed)
	Same  bool   // the result equals the result of the same call on a new session, run alone
}

// ---- running groups of goroutines against one session, with exact detection of calls that can never return

func c17GoID() int64 {
	buf := make([]byte, 64)
	n := runtime.Stack(buf, false)
	var id int64
	fmt.Sscanf(string(buf[:n]), "goroutine %d ", &id)
	return id
}

// c17AllParked: in one snapshot of all goroutines, is every goroutine of ids blocked in sync.WaitGroup.Wait
// called from a cache placeholder closure?  (A goroutine that has been released but has not run yet is
// "runnable", not blocked, and makes the answer false.)
func c17AllParked(ids []int64) bool {
	if len(ids) == 0 {
		return false
	}
	buf := make([]byte, 1<<20)
	for {
		n := runtime.Stack(buf, true)
		if n < len(buf) {
			buf = buf[:n]
			break
		}
		buf = make([]byte, 2*len(buf))
	}
	want := map[int64]bool{}
	for _, id := range ids {
		want[id] = true
	}
	parked := 0
	for _, block := range strings.Split(string(buf), "\n\n") {
		var id int64
		if _, err := fmt.Sscanf(block, "goroutine %d ", &id); err != nil || !want[id] {
			continue
		}
		head := block
		if i := strings.Index(block, "\n"); i > 0 {
			head = block[:i]
		}
		blocked := strings.Contains(head, "[semacquire") || strings.Contains(head, "[sync.WaitGroup.Wait")
		inPh := strings.Contains(block, "sync.(*WaitGroup).Wait") &&
			(strings.Contains(block, "GetIteratorForType.func") || strings.Contains(block, "GetBuilderGeneratorForType.func"))
		if blocked && inPh {
			parked++
		}
	}
	return parked == len(ids)
}

type c17Raw struct {
	returned bool
	kind     string
	res      c17Result
}

// c17RunGroup starts one goroutine per call list on the given sessions and waits until every goroutine has
// either finished its list or is blocked for ever (all unfinished goroutines blocked in a placeholder's Wait
// in the same snapshot: nobody is left who could release them).  timedOut: the hard limit passed first.
func c17RunGroup(side string, is *iterator.Session, bs *builder.Session, threads [][]c17ScCall) (out [][]c17Raw, timedOut bool) {
	out = make([][]c17Raw, len(threads))
	ids := make([]int64, len(threads))
	fin := make([]int32, len(threads))
	var mu sync.Mutex
	var ready sync.WaitGroup
	start := make(chan struct{})
	for i := range threads {
		ready.Add(1)
		go func(i int) {
			ids[i] = c17GoID()
			ready.Done()
			<-start
			for _, call := range threads[i] {
				var r c17Raw
				if side == "iter" {
					r.res = c17IterUseK(is, call.Typ, call.Val, &r.kind)
				} else {
					r.res = c17BuildUse(bs, call.Typ, call.Val)
				}
				r.returned = true
				mu.Lock()
				out[i] = append(out[i], r)
				mu.Unlock()
			}
			atomic.StoreInt32(&fin[i], 1)
		}(i)
	}
	ready.Wait()
	close(start)
	deadline := time.Now().Add(30 * time.Second)
	wait := 200 * time.Microsecond
	for {
		open := []int64{}
		for i := range threads {
			if atomic.LoadInt32(&fin[i]) == 0 {
				open = append(open, ids[i])
			}
		}
		if len(open) == 0 {
			break
		}
		if c17AllParked(open) {
			break
		}
		if time.Now().After(deadline) {
			timedOut = true
			break
		}
		time.Sleep(wait)
		if wait < 5*time.Millisecond {
			wait *= 2
		}
	}
	mu.Lock()
	defer mu.Unlock()
	cp := make([][]c17Raw, len(out))
	for i := range out {
		cp[i] = append([]c17Raw{}, out[i]...)
	}
	return cp, timedOut
}

// the same call on a new session, nothing else running; ok=false if even that does not return
func c17Alone(side string, call c17ScCall) (c17Result, bool) {
	cfg := configuration.New()
	out, _ := c17RunGroup(side, iterator.NewSession(nil, cfg), builder.NewSession(nil, cfg), [][]c17ScCall{{call}})
	if len(out[0]) == 0 {
		return c17Result{}, false
	}
	return out[0][0].res, true
}

// c17Classify turns what a goroutine did into the observations compared with the model.
//
//	panic = returned an error and the type cannot be generated (an unsupported kind is reached): the generator's panic
//	ok    = returned (errors of the call itself, e.g. a document that does not fit, count as results and go into Same)
//	hang  = can never return
func c17Classify(side string, calls []c17ScCall, raws []c17Raw) []c17Obs {
	obs := []c17Obs{}
	for k, call := range calls {
		if k >= len(raws) {
			obs = append(obs, c17Obs{Class: "hang"})
			break
		}
		alone, ok := c17Alone(side, call)
		_, bad := c17ReachesBad(side, call.Typ)
		o := c17Obs{Class: "ok", Kind: raws[k].kind, Same: ok && raws[k].res.same(alone)}
		if raws[k].res.Err && bad {
			// the generator's error (now or replayed by a placeholder): what was written / built before the
			// error is not a result, only "it is an error" is compared
			o.Class = "panic"
			o.Same = ok && alone.Err
		}
		obs = append(obs, o)
	}
	return obs
}

func (o c17Obs) coq() string {
	k := "None"
	switch o.Kind {
	case "gen":
		k = "(Some false)"
	case "ph":
		k = "(Some true)"
	}
	switch o.Class {
	case "ok":
		return cApp("OOk", k, cBool(o.Same))
	case "panic":
		return cApp("OPanic", cBool(o.Same))
	}
	return "OHang"
}

func c17JobsCoq(tt *c17TypeTable, calls []c17ScCall) string {
	js := []string{}
	for _, c := range calls {
		js = append(js, cPair(cNi(tt.id(c.Typ)), c17Val(tt, c.Val)))
	}
	return cList(js)
}

func c17ObsCoq(os []c17Obs) string {
	xs := []string{}
	for _, o := range os {
		xs = append(xs, o.coq())
	}
	return cList(xs)
}

func c17Filled(r *rand.Rand, t reflect.Type, depth int) reflect.Value {
	p := reflect.New(t)
	c17Fill(r, p.Elem(), depth)
	return p.Elem()
}

// a fully populated value (every pointer set down to the depth), so that every function obtained at generation is used
func c17Full(t reflect.Type, depth int) reflect.Value {
	v := reflect.New(t).Elem()
	var fill func(rv reflect.Value, d int)
	fill = func(rv reflect.Value, d int) {
		switch rv.Kind() {
		case reflect.Ptr:
			if rv.Type() == reflect.TypeOf((*big.Int)(nil)) {
				rv.Set(reflect.ValueOf(big.NewInt(5)))
			} else if d > 0 {
				p := reflect.New(rv.Type().Elem())
				fill(p.Elem(), d-1)
				rv.Set(p)
			}
		case reflect.Slice:
			if d > 0 {
				s := reflect.MakeSlice(rv.Type(), 1, 1)
				fill(s.Index(0), d-1)
				rv.Set(s)
			}
		case reflect.Array:
			for i := 0; i < rv.Len(); i++ {
				fill(rv.Index(i), d-1)
			}
		case reflect.Struct:
			for i := 0; i < rv.NumField(); i++ {
				if rv.Field(i).CanSet() {
					fill(rv.Field(i), d-1)
				}
			}
		case reflect.String:
			rv.SetString("s")
		case reflect.Int, reflect.Int8, reflect.Int16, reflect.Int32, reflect.Int64:
			rv.SetInt(1)
		}
	}
	fill(v, depth)
	return v
}

var c17BadTypes = []reflect.Type{
	reflect.TypeOf(c17BadChan{}), reflect.TypeOf(c17BadFunc{}), reflect.TypeOf(c17BadCplx{}), reflect.TypeOf(c17HoldsBad{}),
	reflect.TypeOf(c17HoldsBadSlice{}), reflect.TypeOf([]c17BadChan{}), reflect.TypeOf(map[string]*c17BadFunc{}),
	reflect.TypeOf(make(chan int)), reflect.TypeOf(complex64(0)), reflect.TypeOf(&c17HoldsBad{}),
	reflect.TypeOf(c17RecBad{}), reflect.TypeOf(c17RecBad2{}),
}

// c17SeqScenario: the calls run one after the other on one new session (each waits for the previous one to
// return or to be blocked for ever; a blocked one is left behind).
func c17SeqScenario(c *Ctx, cf *caseFile, side string, calls []c17ScCall, label string) []c17Obs {
	cfg := configuration.New()
	is, bs := iterator.NewSession(nil, cfg), builder.NewSession(nil, cfg)
	obs := []c17Obs{}
	for _, call := range calls {
		raw, timedOut := c17RunGroup(side, is, bs, [][]c17ScCall{{call}})
		if timedOut {
			c.Fail(Replay{Kind: "scenario", Key: "C17/scenario-time-limit", Input: map[string]string{"side": side, "scenario": label, "type": call.Typ.String()},
				Expect: "the call returns or blocks", Got: "still running after 30 s"})
		}
		obs = append(obs, c17Classify(side, []c17ScCall{call}, raw[0])...)
	}
	tt := &c17TypeTable{side: side, ids: map[reflect.Type]int{}}
	jobs := c17JobsCoq(tt, calls)
	names := []string{}
	for i, call := range calls {
		names = append(names, fmt.Sprintf("%s=>%s/%s/same=%v", call.Typ.String(), obs[i].Class, obs[i].Kind, obs[i].Same))
	}
	cf.Add(cApp("SeqCase", tt.coq(), jobs, c17ObsCoq(obs)), fmt.Sprintf("seq %s %s: %s", side, label, strings.Join(names, " ; ")))
	return obs
}

// c17ConcScenario: one goroutine per call list, all started together on one new session.
func c17ConcScenario(c *Ctx, cf *caseFile, side string, threads [][]c17ScCall, procs int, label string) [][]c17Obs {
	old := runtime.GOMAXPROCS(procs)
	cfg := configuration.New()
	raw, timedOut := c17RunGroup(side, iterator.NewSession(nil, cfg), builder.NewSession(nil, cfg), threads)
	runtime.GOMAXPROCS(old)
	if timedOut {
		c.Fail(Replay{Kind: "scenario", Key: "C17/scenario-time-limit", Input: map[string]string{"side": side, "scenario": label},
			Expect: "every goroutine finishes or blocks", Got: "still running after 30 s"})
	}
	obs := make([][]c17Obs, len(threads))
	tt := &c17TypeTable{side: side, ids: map[reflect.Type]int{}}
	ths, oss, names := []string{}, []string{}, []string{}
	for i, th := range threads {
		obs[i] = c17Classify(side, th, raw[i])
		ths = append(ths, c17JobsCoq(tt, th))
		oss = append(oss, c17ObsCoq(obs[i]))
		for k, o := range obs[i] {
			names = append(names, fmt.Sprintf("g%d:%s=>%s/%s/same=%v", i, th[k].Typ.String(), o.Class, o.Kind, o.Same))
		}
	}
	cf.Add(cApp("ConcCase", tt.coq(), cList(ths), cList(oss)), fmt.Sprintf("conc %s %s procs=%d: %s", side, label, procs, strings.Join(names, " ; ")))
	return obs
}

// ---------------------------------------------------------------------------

func c17FailMismatches(c *Ctx, rep c17WorkloadReport, how string) {
	for _, m := range rep.Mismatches {
		c.Fail(Replay{Kind: "workload", Key: fmt.Sprintf("C17/differs-from-alone/%s/%s", rep.Mode, m.Op),
			Input: map[string]string{"seed": fmt.Sprint(rep.Seed), "goroutines": fmt.Sprint(rep.Goroutines), "gomaxprocs": fmt.Sprint(rep.Procs),
				"mode": rep.Mode, "how": how, "type": m.Type, "goroutine": fmt.Sprint(m.Goroutine), "item": fmt.Sprint(m.Item)},
			Expect: m.Expect, Got: m.Got})
	}
	if rep.Hung {
		c.Fail(Replay{Kind: "workload", Key: fmt.Sprintf("C17/never-returns/%s", rep.Mode),
			Input:  map[string]string{"seed": fmt.Sprint(rep.Seed), "goroutines": fmt.Sprint(rep.Goroutines), "gomaxprocs": fmt.Sprint(rep.Procs), "mode": rep.Mode, "how": how},
			Expect: "all goroutines finish", Got: "workload still running after the time limit"})
	}
}

func c17RunRaceBinary(bin string, seed int64, g, procs int, mode string, nItems, callsPer int) (out string, rc int, err error) {
	cmd := exec.Command(bin, "c17worker", fmt.Sprint(seed), fmt.Sprint(g), fmt.Sprint(procs), mode, fmt.Sprint(nItems), fmt.Sprint(callsPer))
	cmd.Env = append(os.Environ(), "GORACE=halt_on_error=0 exitcode=66")
	var buf bytes.Buffer
	cmd.Stdout, cmd.Stderr = &buf, &buf
	if e := cmd.Start(); e != nil {
		return "", -1, e
	}
	done := make(chan error, 1)
	go func() { done <- cmd.Wait() }()
	select {
	case e := <-done:
		rc = 0
		if e != nil {
			rc = -1
			if ee, ok := e.(*exec.ExitError); ok {
				rc = ee.ExitCode()
			}
		}
	case <-time.After(300 * time.Second):
		cmd.Process.Kill()
		rc = 124
	}
	return buf.String(), rc, nil
}

func runC17(c *Ctx) {
	c.Rep.Rule = "workloads: (mode in separate|fresh|shared|shared-cold|caches) x goroutine counts x GOMAXPROCS values; every call of every goroutine is one evaluation, " +
		"compared with the same call run alone on new instances; a call is non-trivial when its item has a struct/container type that the package-level root sessions do not hold " +
		"(so the per-session cache is cold on first use); distinct = distinct (mode, goroutines, gomaxprocs, seed, call). Scenarios: sequences and concurrent groups of " +
		"GetIteratorForType/GetBuilderGeneratorForType + use on one new session, including unsupported element kinds (chan, func, complex) and recursive types; " +
		"each scenario is one Coq case (model must predict ok/error/never-returns and placeholder-or-generated exactly for sequences, and reach the observed outcome under some schedule for concurrent groups)"
	cf := c.Cases("cache", "CE.Model.Cache", "cache_case", "cache_case_ok")

	// ---- 1. in-process workloads (no race detector): every result against the run-alone result
	type combo struct {
		g, procs int
		mode     string
	}
	combos := []combo{}
	for _, mode := range append(append([]string{}, c17Modes...), "caches") {
		for _, gp := range [][2]int{{2, 1}, {4, 2}, {8, 4}, {16, 8}, {32, 16}} {
			combos = append(combos, combo{gp[0], gp[1], mode})
		}
	}
	if !c.Thorough() {
		// quick: one small and one large combination per mode
		keep := []combo{}
		for i, cb := range combos {
			if i%5 == 1 || i%5 == 3 {
				keep = append(keep, cb)
			}
		}
		combos = keep
	}
	nItems, callsPer := c.Pick(16, 32), c.Pick(24, 80)
	for _, cb := range combos {
		seed := c.Rng.Int63n(1 << 40)
		var rep c17WorkloadReport
		if cb.mode == "caches" {
			rep = c17CacheStorm(seed, cb.g, cb.procs)
		} else {
			rep = c17RunWorkload(seed, cb.g, cb.procs, cb.mode, nItems, callsPer)
		}
		for op, n := range rep.OpsCount {
			c.Rep.Distribution["inprocess/"+cb.mode+"/"+op] += n
		}
		for i := 0; i < rep.Calls; i++ {
			c.Count(fmt.Sprintf("%s/%d/%d/%d/%d", cb.mode, cb.g, cb.procs, seed, i), true)
		}
		c.Dist(fmt.Sprintf("inprocess/%s/g=%d/procs=%d", cb.mode, cb.g, cb.procs))
		c.Sample(map[string]string{"where": "in-process", "mode": cb.mode, "goroutines": fmt.Sprint(cb.g), "gomaxprocs": fmt.Sprint(cb.procs),
			"seed": fmt.Sprint(seed), "calls": fmt.Sprint(rep.Calls), "mismatches": fmt.Sprint(len(rep.Mismatches))})
		c17FailMismatches(c, rep, "in-process")
	}

	// ---- 2. the same workloads inside the race-detector build
	raceBin := os.Getenv("VERIF_VH_RACE")
	raceRuns := 0
	c.Rep.Extra["race_binary"] = raceBin
	if raceBin != "" {
		if _, err := os.Stat(raceBin); err != nil {
			c.Rep.Extra["race_binary_error"] = err.Error()
			raceBin = ""
		}
	}
	if raceBin != "" {
		// is the detector really on in that binary?
		out, _, err := c17RunRaceBinary(raceBin, 1, 2, 2, "selftest-race", 0, 0)
		selfOK := err == nil && strings.Contains(out, "WARNING: DATA RACE")
		c.Rep.Extra["race_detector_selftest_reports_seeded_race"] = selfOK
		if !selfOK {
			c.Rep.Extra["race_binary_error"] = "the binary does not report a deliberate data race: not a -race build"
			raceBin = ""
		}
	}
	if raceBin != "" {
		rcombos := []combo{{8, 4, "separate"}, {8, 2, "shared"}, {16, 8, "shared-cold"}, {16, 8, "caches"}}
		if c.Thorough() {
			rcombos = combos
		}
		type raceOut struct {
			seed int64
			out  string
			rc   int
			err  error
		}
		outs := make([]raceOut, len(rcombos))
		for i := range rcombos {
			outs[i].seed = c.Rng.Int63n(1 << 40)
		}
		sem := make(chan struct{}, 4) // at most 4 worker processes at a time
		var wg sync.WaitGroup
		for i, cb := range rcombos {
			wg.Add(1)
			go func(i int, cb combo) {
				defer wg.Done()
				sem <- struct{}{}
				defer func() { <-sem }()
				outs[i].out, outs[i].rc, outs[i].err = c17RunRaceBinary(raceBin, outs[i].seed, cb.g, cb.procs, cb.mode, c.Pick(8, 24), c.Pick(10, 40))
			}(i, cb)
		}
		wg.Wait()
		for i, cb := range rcombos {
			seed, out, rc, err := outs[i].seed, outs[i].out, outs[i].rc, outs[i].err
			if err != nil {
				c.Rep.Extra["race_binary_error"] = err.Error()
				break
			}
			raceRuns++
			c.Dist(fmt.Sprintf("race-build/%s/g=%d/procs=%d", cb.mode, cb.g, cb.procs))
			input := map[string]string{"seed": fmt.Sprint(seed), "goroutines": fmt.Sprint(cb.g), "gomaxprocs": fmt.Sprint(cb.procs), "mode": cb.mode, "how": "race-build",
				"items": fmt.Sprint(c.Pick(8, 24)), "calls": fmt.Sprint(c.Pick(10, 40))}
			nRaces := strings.Count(out, "WARNING: DATA RACE")
			if nRaces > 0 {
				c.Fail(Replay{Kind: "race", Key: "C17/data-race/" + cb.mode + "/" + c17RaceSite(out), Input: input,
					Expect: "no data race report", Got: fmt.Sprintf("%d reports; first: %s", nRaces, c17FirstRace(out))})
			}
			var rep c17WorkloadReport
			parsed := false
			for _, line := range strings.Split(out, "\n") {
				if strings.HasPrefix(line, "{") && json.Unmarshal([]byte(line), &rep) == nil {
					parsed = true
				}
			}
			if parsed {
				for k := 0; k < rep.Calls; k++ {
					c.Count(fmt.Sprintf("race/%s/%d/%d/%d/%d", cb.mode, cb.g, cb.procs, seed, k), true)
				}
				for op, n := range rep.OpsCount {
					c.Rep.Distribution["race-build/"+cb.mode+"/"+op] += n
				}
				c17FailMismatches(c, rep, "race-build")
			}
			if (rc != 0 && rc != 3 && rc != 4 && !(rc == 66 && nRaces > 0)) || !parsed {
				tail := out
				if len(tail) > 800 {
					tail = tail[len(tail)-800:]
				}
				c.Fail(Replay{Kind: "race", Key: "C17/worker-died/" + cb.mode, Input: input, Expect: "exit 0", Got: fmt.Sprintf("exit %d: %s", rc, tail)})
			}
		}
	}
	c.Rep.Extra["race_detector_runs"] = raceRuns
	c.Rep.Extra["race_detector_used"] = raceRuns > 0
	if len(c17AloneHangs) > 0 {
		c.Rep.Extra["calls_that_do_not_return_even_alone_excluded"] = c17AloneHangs
	}

	// ---- 3. scenarios on the caches, mirrored by the Coq model
	c17Scenarios(c, cf)
}

func c17RaceSite(out string) string {
	// first frame below the "Write at" / "Previous write" line of the first report, reduced to function name
	i := strings.Index(out, "WARNING: DATA RACE")
	if i < 0 {
		return "none"
	}
	for _, line := range strings.Split(out[i:], "\n")[1:] {
		line = strings.TrimSpace(line)
		if strings.HasPrefix(line, "github.com/kstenerud/go-concise-encoding/") {
			f := strings.TrimPrefix(line, "github.com/kstenerud/go-concise-encoding/")
			if j := strings.Index(f, "("); j > 0 && !strings.HasPrefix(f[j:], "(*") {
				f = f[:j]
			}
			f = strings.Map(func(r rune) rune {
				if r == '(' || r == ')' || r == '*' {
					return -1
				}
				return r
			}, f)
			return strings.Fields(f)[0]
		}
	}
	return "unknown"
}

func c17FirstRace(out string) string {
	i := strings.Index(out, "WARNING: DATA RACE")
	s := out[i:]
	if j := strings.Index(s, "=================="); j > 0 {
		s = s[:j]
	}
	if len(s) > 1500 {
		s = s[:1500]
	}
	return s
}

func c17Scenarios(c *Ctx, cf *caseFile) {
	r := c.Rng
	good := append([]reflect.Type{}, c17StaticTypes...)
	good = append(good, c17DynTypes(r, c.Pick(12, 40), fmt.Sprintf("sc-%d", c.Seed))...)
	pickCall := func(pool []reflect.Type, full bool) c17ScCall {
		t := pool[r.Intn(len(pool))]
		if full {
			return c17ScCall{Typ: t, Val: c17Full(t, 3)}
		}
		return c17ScCall{Typ: t, Val: c17Filled(r, t, 3)}
	}
	check := func(side, label string, calls []c17ScCall, obs []c17Obs, conc bool) {
		for i, o := range obs {
			_, bad := c17ReachesBad(side, calls[i].Typ)
			c.Count(fmt.Sprintf("sc/%s/%s/%d/%s", side, label, i, calls[i].Typ), true)
			c.Dist(fmt.Sprintf("scenario/%s/%s/%s", side, map[bool]string{false: "seq", true: "conc"}[conc], o.Class))
			if o.Kind != "" {
				c.Dist(fmt.Sprintf("scenario/%s/handed-out=%s", side, o.Kind))
			}
			in := map[string]string{"side": side, "scenario": label, "call": fmt.Sprint(i), "type": calls[i].Typ.String(),
				"after": calls[0].Typ.String(), "empty_value": fmt.Sprint(calls[i].Val.IsZero())}
			what := "marshal"
			if side == "build" {
				what = "unmarshal"
			}
			switch {
			case o.Class == "hang":
				// run alone, the same call returns (an error for unsupported types): never returning differs from it
				k := "C17/never-returns-after-failed-first-use/" + what
				if !bad {
					k = "C17/never-returns/" + what
				}
				c.Fail(Replay{Kind: "scenario", Key: k, Input: in, Expect: "the call returns what it returns when run alone", Got: "the call never returns (placeholder left in the cache by a failed generation; its WaitGroup is never released)"})
			case !o.Same:
				k := "C17/result-changes-after-failed-first-use/" + what
				if !bad {
					k = "C17/differs-from-alone/cache-scenario/" + what
				}
				c.Fail(Replay{Kind: "scenario", Key: k, Input: in, Expect: "same as run alone", Got: o.Class + " (run alone: the other outcome or another result)"})
			}
		}
	}
	for _, side := range []string{"iter", "build"} {
		// (a) sequences over supported types, random and fully populated values, repeats included
		for n := 0; n < c.Pick(60, 400); n++ {
			calls := []c17ScCall{}
			for k := 0; k < 1+r.Intn(4); k++ {
				calls = append(calls, pickCall(good, r.Intn(3) == 0))
				if r.Intn(3) == 0 {
					calls = append(calls, calls[r.Intn(len(calls))])
				}
			}
			label := fmt.Sprintf("good-%d", n)
			check(side, label, calls, c17SeqScenario(c, cf, side, calls, label), false)
		}
		// (b) sequences with unsupported element kinds: first use fails; what do later calls do
		bn := 0
		for _, bt := range c17BadTypes {
			for variant := 0; variant < 3; variant++ {
				var calls []c17ScCall
				switch variant {
				case 0: // the same call twice
					calls = []c17ScCall{{bt, c17Full(bt, 3)}, {bt, c17Full(bt, 3)}}
				case 1: // a supported call in between and a holder of the bad type after
					calls = []c17ScCall{{bt, c17Full(bt, 3)}, pickCall(good, false), {reflect.PtrTo(bt), c17Full(reflect.PtrTo(bt), 3)}, {reflect.SliceOf(bt), reflect.New(reflect.SliceOf(bt)).Elem()}}
				case 2: // holder first (empty value: nothing of the bad type is visited), then the bad type
					calls = []c17ScCall{{reflect.SliceOf(bt), reflect.New(reflect.SliceOf(bt)).Elem()}, {bt, c17Full(bt, 3)}, {reflect.SliceOf(bt), c17Full(reflect.SliceOf(bt), 2)}}
				}
				label := fmt.Sprintf("bad-%d", bn)
				bn++
				check(side, label, calls, c17SeqScenario(c, cf, side, calls, label), false)
			}
		}
		// (b2) pinned: the recursive pair with an unsupported field. After the failed first use of c17RecBad the
		// cache keeps generated functions that captured its placeholder.
		{
			rb, rb2 := reflect.TypeOf(c17RecBad{}), reflect.TypeOf(c17RecBad2{})
			for variant := 0; variant < 3; variant++ {
				var calls []c17ScCall
				switch variant {
				case 0:
					calls = []c17ScCall{{rb, c17Full(rb, 0)}, {rb2, reflect.New(rb2).Elem()}, {rb2, c17Full(rb2, 2)}, {rb, c17Full(rb, 0)}}
				case 1:
					calls = []c17ScCall{{rb2, reflect.New(rb2).Elem()}, {rb2, reflect.New(rb2).Elem()}, {rb, c17Full(rb, 0)}}
				case 2:
					calls = []c17ScCall{{rb, c17Full(rb, 0)}, {reflect.PtrTo(rb2), c17Full(reflect.PtrTo(rb2), 1)}, {reflect.SliceOf(rb), reflect.New(reflect.SliceOf(rb)).Elem()}}
				}
				label := fmt.Sprintf("recbad-%d", variant)
				check(side, label, calls, c17SeqScenario(c, cf, side, calls, label), false)
			}
		}
		// (c) concurrent groups on supported types: 2..3 goroutines, 1..2 calls each, same cold types.
		// The model explores every schedule of these, so the types are kept small (few cache requests).
		small, tiny := []reflect.Type{}, []reflect.Type{}
		for _, t := range good {
			if n := c17GenSize(side, t); n <= 7 {
				small = append(small, t)
				if n <= 2 {
					tiny = append(tiny, t)
				}
			}
		}
		small = append(small, reflect.TypeOf([]c17Inner{}), reflect.TypeOf(c17List{}), reflect.TypeOf(&c17List{}))
		tiny = append(tiny, reflect.TypeOf(c17Inner{}), reflect.TypeOf([]string{}), reflect.TypeOf(0))
		for n := 0; n < c.Pick(40, 300); n++ {
			ng, pool := 2, small
			if r.Intn(4) == 0 {
				ng, pool = 3, tiny
			}
			first := pickCall(pool, true)
			threads := [][]c17ScCall{}
			for g := 0; g < ng; g++ {
				th := []c17ScCall{first}
				if r.Intn(3) == 0 {
					th = []c17ScCall{pickCall(pool, false)}
				}
				if ng == 2 && r.Intn(3) == 0 {
					th = append(th, first)
				}
				threads = append(threads, th)
			}
			label := fmt.Sprintf("conc-%d", n)
			obs := c17ConcScenario(c, cf, side, threads, []int{1, 2, 4, 8}[r.Intn(4)], label)
			for g := range threads {
				check(side, fmt.Sprintf("%s-g%d", label, g), threads[g][:len(obs[g])], obs[g], true)
			}
		}
		// (d) concurrent groups racing on an unsupported type
		for n := 0; n < c.Pick(6, 40); n++ {
			bt := c17BadTypes[r.Intn(5)]
			threads := [][]c17ScCall{{{bt, c17Full(bt, 3)}}, {{bt, c17Full(bt, 3)}}}
			if n%3 == 2 {
				// the other goroutine asks for a holder of the unsupported type with an empty value
				bt = c17BadTypes[r.Intn(3)]
				threads = [][]c17ScCall{{{bt, c17Full(bt, 3)}}, {{reflect.SliceOf(bt), reflect.New(reflect.SliceOf(bt)).Elem()}}}
			}
			label := fmt.Sprintf("conc-bad-%d", n)
			obs := c17ConcScenario(c, cf, side, threads, []int{1, 2, 4}[r.Intn(3)], label)
			for g := range threads {
				check(side, fmt.Sprintf("%s-g%d", label, g), threads[g][:len(obs[g])], obs[g], true)
			}
		}
	}
}

// how many cache requests does the first use of t make on a new session (a type met again while it is being generated counts once)
func c17GenSize(side string, t reflect.Type) int {
	seen := map[reflect.Type]bool{}
	var walk func(t reflect.Type) int
	walk = func(t reflect.Type) int {
		if seen[t] {
			return 1
		}
		seen[t] = true
		kids, _ := c17Desc(side, t)
		n := 1
		for _, k := range kids {
			n += walk(k)
		}
		return n
	}
	return walk(t)
}

// does generating the function for t reach an unsupported type
func c17ReachesBad(side string, t reflect.Type) (reflect.Type, bool) {
	seen := map[reflect.Type]bool{}
	var walk func(t reflect.Type) (reflect.Type, bool)
	walk = func(t reflect.Type) (reflect.Type, bool) {
		if seen[t] {
			return nil, false
		}
		seen[t] = true
		kids, bad := c17Desc(side, t)
		if bad {
			return t, true
		}
		for _, k := range kids {
			if b, ok := walk(k); ok {
				return b, true
			}
		}
		return nil, false
	}
	return walk(t)
}

// ---------------------------------------------------------------------------

func c17TypeByName(name string) (reflect.Type, bool) {
	all := append(append([]reflect.Type{}, c17StaticTypes...), c17BadTypes...)
	for _, t := range all {
		for _, u := range []reflect.Type{t, reflect.PtrTo(t), reflect.SliceOf(t)} {
			if u.String() == name {
				return u, true
			}
		}
	}
	return nil, false
}

func replayC17(r *Replay) (bool, string) {
	atoi := func(k string) int { n, _ := strconv.Atoi(r.Input[k]); return n }
	switch r.Kind {
	case "workload", "race":
		seed, _ := strconv.ParseInt(r.Input["seed"], 10, 64)
		if bin := os.Getenv("VERIF_VH_RACE"); bin != "" && r.Input["how"] == "race-build" {
			items, calls := atoi("items"), atoi("calls")
			if items == 0 {
				items, calls = 10, 12
			}
			out, rc, err := c17RunRaceBinary(bin, seed, atoi("goroutines"), atoi("gomaxprocs"), r.Input["mode"], items, calls)
			if err != nil {
				return false, "cannot run race build: " + err.Error()
			}
			n := strings.Count(out, "WARNING: DATA RACE")
			return rc == 0 && n == 0, fmt.Sprintf("race build exit %d, %d data race reports", rc, n)
		}
		var rep c17WorkloadReport
		if r.Input["mode"] == "caches" {
			rep = c17CacheStorm(seed, atoi("goroutines"), atoi("gomaxprocs"))
		} else {
			rep = c17RunWorkload(seed, atoi("goroutines"), atoi("gomaxprocs"), r.Input["mode"], 16, 24)
		}
		keys := []string{}
		for _, m := range rep.Mismatches {
			keys = append(keys, m.Op+" "+m.Type)
		}
		sort.Strings(keys)
		return len(rep.Mismatches) == 0 && !rep.Hung, fmt.Sprintf("in-process rerun: %d calls, %d results differ from run-alone %v, hung=%v (schedules vary between runs)", rep.Calls, len(rep.Mismatches), keys, rep.Hung)
	case "scenario":
		// the recorded class of failure: a call on a type whose first use failed. Re-run the minimal form: the same call twice on one session.
		t, ok := c17TypeByName(r.Input["type"])
		if !ok {
			return false, "type " + r.Input["type"] + " is not one of the harness's named types; re-run the check with the same seed"
		}
		side := r.Input["side"]
		cfg := configuration.New()
		is, bs := iterator.NewSession(nil, cfg), builder.NewSession(nil, cfg)
		// first the call that opened the recorded scenario (by default the same type), then the recorded call
		first := t
		if a, ok := c17TypeByName(r.Input["after"]); ok {
			first = a
		}
		call1 := c17ScCall{first, c17Full(first, 3)}
		call2 := c17ScCall{t, c17Full(t, 3)}
		if r.Input["empty_value"] == "true" {
			call2.Val = reflect.New(t).Elem()
		}
		r1, _ := c17RunGroup(side, is, bs, [][]c17ScCall{{call1}})
		r2, _ := c17RunGroup(side, is, bs, [][]c17ScCall{{call2}})
		o1, o2 := c17Classify(side, []c17ScCall{call1}, r1[0])[0], c17Classify(side, []c17ScCall{call2}, r2[0])[0]
		okk := o1.Class != "hang" && o2.Class != "hang" && o1.Same && o2.Same
		return okk, fmt.Sprintf("%s session: first %s => %s (same as alone: %v), then %s (empty value: %v) => %s (same as alone: %v)",
			side, first, o1.Class, o1.Same, t, r.Input["empty_value"] == "true", o2.Class, o2.Same)
	}
	return false, "unknown replay kind " + r.Kind
}
