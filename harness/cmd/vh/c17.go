package main

// C17 — Concurrent use of separate instances is race-free and matches sequential use.
//
// Three parts:
//
//  1. the WORKLOADS, each in a worker process of its own (`vh c17worker <seed> <goroutines> <gomaxprocs> <mode> <a> <b>`),
//     once in the plain build and once in a binary built with `go build -race` whose path is given by the environment
//     variable VERIF_VH_RACE.  A runtime `fatal error: concurrent map read and map write` ends only the worker and is
//     reported as a failure (C17/process-crash/...), a race report as C17/data-race/....
//     - c17RunWorkload: goroutines x GOMAXPROCS x modes (separate | fresh | shared | shared-cold | conversions), every
//     result compared with the result of the same call run alone on fresh instances.  The documents to unmarshal
//     carry their keys in every accepted spelling (c17Spell: snake_case, mixed case, separators, unknown keys) and, for
//     the numeric destination types, numbers in every source form (c17NumSource), so that the lazily filled
//     structures and the package-level builder singletons are exercised by many goroutines at once.
//     - c17CacheStorm: all goroutines ask one session for the same cold types at the same moment, among them never-seen
//     types whose generation fails late (an unsupported field behind 20..200 new nested struct types, c17DeepBad):
//     every call must end with an error of the library as it does alone (a runtime error is a failure of its own key).
//     - c17LazyStorm: separate instances only (own configuration, validators, decoders, unmarshalers per goroutine) on
//     documents that make package-level state of the library be initialised while others use it: integer map / record
//     type keys of widths the process has not met (4 ... hundreds of words), every array type, records, and CTE text with
//     verbatim sequences whose sentinels differ between the goroutines; run-alone results are computed afterwards, every
//     call has a time limit.
//     - c17SessionStorm: every shareable session topology (one shared session, children made after / while the
//     parent is used, parent-child-grandchild chains) with a barrier per step, new key spellings in every step,
//     record types in every other round.
//  2. the SCENARIOS on the type caches (iterator.Session.GetIteratorForType /
//     builder.Session.GetBuilderGeneratorForType), in a process of their own too (`vh c17scenarios`): sequences and
//     small concurrent groups of calls on one shared session, observed as (ok | error | never returns) plus whether the
//     cache handed out its placeholder closure or the generated function.  The same scenarios are evaluated by the Coq
//     model (CE.Model.Cache): sequential scenarios must agree exactly, concurrent ones must be among the
//     outcomes the model reaches under some schedule.
//  3. the oracle: every difference from the run-alone result, every data race report, every call that
//     never returns although it returns when run alone, every worker process that dies is a failure.

import (
	"bytes"
	"encoding/hex"
	"encoding/json"
	"fmt"
	"io/ioutil"
	"math"
	"math/big"
	"math/rand"
	"os"
	"os/exec"
	"path/filepath"
	"reflect"
	"runtime"
	"sort"
	"strconv"
	"strings"
	"sync"
	"sync/atomic"
	"syscall"
	"time"

	"github.com/cockroachdb/apd/v2"
	compact_float "github.com/kstenerud/go-compact-float"
	"github.com/kstenerud/go-concise-encoding/builder"
	"github.com/kstenerud/go-concise-encoding/ce"
	"github.com/kstenerud/go-concise-encoding/ce/events"
	"github.com/kstenerud/go-concise-encoding/configuration"
	"github.com/kstenerud/go-concise-encoding/iterator"
)

func init() {
	register("C17", runC17, replayC17)
	// hidden sub-command: the concurrent workload as a process of its own (so that it can be a -race build)
	if len(os.Args) >= 2 && os.Args[1] == "c17worker" {
		os.Exit(c17WorkerMain(os.Args[2:]))
	}
	// hidden sub-command: the cache scenarios (part 3 of the check) as a process of their own
	if len(os.Args) >= 2 && os.Args[1] == "c17scenarios" {
		os.Exit(c17ScenariosMain(os.Args[2:]))
	}
}

// ---------------------------------------------------------------------------
// Types used by the workloads

type c17Scalars struct {
	Bo  bool
	In  int
	I8  int8
	I64 int64
	U16 uint16
	U64 uint64
	F32 float32
	F64 float64
	St  string
	By  []byte
	Bi  *big.Int
}

type c17List struct {
	Va   int
	Next *c17List
}

type c17Tree struct {
	Name string
	Kids []c17Tree
	Mp   map[string]*c17Tree
}

type c17A struct {
	Xx int
	Bb *c17B
}

type c17B struct {
	Yy string
	Aa *c17A
	As []c17A
}

type c17Inner struct {
	Pa int16
	Pb string
}

type c17Wide struct {
	c17Hidden int
	Sa        []int16
	Sb        []string
	Sc        []float64
	Ma        map[int]string
	Mb        map[string][]int
	Aa        [3]uint8
	Ab        [2]string
	Ac        [2]c17Inner
	Pa        *float32
	Pb        **int
	Pc        []*string
	An        interface{}
	In        c17Inner
	Ip        *c17Inner
	Sl        []c17Inner
	Li        *c17List
}

type c17Embed struct {
	C17Emb
	Zz int
}

type C17Emb struct {
	Ea string
	Eb []uint32
}

// Multi-word field names: the marshalers write them in snake_case (first_field_of_the_struct), which is neither
// the Go name nor its normalised form (lower case, no underscores): the struct builder has to match them
// case-insensitively. Documents for these types are also re-spelled (c17Spell) in every other accepted way.
type c17NamedInner struct {
	InnerCount     int
	InnerLabelText string
	HTTPStatusCode uint16
}

type c17Named struct {
	FirstFieldOfTheStruct int
	SecondFieldName       string
	URLValueList          []int32
	X2ScaleFactor         float64
	NestedInnerValue      c17NamedInner
	NestedInnerPointer    *c17NamedInner
	ListOfInnerValues     []c17NamedInner
	MapOfInnerValues      map[string]c17NamedInner
	TaggedFieldValue      bool `ce:"name=custom_tag_name"`
	BigIntegerValue       *big.Int
	AnyKindOfValue        interface{}
}

// destinations of every numeric kind: their documents are written from event streams in which every field gets
// its value from any numeric source form (c17ConvEvents), so that every conversion method of the package-level
// builder singletons (globalIntBuilder, globalBigIntBuilder, globalPBigIntBuilder ...) runs in many goroutines at once
type c17Numeric struct {
	SmallSignedInt    int8
	WideSignedInt     int64
	PlainSignedInt    int
	SmallUnsignedInt  uint8
	WideUnsignedInt   uint64
	SingleFloatValue  float32
	DoubleFloatValue  float64
	BigIntValue       big.Int
	BigIntPointer     *big.Int
	BigFloatValue     big.Float
	BigFloatPointer   *big.Float
	DecimalFloatValue compact_float.DFloat
	BigDecimalValue   apd.Decimal
	BigDecimalPointer *apd.Decimal
	AnyNumericValue   interface{}
	SomeTextValue     string
}

type c17NumericLists struct {
	ListOfInt8     []int8
	ListOfInt16    []int16
	ListOfInt32    []int32
	ListOfInt64    []int64
	ListOfUint8    []uint8
	ListOfUint16   []uint16
	ListOfUint32   []uint32
	ListOfUint64   []uint64
	ListOfFloat32  []float32
	ListOfFloat64  []float64
	ListOfBigInts  []*big.Int
	ListOfAnything []interface{}
	ArrayOfInt16   [3]int16
	ArrayOfFloat32 [2]float32
}

var c17ConvTypes = []reflect.Type{reflect.TypeOf(c17Numeric{}), reflect.TypeOf(c17NumericLists{})}

// unsupported element kinds: the default iterator / builder generator panics on them
type c17BadChan struct {
	Aa int
	Ch chan int
}
type c17BadFunc struct {
	Fn func()
}
type c17BadCplx struct {
	Aa string
	Cx complex128
}
type c17HoldsBad struct {
	Xx int
	Pb *c17BadChan
}
type c17HoldsBadSlice struct {
	Sl []c17BadCplx
	Yy int
}

// mutually recursive types with an unsupported field: generating c17RecBad completes the functions for
// *c17RecBad2, c17RecBad2 and *c17RecBad (which captured c17RecBad's placeholder) before it fails
type c17RecBad struct {
	Aa *c17RecBad2
	Ch chan int
}
type c17RecBad2 struct {
	Bb *c17RecBad
}

var c17StaticTypes = []reflect.Type{
	reflect.TypeOf(c17Scalars{}), reflect.TypeOf(c17List{}), reflect.TypeOf(c17Tree{}), reflect.TypeOf(c17A{}),
	reflect.TypeOf(c17B{}), reflect.TypeOf(c17Wide{}), reflect.TypeOf(c17Embed{}), reflect.TypeOf(c17Inner{}),
	reflect.TypeOf([]c17Inner{}), reflect.TypeOf(map[string]c17Inner{}), reflect.TypeOf([2][]c17List{}),
	reflect.TypeOf([]interface{}{}), reflect.TypeOf(map[string]interface{}{}), reflect.TypeOf([]*c17A{}),
	reflect.TypeOf(c17Named{}), reflect.TypeOf(c17NamedInner{}),
}

// words for the field names of the types made at run time
var c17NameWords = []string{"Retry", "Count", "HTTP", "Server", "ID", "Value", "Max", "Name", "URL", "Item", "Total", "X2", "Size", "Of", "The"}

var c17LeafPool = []reflect.Type{
	reflect.TypeOf(false), reflect.TypeOf(int(0)), reflect.TypeOf(int8(0)), reflect.TypeOf(int32(0)), reflect.TypeOf(uint16(0)),
	reflect.TypeOf(uint64(0)), reflect.TypeOf(float32(0)), reflect.TypeOf(float64(0)), reflect.TypeOf(""), reflect.TypeOf([]byte{}),
	reflect.TypeOf([]int32{}), reflect.TypeOf([]string{}), reflect.TypeOf((*big.Int)(nil)), reflect.TypeOf([4]uint8{}),
}

// c17DynTypes makes struct types that exist only in this run (reflect.StructOf), so that no session has seen them.
func c17DynTypes(r *rand.Rand, n int, tag string) []reflect.Type {
	made := []reflect.Type{}
	pick := func() reflect.Type {
		var base reflect.Type
		switch k := r.Intn(10); {
		case k < 5 || len(made) == 0:
			base = c17LeafPool[r.Intn(len(c17LeafPool))]
		case k < 8:
			base = made[r.Intn(len(made))]
		default:
			base = c17StaticTypes[r.Intn(8)]
		}
		// no pointers to lists / maps: unmarshalling into them never returns even when run alone
		// (builder.Context.ArtificiallyTerminate loops after the builder's error) — not this property's business
		ptrOK := base.Kind() != reflect.Slice && base.Kind() != reflect.Map && base.Kind() != reflect.Array
		switch k := r.Intn(8); {
		case k == 1 && !ptrOK, k == 4 && !ptrOK:
			return base
		case k == 0:
			return reflect.SliceOf(base)
		case k == 1:
			return reflect.PtrTo(base)
		case k == 2:
			return reflect.MapOf(reflect.TypeOf(""), base)
		case k == 3:
			return reflect.ArrayOf(1+r.Intn(2), base)
		case k == 4:
			return reflect.SliceOf(reflect.PtrTo(base))
		}
		return base
	}
	for i := 0; i < n; i++ {
		nf := 1 + r.Intn(6)
		if r.Intn(6) == 0 {
			nf = 20 + r.Intn(40) // wide types: generation takes long enough for others to meet the placeholder
		}
		fields := []reflect.StructField{}
		for j := 0; j < nf; j++ {
			// the tag makes the type distinct from every type made with another tag; the names have several words
			// (FabRetryCount -> key "fab_retry_count"), now and then the key is given by a ce name tag
			name := fmt.Sprintf("F%c%c", 'a'+j/26, 'a'+j%26)
			for w := r.Intn(4); w > 0; w-- {
				name += c17NameWords[r.Intn(len(c17NameWords))]
			}
			ceTag := ""
			if r.Intn(6) == 0 {
				ceTag = fmt.Sprintf(` ce:"name=tagged_%c%c_key_name"`, 'a'+j/26, 'a'+j%26)
			}
			fields = append(fields, reflect.StructField{Name: name, Type: pick(),
				Tag: reflect.StructTag(fmt.Sprintf(`c17:"%s-%d"%s`, tag, i, ceTag))})
		}
		made = append(made, reflect.StructOf(fields))
	}
	return made
}

// c17Fill fills rv with a random value. Maps get at most one entry (map iteration order is random in Go and
// would make the encoded document differ between two runs of the same call); floats are never NaN.
func c17Fill(r *rand.Rand, rv reflect.Value, depth int) {
	switch rv.Type() {
	case reflect.TypeOf(big.Int{}):
		rv.Set(reflect.ValueOf(big.NewInt(r.Int63n(2000) - 1000)).Elem())
		return
	case reflect.TypeOf(big.Float{}):
		rv.Set(reflect.ValueOf(big.NewFloat(float64(r.Intn(2000)-1000) / 4)).Elem())
		return
	case reflect.TypeOf(apd.Decimal{}):
		rv.Set(reflect.ValueOf(apd.New(int64(r.Intn(2000)-1000), int32(r.Intn(5)-2))).Elem())
		return
	case reflect.TypeOf(compact_float.DFloat{}):
		rv.Set(reflect.ValueOf(compact_float.DFloat{Coefficient: int64(r.Intn(2000) - 1000), Exponent: int32(r.Intn(7) - 3)}))
		return
	}
	switch rv.Kind() {
	case reflect.Bool:
		rv.SetBool(r.Intn(2) == 0)
	case reflect.Int, reflect.Int8, reflect.Int16, reflect.Int32, reflect.Int64:
		v := int64(r.Uint64() >> uint(r.Intn(64)))
		if r.Intn(2) == 0 {
			v = -v
		}
		rv.SetInt(v) // truncates to the width
	case reflect.Uint, reflect.Uint8, reflect.Uint16, reflect.Uint32, reflect.Uint64:
		rv.SetUint(r.Uint64() >> uint(r.Intn(64)))
	case reflect.Float32:
		rv.SetFloat(float64(float32(r.Intn(2000)-1000) / 8))
	case reflect.Float64:
		rv.SetFloat(float64(r.Intn(2000000)-1000000) / 64)
	case reflect.String:
		rv.SetString([]string{"", "a", "hello", "tab\there", "üñí", "x y z", "0"}[r.Intn(7)])
	case reflect.Ptr:
		if rv.Type() == reflect.TypeOf((*big.Int)(nil)) {
			b := new(big.Int).Lsh(big.NewInt(int64(r.Intn(1000))+1), uint(r.Intn(100)))
			if r.Intn(2) == 0 {
				b.Neg(b)
			}
			rv.Set(reflect.ValueOf(b))
			return
		}
		if depth <= 0 || r.Intn(4) == 0 {
			return
		}
		p := reflect.New(rv.Type().Elem())
		c17Fill(r, p.Elem(), depth-1)
		rv.Set(p)
	case reflect.Slice:
		if depth <= 0 || r.Intn(5) == 0 {
			return
		}
		n := r.Intn(4)
		s := reflect.MakeSlice(rv.Type(), n, n)
		for i := 0; i < n; i++ {
			c17Fill(r, s.Index(i), depth-1)
		}
		rv.Set(s)
	case reflect.Array:
		for i := 0; i < rv.Len(); i++ {
			c17Fill(r, rv.Index(i), depth-1)
		}
	case reflect.Map:
		if depth <= 0 || r.Intn(3) == 0 {
			return
		}
		m := reflect.MakeMap(rv.Type())
		k := reflect.New(rv.Type().Key()).Elem()
		c17Fill(r, k, depth-1)
		v := reflect.New(rv.Type().Elem()).Elem()
		c17Fill(r, v, depth-1)
		m.SetMapIndex(k, v)
		rv.Set(m)
	case reflect.Struct:
		for i := 0; i < rv.NumField(); i++ {
			if rv.Type().Field(i).PkgPath != "" && !rv.Type().Field(i).Anonymous {
				continue
			}
			if rv.Field(i).CanSet() {
				c17Fill(r, rv.Field(i), depth-1)
			}
		}
	case reflect.Interface:
		if depth <= 0 {
			return
		}
		var v interface{}
		switch r.Intn(7) {
		case 0:
			v = r.Intn(1000)
		case 1:
			v = "dyn"
		case 2:
			v = []interface{}{1, "two", 3.5}
		case 3:
			x := c17Inner{Pa: int16(r.Intn(100)), Pb: "in"}
			v = x
		case 4:
			x := &c17List{Va: r.Intn(9)}
			v = x
		case 5:
			v = map[string]interface{}{"k": r.Intn(5)}
		default:
			return
		}
		rv.Set(reflect.ValueOf(v))
	}
}

// ---------------------------------------------------------------------------
// Key spellings
//
// The struct builder accepts a key when its normalised form (lower case, '_' and ' ' removed) is the normalised
// form of a field's name (Go name or ce name tag).  c17Spell writes a key in one of the accepted ways.

const c17SpellStyles = 10

func c17Normalise(key string) string {
	return strings.Map(func(c rune) rune {
		if c == '_' || c == ' ' {
			return -1
		}
		return c
	}, strings.ToLower(key))
}

func c17Spell(r *rand.Rand, key string, style int) string {
	words := strings.FieldsFunc(key, func(c rune) bool { return c == '_' || c == ' ' })
	if len(words) == 0 {
		return key
	}
	title := func(w string) string { return strings.ToUpper(w[:1]) + strings.ToLower(w[1:]) }
	titled := make([]string, len(words))
	for i, w := range words {
		titled[i] = title(w)
	}
	randomCase := func(s string) string {
		return strings.Map(func(c rune) rune {
			if r.Intn(2) == 0 {
				return []rune(strings.ToUpper(string(c)))[0]
			}
			return []rune(strings.ToLower(string(c)))[0]
		}, s)
	}
	switch style {
	case 1: // the normalised form itself
		return strings.ToLower(strings.Join(words, ""))
	case 2: // snake_case (what the marshalers write by default)
		return strings.ToLower(strings.Join(words, "_"))
	case 3: // SCREAMING_SNAKE_CASE
		return strings.ToUpper(strings.Join(words, "_"))
	case 4: // camelCase
		return strings.ToLower(words[0]) + strings.Join(titled[1:], "")
	case 5: // PascalCase (the Go name, but for acronyms)
		return strings.Join(titled, "")
	case 6: // separate words
		return strings.Join(titled, " ")
	case 7: // any mixture of cases
		return randomCase(strings.Join(words, ""))
	case 8: // any mixture of cases with separators anywhere
		sb := strings.Builder{}
		for _, c := range randomCase(strings.Join(words, "")) {
			if r.Intn(4) == 0 {
				sb.WriteByte("_ "[r.Intn(2)])
			}
			sb.WriteRune(c)
		}
		if r.Intn(3) == 0 {
			sb.WriteByte('_')
		}
		return sb.String()
	case 9: // UPPER CASE
		return strings.ToUpper(strings.Join(words, ""))
	}
	return key // style 0: as it was written
}

// c17KeySet: the normalised names of all fields of all struct types reachable from the given types
func c17KeySet(types ...reflect.Type) map[string]bool {
	keys := map[string]bool{}
	seen := map[reflect.Type]bool{}
	var walk func(t reflect.Type)
	walk = func(t reflect.Type) {
		if seen[t] {
			return
		}
		seen[t] = true
		switch t.Kind() {
		case reflect.Ptr, reflect.Slice, reflect.Array:
			walk(t.Elem())
		case reflect.Map:
			walk(t.Key())
			walk(t.Elem())
		case reflect.Struct:
			for i := 0; i < t.NumField(); i++ {
				f := t.Field(i)
				if f.PkgPath != "" && !f.Anonymous {
					continue
				}
				name := f.Name
				for _, entry := range strings.Split(f.Tag.Get("ce"), ",") {
					if kv := strings.Split(entry, "="); len(kv) == 2 && strings.TrimSpace(kv[0]) == "name" {
						name = strings.TrimSpace(kv[1])
					}
				}
				if !f.Anonymous {
					keys[c17Normalise(name)] = true
				}
				walk(f.Type)
			}
		}
	}
	for _, t := range types {
		walk(t)
	}
	return keys
}

// c17Respell rewrites every string of the stream whose normalised form is a field name (keys: c17KeySet) in the
// given style (style < 0: another style for every key).  unknown: a key that belongs to no field is added, with
// a value, at the start of the top-level map (the builder ignores it).  Strings that only look like a key (map
// keys, values) are rewritten too: the expected result is always computed from the same rewritten document.
func c17Respell(r *rand.Rand, evs []Ev, keys map[string]bool, style int, unknown bool) []Ev {
	out := make([]Ev, 0, len(evs)+4)
	depth := 0
	for _, e := range evs {
		if (e.K == "sa" || e.K == "a") && e.A == events.ArrayTypeString && keys[c17Normalise(string(e.Data))] {
			st := style
			if st < 0 {
				st = r.Intn(c17SpellStyles)
			}
			sp := c17Spell(r, string(e.Data), st)
			e.Data = []byte(sp)
			if e.K == "a" {
				e.N = uint64(len(sp))
			}
		}
		out = append(out, e)
		switch e.K {
		case "m":
			if depth == 0 && unknown {
				unknown = false
				out = append(out, Ev{K: "sa", A: events.ArrayTypeString, Data: []byte(fmt.Sprintf("no_such_field_%d", r.Intn(1000)))})
				if r.Intn(2) == 0 {
					out = append(out, Ev{K: "l"}, Ev{K: "pi", N: 1}, Ev{K: "m"}, Ev{K: "e"}, Ev{K: "e"})
				} else {
					out = append(out, Ev{K: "pi", N: uint64(r.Intn(100))})
				}
			}
			depth++
		case "l", "rec", "rt", "edge", "node":
			depth++
		case "e":
			depth--
		}
	}
	return out
}

// the events the iterator sends for obj (nil if it fails)
func c17IterEvents(cfg *configuration.Configuration, obj interface{}) (evs []Ev) {
	defer func() {
		if r := recover(); r != nil {
			evs = nil
		}
	}()
	rec := &Recorder{}
	iterator.NewSession(nil, cfg).NewIterator(rec).Iterate(obj)
	return rec.Evs
}

// c17EncodeBoth: the stream as a CBE and as a CTE document (nil where the encoder rejects it)
func c17EncodeBoth(cfg *configuration.Configuration, evs []Ev) (docB, docT []byte) {
	enc := func(e ce.Encoder) (doc []byte) {
		defer func() {
			if r := recover(); r != nil {
				doc = nil
			}
		}()
		var buf bytes.Buffer
		e.PrepareToEncode(&buf)
		if rej, _ := playAll(e, evs); rej >= 0 {
			return nil
		}
		return append([]byte{}, buf.Bytes()...)
	}
	return enc(ce.NewCBEEncoder(cfg)), enc(ce.NewCTEEncoder(cfg))
}

// ---------------------------------------------------------------------------
// Numeric source forms: one event (or a short run of events) carrying a number in every form a document can have

func c17NumSource(r *rand.Rand) []Ev {
	k := uint64(r.Intn(1000) + 1)
	bigOf := func(s string) *big.Int { b, _ := new(big.Int).SetString(s, 10); return b }
	switch r.Intn(26) {
	case 0, 1:
		return []Ev{{K: "pi", N: k}}
	case 2:
		return []Ev{{K: "pi", N: 1<<63 + k}}
	case 3, 4:
		return []Ev{{K: "ni", N: k}}
	case 5:
		return []Ev{{K: "ni", N: 1<<63 + k}}
	case 6, 7: // beyond 64 bits
		b := new(big.Int).Lsh(big.NewInt(int64(k)), uint(64+r.Intn(40)))
		if r.Intn(2) == 0 {
			b.Neg(b)
		}
		return []Ev{{K: "bi", Big: b}}
	case 8:
		return []Ev{{K: "bi", Big: big.NewInt(int64(k))}}
	case 9, 10, 11: // binary floats with integer values beyond 53 bits (0x1.8p+70 ...)
		f := float64(2*k+1) * float64(uint64(1)<<uint(40+r.Intn(23))) * float64(uint64(1)<<uint(r.Intn(30)))
		if r.Intn(2) == 0 {
			f = -f
		}
		return []Ev{{K: "fl", F: f}}
	case 12:
		return []Ev{{K: "fl", F: float64(k)}}
	case 13:
		return []Ev{{K: "fl", F: float64(k) / 8}}
	case 14, 15: // decimal floats with integer values
		return []Ev{{K: "df", DF: compact_float.DFloat{Coefficient: int64(k), Exponent: int32(r.Intn(25))}}}
	case 16:
		return []Ev{{K: "df", DF: compact_float.DFloat{Coefficient: -int64(k), Exponent: -int32(1 + r.Intn(3))}}}
	case 17, 18: // big decimal floats
		d := apd.NewWithBigInt(bigOf(fmt.Sprintf("%d123456789012345678901234567", k)), int32(r.Intn(12)))
		d.Negative = r.Intn(2) == 0
		return []Ev{{K: "bdf", BDF: d}}
	case 19:
		return []Ev{{K: "bdf", BDF: apd.New(int64(k), -2)}}
	case 20, 21: // big floats
		bf := new(big.Float).SetPrec(128).SetInt(new(big.Int).Add(new(big.Int).Lsh(big.NewInt(int64(k)), uint(70+r.Intn(30))), big.NewInt(1)))
		if r.Intn(2) == 0 {
			bf.Neg(bf)
		}
		return []Ev{{K: "bf", BF: bf}}
	case 22:
		bf, _, _ := big.ParseFloat(fmt.Sprintf("%d.5", k), 10, 100, big.ToNearestEven)
		return []Ev{{K: "bf", BF: bf}}
	case 23:
		return []Ev{{K: "nan", B: r.Intn(2) == 0}}
	case 24:
		return []Ev{{K: "null"}}
	}
	return []Ev{{K: "sa", A: events.ArrayTypeString, Data: []byte(fmt.Sprint(k))}}
}

// a list value for a slice / array destination: a typed array of any element type or a list of numbers
func c17ListSource(r *rand.Rand, want reflect.Type) []Ev {
	n := 1 + r.Intn(3)
	if want.Kind() == reflect.Array {
		n = want.Len()
	}
	typed := func(at events.ArrayType, width int) []Ev {
		data := make([]byte, n*width)
		for i := 0; i < n; i++ {
			v := uint64(r.Intn(100))
			switch at {
			case events.ArrayTypeFloat32:
				v = uint64(math.Float32bits(float32(v) / 4))
			case events.ArrayTypeFloat64:
				v = math.Float64bits(float64(v) / 4)
			}
			for b := 0; b < width; b++ {
				data[i*width+b] = byte(v >> (8 * uint(b)))
			}
		}
		return []Ev{{K: "a", A: at, N: uint64(n), Data: data}}
	}
	own := map[reflect.Kind][2]int{reflect.Int8: {int(events.ArrayTypeInt8), 1}, reflect.Int16: {int(events.ArrayTypeInt16), 2},
		reflect.Int32: {int(events.ArrayTypeInt32), 4}, reflect.Int64: {int(events.ArrayTypeInt64), 8}, reflect.Uint8: {int(events.ArrayTypeUint8), 1},
		reflect.Uint16: {int(events.ArrayTypeUint16), 2}, reflect.Uint32: {int(events.ArrayTypeUint32), 4}, reflect.Uint64: {int(events.ArrayTypeUint64), 8},
		reflect.Float32: {int(events.ArrayTypeFloat32), 4}, reflect.Float64: {int(events.ArrayTypeFloat64), 8}}
	if o, ok := own[want.Elem().Kind()]; ok && r.Intn(3) == 0 {
		return typed(events.ArrayType(o[0]), o[1])
	}
	if r.Intn(8) == 0 { // an array of another element type
		all := [][2]int{}
		for _, o := range own {
			all = append(all, o)
		}
		sort.Slice(all, func(i, j int) bool { return all[i][0] < all[j][0] })
		o := all[r.Intn(len(all))]
		return typed(events.ArrayType(o[0]), o[1])
	}
	evs := []Ev{{K: "l"}}
	for i := 0; i < n; i++ {
		if r.Intn(3) == 0 {
			evs = append(evs, c17NumSource(r)...)
		} else {
			evs = append(evs, Ev{K: "pi", N: uint64(r.Intn(100))})
		}
	}
	return append(evs, Ev{K: "e"})
}

// c17ConvEvents: a document for a value of struct type t (one of c17ConvTypes) in which every field gets a number
// in a randomly chosen source form; the keys are spelled in the given style.  Unless wild, a source form that the
// field's builder rejects (tried alone, on a document with that field only) is replaced by another one, so that
// most documents are built to the end.
func c17ConvEvents(r *rand.Rand, t reflect.Type, style int, wild bool) []Ev {
	evs := []Ev{{K: "bd"}, {K: "v", N: 0}, {K: "m"}}
	for i := 0; i < t.NumField(); i++ {
		f := t.Field(i)
		if r.Intn(5) == 0 {
			continue
		}
		st := style
		if st < 0 {
			st = r.Intn(c17SpellStyles)
		}
		// the key as the marshalers would write it, then re-spelled
		key := Ev{K: "sa", A: events.ArrayTypeString, Data: []byte(c17Spell(r, strings.ToLower(c17SplitWords(f.Name)), st))}
		for try := 0; try < 8; try++ {
			var val []Ev
			if f.Type.Kind() == reflect.Slice && f.Type.Elem().Kind() != reflect.Uint8 || f.Type.Kind() == reflect.Array {
				val = c17ListSource(r, f.Type)
			} else if f.Type.Kind() == reflect.Slice {
				val = []Ev{{K: "a", A: events.ArrayTypeUint8, N: 2, Data: []byte{byte(r.Intn(256)), 7}}}
			} else {
				val = c17NumSource(r)
			}
			if wild || c17ConvAccepted(t, key, val) {
				evs = append(append(evs, key), val...)
				break
			}
		}
	}
	return append(evs, Ev{K: "e"}, Ev{K: "ed"})
}

// is a document holding just this field built without error (run alone, new instances; no answer in 2 s = no)
func c17ConvAccepted(t reflect.Type, key Ev, val []Ev) bool {
	cfg := configuration.New()
	doc, _ := c17EncodeBoth(cfg, append(append([]Ev{{K: "bd"}, {K: "v", N: 0}, {K: "m"}, key}, val...), Ev{K: "e"}, Ev{K: "ed"}))
	if doc == nil {
		return false
	}
	done := make(chan bool, 1)
	go func() {
		defer func() {
			if r := recover(); r != nil {
				done <- false
			}
		}()
		_, err := ce.UnmarshalFromCBEDocument(doc, reflect.New(t).Elem().Interface(), cfg)
		done <- err == nil
	}()
	select {
	case ok := <-done:
		return ok
	case <-time.After(2 * time.Second):
		return false
	}
}

// FirstFieldName -> First_Field_Name, HTTPStatusCode -> HTTP_Status_Code (only used to write keys: any split is an accepted spelling)
func c17SplitWords(name string) string {
	sb := strings.Builder{}
	rs := []rune(name)
	isUp := func(c rune) bool { return c >= 'A' && c <= 'Z' }
	for i, c := range rs {
		if i > 0 && isUp(c) && (!isUp(rs[i-1]) || i+1 < len(rs) && !isUp(rs[i+1]) && rs[i+1] > '9') {
			sb.WriteByte('_')
		}
		sb.WriteRune(c)
	}
	return sb.String()
}

// ---------------------------------------------------------------------------
// Workload items and calls

type c17Item struct {
	Skip  bool // some call on this item does not return even when run alone (a sequential defect, reported separately): not used
	Typ   reflect.Type
	Val   interface{} // pointer to a filled value of type Typ
	DocB  []byte      // its CBE document (run alone)
	DocT  []byte      // its CTE document (run alone)
	Evs   []Ev        // an event stream (for the encoder / validator calls)
	EvDoc []byte      // that stream encoded in CBE (run alone)
}

// the calls a goroutine can make on an item
var c17Ops = []string{"marshal-cbe", "marshal-cte", "unmarshal-cbe", "unmarshal-cte", "encode-cbe", "encode-cte", "decode-cbe", "validate"}

// c17Instances is the set of instances one goroutine works with.
type c17Instances struct {
	cfg    *configuration.Configuration
	mB, mT ce.Marshaler
	uB, uT ce.Unmarshaler
	iterS  *iterator.Session // shared or own
	buildS *builder.Session
	fresh  bool // make new instances for every call
}

func c17NewInstances(cfg *configuration.Configuration, fresh bool, iterS *iterator.Session, buildS *builder.Session) *c17Instances {
	in := &c17Instances{cfg: cfg, fresh: fresh, iterS: iterS, buildS: buildS}
	if !fresh {
		in.mB, in.mT = ce.NewCBEMarshaler(cfg), ce.NewCTEMarshaler(cfg)
		in.uB, in.uT = ce.NewCBEUnmarshaler(cfg), ce.NewCTEUnmarshaler(cfg)
	}
	return in
}

type c17Result struct {
	Err   bool
	Bytes []byte      // marshal / encode results
	Obj   interface{} // unmarshal results
	Text  string      // decode / validate results
}

func (a c17Result) same(b c17Result) bool {
	return a.Err == b.Err && bytes.Equal(a.Bytes, b.Bytes) && a.Text == b.Text &&
		(reflect.DeepEqual(a.Obj, b.Obj) || c17EqualNaN(reflect.ValueOf(a.Obj), reflect.ValueOf(b.Obj), 0))
}

// c17EqualNaN is reflect.DeepEqual except that a NaN equals a NaN (a document can carry NaN: both runs then build one)
func c17EqualNaN(a, b reflect.Value, depth int) bool {
	if !a.IsValid() || !b.IsValid() {
		return a.IsValid() == b.IsValid()
	}
	if a.Type() != b.Type() || depth > 100 {
		return false
	}
	switch a.Kind() {
	case reflect.Float32, reflect.Float64:
		return a.Float() == b.Float() || a.Float() != a.Float() && b.Float() != b.Float()
	case reflect.Interface, reflect.Ptr:
		if a.IsNil() || b.IsNil() {
			return a.IsNil() == b.IsNil()
		}
		return c17EqualNaN(a.Elem(), b.Elem(), depth+1)
	case reflect.Struct:
		for i := 0; i < a.NumField(); i++ {
			if !c17EqualNaN(a.Field(i), b.Field(i), depth+1) {
				return false
			}
		}
		return true
	case reflect.Slice, reflect.Array:
		if a.Kind() == reflect.Slice && a.IsNil() != b.IsNil() || a.Len() != b.Len() {
			return false
		}
		for i := 0; i < a.Len(); i++ {
			if !c17EqualNaN(a.Index(i), b.Index(i), depth+1) {
				return false
			}
		}
		return true
	case reflect.Map:
		if a.IsNil() != b.IsNil() || a.Len() != b.Len() {
			return false
		}
		for _, k := range a.MapKeys() {
			bv := b.MapIndex(k)
			if !bv.IsValid() || !c17EqualNaN(a.MapIndex(k), bv, depth+1) {
				return false
			}
		}
		return true
	case reflect.Bool:
		return a.Bool() == b.Bool()
	case reflect.Int, reflect.Int8, reflect.Int16, reflect.Int32, reflect.Int64:
		return a.Int() == b.Int()
	case reflect.Uint, reflect.Uint8, reflect.Uint16, reflect.Uint32, reflect.Uint64, reflect.Uintptr:
		return a.Uint() == b.Uint()
	case reflect.String:
		return a.String() == b.String()
	case reflect.Complex64, reflect.Complex128:
		return a.Complex() == b.Complex()
	}
	return false // chan, func, unsafe pointer: only reflect.DeepEqual's answer counts
}

func (a c17Result) String() string {
	s := fmt.Sprintf("err=%v", a.Err)
	if a.Bytes != nil {
		s += " bytes=" + hex.EncodeToString(a.Bytes)
	}
	if a.Obj != nil {
		s += " obj=" + canonDescribe(a.Obj)
	}
	if a.Text != "" {
		s += " " + a.Text
	}
	if len(s) > 600 {
		s = s[:600] + "…"
	}
	return s
}

// marshal through a (possibly shared) iterator session: the session hands out an iterator bound to an encoder
func c17IterMarshal(s *iterator.Session, enc ce.Encoder, obj interface{}) (doc []byte, err error) {
	defer func() {
		if r := recover(); r != nil {
			err = fmt.Errorf("%v", r)
		}
	}()
	var buf bytes.Buffer
	enc.PrepareToEncode(&buf)
	s.NewIterator(enc).Iterate(obj)
	return buf.Bytes(), nil
}

// unmarshal through a (possibly shared) builder session
func c17BuildUnmarshal(s *builder.Session, dec ce.Decoder, cfg *configuration.Configuration, doc []byte, template interface{}) (obj interface{}, err error) {
	defer func() {
		if r := recover(); r != nil {
			err = fmt.Errorf("%v", r)
		}
	}()
	b := s.NewBuilderFor(template)
	rules := ce.NewRules(b, cfg)
	err = dec.DecodeDocument(doc, rules)
	return b.GetBuiltObject(), err
}

func c17Call(in *c17Instances, op string, it *c17Item) (res c17Result) {
	defer func() {
		if r := recover(); r != nil {
			res = c17Result{Err: true, Text: "panic"}
		}
	}()
	cfg := in.cfg
	template := reflect.New(it.Typ).Elem().Interface()
	switch op {
	case "marshal-cbe", "marshal-cte":
		var d []byte
		var err error
		switch {
		case in.iterS != nil && op == "marshal-cbe":
			d, err = c17IterMarshal(in.iterS, ce.NewCBEEncoder(cfg), it.Val)
		case in.iterS != nil:
			d, err = c17IterMarshal(in.iterS, ce.NewCTEEncoder(cfg), it.Val)
		case in.fresh && op == "marshal-cbe":
			d, err = ce.MarshalToCBEDocument(it.Val, cfg)
		case in.fresh:
			d, err = ce.MarshalToCTEDocument(it.Val, cfg)
		case op == "marshal-cbe":
			d, err = in.mB.MarshalToDocument(it.Val)
		default:
			d, err = in.mT.MarshalToDocument(it.Val)
		}
		return c17Result{Err: err != nil, Bytes: append([]byte{}, d...)}
	case "unmarshal-cbe", "unmarshal-cte":
		var o interface{}
		var err error
		doc := it.DocB
		if op == "unmarshal-cte" {
			doc = it.DocT
		}
		switch {
		case in.buildS != nil && op == "unmarshal-cbe":
			o, err = c17BuildUnmarshal(in.buildS, ce.NewCBEDecoder(cfg), cfg, doc, template)
		case in.buildS != nil:
			o, err = c17BuildUnmarshal(in.buildS, ce.NewCTEDecoder(cfg), cfg, doc, template)
		case in.fresh && op == "unmarshal-cbe":
			o, err = ce.UnmarshalFromCBEDocument(doc, template, cfg)
		case in.fresh:
			o, err = ce.UnmarshalFromCTEDocument(doc, template, cfg)
		case op == "unmarshal-cbe":
			o, err = in.uB.UnmarshalFromDocument(doc, template)
		default:
			o, err = in.uT.UnmarshalFromDocument(doc, template)
		}
		return c17Result{Err: err != nil, Obj: o}
	case "encode-cbe", "encode-cte":
		var enc ce.Encoder
		if op == "encode-cbe" {
			enc = ce.NewCBEEncoder(cfg)
		} else {
			enc = ce.NewCTEEncoder(cfg)
		}
		var buf bytes.Buffer
		enc.PrepareToEncode(&buf)
		rej, _ := playAll(enc, it.Evs)
		return c17Result{Err: rej >= 0, Bytes: append([]byte{}, buf.Bytes()...)}
	case "decode-cbe":
		rec := &Recorder{}
		err := ce.NewCBEDecoder(cfg).DecodeDocument(it.EvDoc, ce.NewRules(rec, cfg))
		return c17Result{Err: err != nil, Text: evsString(rec.Evs)}
	case "validate":
		rec := &Recorder{}
		rej, _ := playAll(ce.NewRules(rec, cfg), it.Evs)
		return c17Result{Err: rej >= 0, Text: fmt.Sprintf("rej=%d ", rej) + evsString(rec.Evs)}
	}
	panic("bad op " + op)
}

// c17MakeItems builds the work table of one run. Everything in it is made sequentially, on fresh instances.
func c17MakeItems(r *rand.Rand, nDyn, nItems int, tag string) []*c17Item {
	types := append([]reflect.Type{}, c17StaticTypes...)
	types = append(types, c17DynTypes(r, nDyn, tag)...)
	if nDyn < 0 { // only the numeric destination types
		types = nil
	}
	for n := 0; n < 3; n++ { // several documents per numeric destination type: different numbers in flight at the same time
		types = append(types, c17ConvTypes...)
	}
	items := []*c17Item{}
	for i := 0; i < nItems; i++ {
		t := types[r.Intn(len(types))]
		if i < len(types) {
			t = types[len(types)-1-i] // every type at least once when there is room, new types first
		}
		p := reflect.New(t)
		c17Fill(r, p.Elem(), 4)
		it := &c17Item{Typ: t, Val: p.Interface()}
		cfg := configuration.New()
		it.DocB, _ = ce.MarshalToCBEDocument(it.Val, cfg)
		it.DocT, _ = ce.MarshalToCTEDocument(it.Val, cfg)
		it.DocB, it.DocT = append([]byte{}, it.DocB...), append([]byte{}, it.DocT...)
		// the documents to unmarshal: for the numeric destinations every field from any numeric source form; for the
		// other types with struct fields, two times out of three, the marshaled document with its keys re-spelled
		style := r.Intn(c17SpellStyles+3) - 3 // negative: another style for every key
		isConv := false
		for _, ct := range c17ConvTypes {
			isConv = isConv || t == ct
		}
		var evs []Ev
		switch {
		case isConv:
			evs = c17ConvEvents(r, t, style, r.Intn(5) == 0)
		case len(c17KeySet(t)) > 0 && r.Intn(3) != 0:
			if evs = c17IterEvents(cfg, it.Val); evs != nil {
				evs = c17Respell(r, evs, c17KeySet(t), style, r.Intn(4) == 0)
			}
		}
		if evs != nil {
			if b, x := c17EncodeBoth(cfg, evs); b != nil && x != nil {
				it.DocB, it.DocT = b, x
			}
		}
		it.Evs = NewEvGen(r, DefaultGenOpts()).Document()
		if r.Intn(8) == 0 {
			it.Evs = NewEvGen(r, DefaultGenOpts()).Mutate(it.Evs) // now and then a stream the validator rejects
		}
		enc := ce.NewCBEEncoder(cfg)
		var buf bytes.Buffer
		enc.PrepareToEncode(&buf)
		func() {
			defer func() { recover() }()
			playAll(enc, it.Evs)
		}()
		it.EvDoc = append([]byte{}, buf.Bytes()...)
		// guard: every call must return when run alone, otherwise the item cannot be used to compare against
		done := make(chan struct{})
		go func() {
			for _, op := range c17Ops {
				c17Call(c17NewInstances(configuration.New(), true, nil, nil), op, it)
			}
			close(done)
		}()
		select {
		case <-done:
			items = append(items, it)
		case <-time.After(10 * time.Second):
			c17AloneHangs = append(c17AloneHangs, t.String())
		}
	}
	return items
}

// types on which a call did not return when run alone (sequential defect outside this property; listed in the report)
var c17AloneHangs []string

type c17Mismatch struct {
	Key       string `json:",omitempty"` // the failure key when it is not C17/differs-from-alone/<mode>/<op>
	Mode, Op  string
	Goroutine int
	Item      int
	Type      string
	Expect    string
	Got       string
}

type c17WorkloadReport struct {
	Seed       int64
	Goroutines int
	Procs      int
	Mode       string
	Calls      int
	Mismatches []c17Mismatch
	Hung       bool
	OpsCount   map[string]int
	AloneHangs []string `json:",omitempty"` // calls that do not return even when run alone: left out (a sequential defect)
}

var c17Modes = []string{"separate", "fresh", "shared", "shared-cold", "conversions"}

// c17RunWorkload: the concurrent workload.
//
//	separate     every goroutine has its own marshalers / unmarshalers (kept for all its calls), encoders, decoders, validators
//	fresh        every call makes new instances (the package-level convenience functions)
//	shared       one iterator.Session and one builder.Session shared by all goroutines, each call with its own encoder / decoder / validator
//	shared-cold  as shared, and all goroutines start with the same new types at the same moment (first use races on the shared caches)
//	conversions  only unmarshal calls, only the numeric destination types, documents with numbers in every source form: goroutines with
//	             their own unmarshalers (even ones) or new unmarshalers for every call (odd ones) meet in the package-level builder singletons
//
// Every result is compared with the result of the same call on fresh instances, run alone before the goroutines start.
func c17RunWorkload(seed int64, goroutines, procs int, mode string, nItems, callsPer int) c17WorkloadReport {
	rep := c17WorkloadReport{Seed: seed, Goroutines: goroutines, Procs: procs, Mode: mode, OpsCount: map[string]int{}}
	r := rand.New(rand.NewSource(seed))
	nDyn := 6
	if mode == "conversions" {
		nDyn = -1
	}
	items := c17MakeItems(r, nDyn, nItems, fmt.Sprintf("%d-%s", seed, mode))
	// expected results: run alone
	expect := make([]map[string]c17Result, len(items))
	for i, it := range items {
		expect[i] = map[string]c17Result{}
		for _, op := range c17Ops {
			alone := c17NewInstances(configuration.New(), true, nil, nil)
			if mode == "shared" || mode == "shared-cold" {
				// same entry points as the goroutines use, on sessions nobody else has
				alone = c17NewInstances(alone.cfg, true, iterator.NewSession(nil, alone.cfg), builder.NewSession(nil, alone.cfg))
			}
			expect[i][op] = c17Call(alone, op, it)
		}
	}
	// per-goroutine call lists
	type call struct {
		item int
		op   string
	}
	plans := make([][]call, goroutines)
	for g := range plans {
		for k := 0; k < callsPer; k++ {
			c := call{item: r.Intn(len(items)), op: c17Ops[r.Intn(len(c17Ops))]}
			if mode == "conversions" {
				c.op = []string{"unmarshal-cbe", "unmarshal-cte"}[r.Intn(2)]
			}
			if mode == "shared-cold" {
				// everybody walks the same items in the same order, marshal then unmarshal
				c.item = k / 2 % len(items)
				c.op = []string{"marshal-cbe", "unmarshal-cte", "marshal-cte", "unmarshal-cbe"}[(k%2)+2*(g%2)]
			}
			plans[g] = append(plans[g], c)
		}
	}
	old := runtime.GOMAXPROCS(procs)
	defer runtime.GOMAXPROCS(old)

	sharedCfg := configuration.New()
	var iterS *iterator.Session
	var buildS *builder.Session
	if mode == "shared" || mode == "shared-cold" {
		iterS, buildS = iterator.NewSession(nil, sharedCfg), builder.NewSession(nil, sharedCfg)
	}
	var mu sync.Mutex
	var wg sync.WaitGroup
	start := make(chan struct{})
	// one counter per goroutine, a cache line apart: an atomic operation on a common counter after every call would order
	// the calls of different goroutines for the race detector (and hide races between calls that do not overlap in time)
	callsBy := make([]int64, goroutines*8)
	for g := 0; g < goroutines; g++ {
		wg.Add(1)
		go func(g int) {
			defer wg.Done()
			var in *c17Instances
			switch mode {
			case "separate":
				in = c17NewInstances(configuration.New(), false, nil, nil)
			case "fresh":
				in = c17NewInstances(configuration.New(), true, nil, nil)
			case "conversions":
				in = c17NewInstances(configuration.New(), g%2 == 1, nil, nil)
			default:
				in = c17NewInstances(sharedCfg, true, iterS, buildS)
			}
			<-start
			for _, c := range plans[g] {
				got := c17Call(in, c.op, items[c.item])
				atomic.AddInt64(&callsBy[g*8], 1)
				if want := expect[c.item][c.op]; !got.same(want) {
					mu.Lock()
					rep.Mismatches = append(rep.Mismatches, c17Mismatch{Mode: mode, Op: c.op, Goroutine: g, Item: c.item,
						Type: items[c.item].Typ.String(), Expect: want.String(), Got: got.String()})
					mu.Unlock()
				}
			}
		}(g)
	}
	close(start)
	done := make(chan struct{})
	go func() { wg.Wait(); close(done) }()
	select {
	case <-done:
	case <-time.After(120 * time.Second):
		rep.Hung = true
	}
	for g := 0; g < goroutines; g++ {
		rep.Calls += int(atomic.LoadInt64(&callsBy[g*8]))
	}
	for _, p := range plans {
		for _, c := range p {
			rep.OpsCount[c.op]++
		}
	}
	return rep
}

// ---------------------------------------------------------------------------
// Session storm: every shareable object of the public API used by all goroutines at once, on inputs that make every
// lazily filled structure be filled while others read it.
//
//	one              one iterator.Session and one builder.Session shared by all goroutines
//	children-after   a parent session that has already met every type; every goroutine works on its own child session
//	                 made from it afterwards (the children inherit the parent's generated functions)
//	children-during  goroutine 0 works on the parent; the others work on the parent too and, every few steps, replace
//	                 their session by a new child made from the parent while the parent is in use
//	chain            parent -> child -> grandchild, each made after its parent has met some of the types; goroutine g
//	                 works on the session at depth g mod 3
//
// In every step all goroutines (released together by a barrier) marshal a value of the same struct type through
// their iterator session and unmarshal documents for it through their builder session.  The documents' keys are
// spelled in a way no session has seen before (c17Spell: snake_case, mixed case, separators ...): in even steps all
// goroutines get the same new spelling, in odd steps goroutine g gets spelling variant g mod 3.  In odd rounds the
// configuration declares record types, so that values are sent and built as records.  Every result is compared with
// the result of the same call on a new session without parent, run alone before the goroutines start.

var c17Topologies = []string{"one", "children-after", "children-during", "chain"}

type c17Barrier struct {
	mu         sync.Mutex
	cond       *sync.Cond
	n, at, gen int
}

func (b *c17Barrier) wait() {
	b.mu.Lock()
	gen := b.gen
	b.at++
	if b.at == b.n {
		b.at = 0
		b.gen++
		b.cond.Broadcast()
	} else {
		for gen == b.gen {
			b.cond.Wait()
		}
	}
	b.mu.Unlock()
}

// c17Guard runs f and reports whether it returned within the limit
// c17Guard runs f and reports whether it returned. After `limit` it does not give up while the process
// is still burning CPU (a slow machine, the race detector, many workers side by side): a deadlock —
// goroutines parked forever — uses none. A call is declared stuck when a further 10 s window passes
// with less than half a second of process CPU time, or when 8 x limit (at most 15 min) is over.
func c17Guard(limit time.Duration, f func()) bool {
	done := make(chan struct{})
	go func() { defer close(done); f() }()
	select {
	case <-done:
		return true
	case <-time.After(limit):
	}
	hard := 8 * limit
	if hard > 15*time.Minute {
		hard = 15 * time.Minute
	}
	deadline := time.Now().Add(hard - limit)
	for time.Now().Before(deadline) {
		before := c17ProcessCPU()
		select {
		case <-done:
			return true
		case <-time.After(10 * time.Second):
		}
		if c17ProcessCPU()-before < 500*time.Millisecond {
			return false
		}
	}
	return false
}

func c17ProcessCPU() time.Duration {
	var ru syscall.Rusage
	if syscall.Getrusage(syscall.RUSAGE_SELF, &ru) != nil {
		return 0
	}
	return time.Duration(ru.Utime.Nano() + ru.Stime.Nano())
}

func c17SessionStorm(seed int64, goroutines, procs int, topo string, rounds, steps int) c17WorkloadReport {
	rep := c17WorkloadReport{Seed: seed, Goroutines: goroutines, Procs: procs, Mode: "sessions-" + topo, OpsCount: map[string]int{}}
	old := runtime.GOMAXPROCS(procs)
	defer runtime.GOMAXPROCS(old)
	r := rand.New(rand.NewSource(seed))
	var mu sync.Mutex
	const variants = 3
	type stepDocs struct {
		typ    int
		doc    [variants][2][]byte    // variant x (CBE, CTE)
		expect [variants][2]c17Result // run alone
		skip   bool
	}
	for round := 0; round < rounds; round++ {
		named, inner := reflect.TypeOf(c17Named{}), reflect.TypeOf(c17NamedInner{})
		dyn := c17DynTypes(r, 4, fmt.Sprintf("sess-%d-%d-%s", seed, round, topo))
		types := append([]reflect.Type{named, inner, reflect.TypeOf([]c17Named{}), reflect.TypeOf(map[string]*c17NamedInner{})}, dyn...)
		types = append(types, c17ConvTypes...)
		cfg := configuration.New()
		if round%2 == 1 {
			cfg.Iterator.RecordTypes[inner] = "inner_rec"
			cfg.Iterator.RecordTypes[dyn[0]] = "dyn_rec"
		}
		keys := c17KeySet(types...)
		vals := make([]interface{}, len(types))
		expectM := make([][2]c17Result, len(types))
		marshal := func(is *iterator.Session, i, format int) c17Result {
			var enc ce.Encoder = ce.NewCBEEncoder(cfg)
			if format == 1 {
				enc = ce.NewCTEEncoder(cfg)
			}
			d, err := c17IterMarshal(is, enc, vals[i])
			return c17Result{Err: err != nil, Bytes: append([]byte{}, d...)}
		}
		unmarshal := func(bs *builder.Session, i, format int, doc []byte) c17Result {
			var dec ce.Decoder = ce.NewCBEDecoder(cfg)
			if format == 1 {
				dec = ce.NewCTEDecoder(cfg)
			}
			o, err := c17BuildUnmarshal(bs, dec, cfg, doc, reflect.New(types[i]).Elem().Interface())
			return c17Result{Err: err != nil, Obj: o}
		}
		// Values, documents and run-alone results.  Only the library calls run under a time limit (a call that does not
		// return even alone is a sequential defect, reported apart): what is left behind after a time-out shares nothing
		// with the rest of the harness (no random source, no table).
		for i, t := range types {
			for depth := 3; depth >= 0; depth-- { // values whose document is large are drawn again, shallower
				p := reflect.New(t)
				c17Fill(r, p.Elem(), depth)
				vals[i] = p.Interface()
				if d, _ := ce.MarshalToCBEDocument(vals[i], cfg); len(d) < 20000 {
					break
				}
			}
		}
		aloneOK := true
		for i := range types {
			for f := 0; f < 2 && aloneOK; f++ {
				var res c17Result
				if aloneOK = c17Guard(60*time.Second, func() { res = marshal(iterator.NewSession(nil, cfg), i, f) }); aloneOK {
					expectM[i][f] = res
				}
			}
		}
		if !aloneOK {
			c17AloneHangs = append(c17AloneHangs, "session storm: marshal")
			continue
		}
		plan := make([]*stepDocs, steps)
		hangs := map[int]bool{} // types with a document whose unmarshaling does not return even alone: left out from then on
		for k := range plan {
			sd := &stepDocs{typ: k % len(types)}
			plan[k] = sd
			for v := 0; v < variants && !sd.skip && !hangs[sd.typ]; v++ {
				var evs []Ev
				style := 1 + (k/len(types)+v*3+r.Intn(2))%(c17SpellStyles-1)
				if r.Intn(4) == 0 {
					style = -1
				}
				isConv := false
				for _, ct := range c17ConvTypes {
					isConv = isConv || types[sd.typ] == ct
				}
				if isConv {
					evs = c17ConvEvents(r, types[sd.typ], style, false)
				} else if evs = c17IterEvents(cfg, vals[sd.typ]); evs != nil {
					evs = c17Respell(r, evs, keys, style, r.Intn(5) == 0)
				}
				sd.doc[v][0], sd.doc[v][1] = c17EncodeBoth(cfg, evs)
				for f := 0; f < 2 && !sd.skip; f++ {
					if evs == nil || sd.doc[v][f] == nil {
						sd.skip = true
						break
					}
					var res c17Result
					doc := sd.doc[v][f]
					if c17Guard(60*time.Second, func() { res = unmarshal(builder.NewSession(nil, cfg), sd.typ, f, doc) }) {
						sd.expect[v][f] = res
					} else {
						sd.skip, hangs[sd.typ] = true, true
						c17AloneHangs = append(c17AloneHangs, "session storm: unmarshal "+types[sd.typ].String())
					}
				}
			}
			sd.skip = sd.skip || hangs[sd.typ]
		}
		// the sessions
		pi, pb := iterator.NewSession(nil, cfg), builder.NewSession(nil, cfg)
		warm := func(is *iterator.Session, bs *builder.Session, which func(i int) bool) {
			for i := range types {
				if which(i) {
					d := marshal(is, i, 0)
					unmarshal(bs, i, 0, d.Bytes)
				}
			}
		}
		iss, bss := make([]*iterator.Session, goroutines), make([]*builder.Session, goroutines)
		for g := range iss {
			iss[g], bss[g] = pi, pb
		}
		warmed := true
		switch topo {
		case "children-after":
			warmed = c17Guard(30*time.Second, func() { warm(pi, pb, func(int) bool { return true }) })
			for g := range iss {
				iss[g], bss[g] = iterator.NewSession(pi, cfg), builder.NewSession(pb, cfg)
			}
		case "chain":
			var ci, gi *iterator.Session
			var cb, gb *builder.Session
			warmed = c17Guard(30*time.Second, func() {
				warm(pi, pb, func(i int) bool { return i%2 == 0 })
				ci, cb = iterator.NewSession(pi, cfg), builder.NewSession(pb, cfg)
				warm(ci, cb, func(i int) bool { return i%4 == 1 })
				gi, gb = iterator.NewSession(ci, cfg), builder.NewSession(cb, cfg)
			})
			if warmed {
				for g := range iss {
					iss[g], bss[g] = []*iterator.Session{pi, ci, gi}[g%3], []*builder.Session{pb, cb, gb}[g%3]
				}
			}
		}
		if !warmed {
			c17AloneHangs = append(c17AloneHangs, "session storm: warming the parent session")
			continue
		}
		bar := &c17Barrier{n: goroutines}
		bar.cond = sync.NewCond(&bar.mu)
		var wg sync.WaitGroup
		for g := 0; g < goroutines; g++ {
			wg.Add(1)
			go func(g int) {
				defer wg.Done()
				is, bs := iss[g], bss[g]
				// results are collected here and merged when the goroutine is through (no common lock between the calls)
				nSteps := 0
				var mism []c17Mismatch
				differs := func(op string, k int, sd *stepDocs, want, got c17Result) {
					if !got.same(want) {
						mism = append(mism, c17Mismatch{Mode: rep.Mode, Op: op, Goroutine: g, Item: k, Type: types[sd.typ].String(), Expect: want.String(), Got: got.String()})
					}
				}
				for k, sd := range plan {
					bar.wait()
					if topo == "children-during" && g > 0 && k%4 == g%4 {
						is, bs = iterator.NewSession(pi, cfg), builder.NewSession(pb, cfg)
					}
					if sd.skip {
						continue
					}
					v := 0
					if k%2 == 1 {
						v = g % variants
					}
					f := (k/len(types) + g) % 2
					gotM := marshal(is, sd.typ, f)
					gotU := unmarshal(bs, sd.typ, f, sd.doc[v][f])
					gotU2 := unmarshal(bs, sd.typ, 1-f, sd.doc[v][1-f])
					nSteps++
					differs("session-marshal", k, sd, expectM[sd.typ][f], gotM)
					differs("session-unmarshal", k, sd, sd.expect[v][f], gotU)
					differs("session-unmarshal", k, sd, sd.expect[v][1-f], gotU2)
				}
				mu.Lock()
				rep.Calls += 3 * nSteps
				rep.OpsCount["session-marshal"] += nSteps
				rep.OpsCount["session-unmarshal"] += 2 * nSteps
				rep.Mismatches = append(rep.Mismatches, mism...)
				mu.Unlock()
			}(g)
		}
		if !c17Guard(90*time.Second, wg.Wait) {
			rep.Hung = true
			return rep
		}
	}
	return rep
}

// ---------------------------------------------------------------------------
// Lazy storm: SEPARATE instances only (every goroutine has its own configuration, validators, decoders, unmarshalers).
// What they can still share is package-level state of the library; the documents make every lazily initialised
// structure be initialised while others use it:
//
//	- maps and record types whose keys are integers of many widths (4 ... several hundred machine words, both signs),
//	  every step with widths this process has not seen before (the first sighting of a width is what matters), next
//	  to narrow integers, UID and text keys, and now and then a duplicate key (the document is then invalid
//	  at a known position)
//	- record types and records, every array type (whole and in chunks)
//	- CTE text with verbatim sequences (\.SENTINEL text SENTINEL) whose sentinels differ between the goroutines at
//	  every moment, the text mentioning the sentinels of the others
//
// All goroutines are released together at every step.  The run-alone results are computed AFTER the goroutines are
// through (computing them before would initialise, sequentially, exactly what the goroutines are to initialise at the
// same time).  Every call has a time limit: a call that does not return is a failure of its own.

const c17LazyVariants = 4

var c17Sentinels = []string{"@@", "ZZZ", "#", "%%%%", "=+=", "QQ", "~~~~~", "xyz", "A", "a1", "||", "-->", "EOT", "$", "^^", "é"}

type c17LazyDoc struct {
	evs        []Ev
	docB, docT []byte
	text       []byte // hand-written CTE with verbatim sequences
	maxDigits  uint64 // Rules.MaxIntegerDigitCount of the configuration (0: default)
}

var c17LazyOps = []string{"validate", "decode-cbe", "decode-cte", "decode-cte-verbatim", "unmarshal-cte-verbatim"}

func c17WideInt(r *rand.Rand, words int) *big.Int {
	b := new(big.Int).Lsh(big.NewInt(int64(r.Intn(1000))+1), uint(64*(words-1)+r.Intn(50)))
	b.Add(b, big.NewInt(int64(r.Intn(1000))))
	if r.Intn(2) == 0 {
		b.Neg(b)
	}
	return b
}

// widths: the word counts of the wide keys of this document
func c17MakeLazyDoc(r *rand.Rand, widths []int, own string, others []string) *c17LazyDoc {
	d := &c17LazyDoc{}
	if r.Intn(2) == 0 {
		d.maxDigits = 1000000
	}
	str := func(s string) Ev { return Ev{K: "sa", A: events.ArrayTypeString, Data: []byte(s)} }
	evs := []Ev{{K: "bd"}, {K: "v", N: 0}}
	// a record type whose keys are wide integers too
	evs = append(evs, Ev{K: "rt", Data: []byte("wide")})
	nRecKeys := 0
	for _, w := range widths {
		if r.Intn(2) == 0 {
			evs = append(evs, Ev{K: "bi", Big: c17WideInt(r, w)})
			nRecKeys++
		}
	}
	evs = append(evs, str("name"), Ev{K: "e"})
	nRecKeys++
	evs = append(evs, Ev{K: "l"})
	// the map with keys of every kind
	evs = append(evs, Ev{K: "m"})
	var first *big.Int
	for _, w := range widths {
		for n := 1 + r.Intn(2); n > 0; n-- {
			k := c17WideInt(r, w)
			if first == nil {
				first = k
			}
			evs = append(evs, Ev{K: "bi", Big: k}, Ev{K: "pi", N: uint64(w)})
		}
	}
	evs = append(evs, Ev{K: "pi", N: uint64(r.Intn(100))}, Ev{K: "null"})
	evs = append(evs, Ev{K: "ni", N: uint64(r.Intn(100) + 1)}, Ev{K: "t"})
	evs = append(evs, Ev{K: "bi", Big: new(big.Int).Lsh(big.NewInt(int64(r.Intn(100)+1)), uint(64+r.Intn(100)))}, Ev{K: "f"})
	evs = append(evs, Ev{K: "uid", Data: []byte{1, 2, 3, 4, 5, 6, 7, 8, 9, 10, 11, 12, 13, 14, 15, byte(r.Intn(256))}}, Ev{K: "null"})
	evs = append(evs, str("text key"), Ev{K: "null"})
	if r.Intn(6) == 0 && first != nil { // the first wide key again: rejected here
		evs = append(evs, Ev{K: "bi", Big: new(big.Int).Set(first)}, Ev{K: "null"})
	}
	evs = append(evs, Ev{K: "e"})
	// a record
	evs = append(evs, Ev{K: "rec", Data: []byte("wide")})
	for i := 0; i < nRecKeys; i++ {
		evs = append(evs, Ev{K: "pi", N: uint64(i)})
	}
	evs = append(evs, Ev{K: "e"})
	// every array type, whole or in two chunks
	for at := events.ArrayType(0); at < events.NumArrayTypes; at++ {
		width := 0
		switch at {
		case events.ArrayTypeUint8, events.ArrayTypeInt8:
			width = 1
		case events.ArrayTypeUint16, events.ArrayTypeInt16, events.ArrayTypeFloat16:
			width = 2
		case events.ArrayTypeUint32, events.ArrayTypeInt32, events.ArrayTypeFloat32:
			width = 4
		case events.ArrayTypeUint64, events.ArrayTypeInt64, events.ArrayTypeFloat64:
			width = 8
		}
		if width == 0 {
			continue
		}
		n := 2 + r.Intn(3)
		data := make([]byte, n*width)
		for i := 0; i < n; i++ {
			data[i*width] = byte(r.Intn(100))
			if width >= 4 && (at == events.ArrayTypeFloat32 || at == events.ArrayTypeFloat64) {
				data[i*width], data[i*width+width-1], data[i*width+width-2] = 0, 0x40, byte(r.Intn(0x70)) // ordinary numbers
			}
		}
		if r.Intn(2) == 0 {
			evs = append(evs, Ev{K: "a", A: at, N: uint64(n), Data: data})
		} else {
			evs = append(evs, Ev{K: "ab", A: at}, Ev{K: "ac", N: 1, B: true}, Ev{K: "ad", Data: data[:width]},
				Ev{K: "ac", N: uint64(n - 1), B: false}, Ev{K: "ad", Data: data[width:]})
		}
	}
	evs = append(evs, str("plain text "+own), Ev{K: "e"}, Ev{K: "ed"})
	d.evs = evs
	cfg := configuration.New()
	d.docB, d.docT = c17EncodeBoth(cfg, evs)
	// verbatim sequences: own sentinel, the text mentions the others' sentinels
	sb := strings.Builder{}
	sb.WriteString("c0\n[\n")
	for i := 0; i < 3+r.Intn(4); i++ {
		sb.WriteString("    \"lead " + fmt.Sprint(i) + " \\." + own + " ")
		for j := 0; j < 1+r.Intn(4); j++ {
			sb.WriteString(fmt.Sprintf("text %d.%d ", i, j))
			if len(others) > 0 {
				sb.WriteString(others[r.Intn(len(others))] + " ")
			}
		}
		sb.WriteString(own)
		if r.Intn(2) == 0 {
			sb.WriteString(" tail \\." + own + " x" + own)
		}
		sb.WriteString("\"\n")
	}
	sb.WriteString("]\n")
	d.text = []byte(sb.String())
	return d
}

func (d *c17LazyDoc) cfg() *configuration.Configuration {
	cfg := configuration.New()
	if d.maxDigits != 0 {
		cfg.Rules.MaxIntegerDigitCount = d.maxDigits
	}
	return cfg
}

// one call on new instances made for it from a configuration of its own; kept: the goroutine's own reused unmarshaler (may be nil)
func c17LazyCall(d *c17LazyDoc, op string, kept ce.Unmarshaler) (res c17Result) {
	defer func() {
		if r := recover(); r != nil {
			res = c17Result{Err: true, Text: "panic"}
		}
	}()
	cfg := d.cfg()
	rec := &Recorder{}
	switch op {
	case "validate":
		rej, _ := playAll(ce.NewRules(rec, cfg), d.evs)
		return c17Result{Err: rej >= 0, Text: fmt.Sprintf("rej=%d ", rej) + evsString(rec.Evs)}
	case "decode-cbe":
		err := ce.NewCBEDecoder(cfg).DecodeDocument(d.docB, ce.NewRules(rec, cfg))
		return c17Result{Err: err != nil, Text: evsString(rec.Evs)}
	case "decode-cte":
		err := ce.NewCTEDecoder(cfg).DecodeDocument(d.docT, ce.NewRules(rec, cfg))
		return c17Result{Err: err != nil, Text: evsString(rec.Evs)}
	case "decode-cte-verbatim":
		err := ce.NewCTEDecoder(cfg).DecodeDocument(d.text, ce.NewRules(rec, cfg))
		return c17Result{Err: err != nil, Text: evsString(rec.Evs)}
	case "unmarshal-cte-verbatim":
		if kept == nil {
			kept = ce.NewCTEUnmarshaler(cfg)
		}
		o, err := kept.UnmarshalFromDocument(d.text, nil)
		return c17Result{Err: err != nil, Obj: o}
	}
	panic("bad op " + op)
}

func c17LazyStorm(seed int64, goroutines, procs, rounds, steps int) c17WorkloadReport {
	rep := c17WorkloadReport{Seed: seed, Goroutines: goroutines, Procs: procs, Mode: "lazy", OpsCount: map[string]int{}}
	old := runtime.GOMAXPROCS(procs)
	defer runtime.GOMAXPROCS(old)
	r := rand.New(rand.NewSource(seed))
	var mu sync.Mutex
	nextWidth := 5 // word count (with the sign word) 5 is the first that is not a fixed-size case in the library: start below it
	for round := 0; round < rounds; round++ {
		plan := make([][c17LazyVariants]*c17LazyDoc, steps)
		for k := range plan {
			// widths nobody in this process has met: three new ones per step (all variants use them, so that the
			// goroutines meet them at the same moment), plus one old one
			widths := []int{nextWidth - 1, nextWidth, nextWidth + 1, 4 + r.Intn(nextWidth)}
			nextWidth += 2 + r.Intn(3)
			for v := 0; v < c17LazyVariants; v++ {
				own := c17Sentinels[(k*c17LazyVariants+v)%len(c17Sentinels)]
				others := []string{}
				for w := 0; w < c17LazyVariants; w++ {
					if w != v {
						others = append(others, c17Sentinels[(k*c17LazyVariants+w)%len(c17Sentinels)])
					}
				}
				plan[k][v] = c17MakeLazyDoc(r, widths, own, others)
			}
		}
		got := make([][][]c17Result, goroutines) // goroutine x step x op
		hung := make([]string, goroutines)
		bar := &c17Barrier{n: goroutines}
		bar.cond = sync.NewCond(&bar.mu)
		var wg sync.WaitGroup
		for g := 0; g < goroutines; g++ {
			wg.Add(1)
			go func(g int) {
				defer wg.Done()
				var kept ce.Unmarshaler
				if g%2 == 0 {
					kept = ce.NewCTEUnmarshaler(configuration.New())
				}
				res := make([][]c17Result, steps)
				dead := false
				for k := range plan {
					bar.wait()
					if dead {
						continue // keeps the barrier going for the others
					}
					d := plan[k][(g+k)%c17LazyVariants]
					res[k] = make([]c17Result, len(c17LazyOps))
					for i, op := range c17LazyOps {
						var x c17Result
						op := op
						if !c17Guard(30*time.Second, func() { x = c17LazyCall(d, op, kept) }) {
							hung[g] = fmt.Sprintf("step %d %s", k, op)
							dead = true
							break
						}
						res[k][i] = x
					}
				}
				mu.Lock()
				got[g] = res
				mu.Unlock()
			}(g)
		}
		if !c17Guard(time.Duration(60+2*steps)*time.Second, wg.Wait) {
			rep.Hung = true
			return rep
		}
		// run alone, afterwards
		for k := range plan {
			var expect [c17LazyVariants][]c17Result
			for g := 0; g < goroutines; g++ {
				v := (g + k) % c17LazyVariants
				if got[g] == nil || got[g][k] == nil {
					continue
				}
				if expect[v] == nil {
					expect[v] = make([]c17Result, len(c17LazyOps))
					for i, op := range c17LazyOps {
						expect[v][i] = c17LazyCall(plan[k][v], op, nil)
					}
				}
				for i, op := range c17LazyOps {
					rep.Calls++
					rep.OpsCount["lazy-"+op]++
					if hung[g] == fmt.Sprintf("step %d %s", k, op) {
						rep.Mismatches = append(rep.Mismatches, c17Mismatch{Mode: "lazy", Op: op + "/never-returns", Goroutine: g, Item: k, Type: "document",
							Expect: expect[v][i].String(), Got: "the call did not return within 30 s"})
						break
					}
					if !got[g][k][i].same(expect[v][i]) {
						rep.Mismatches = append(rep.Mismatches, c17Mismatch{Mode: "lazy", Op: op, Goroutine: g, Item: k, Type: "document",
							Expect: expect[v][i].String(), Got: got[g][k][i].String()})
					}
				}
			}
		}
	}
	return rep
}

func c17WorkerMain(args []string) int {
	if len(args) < 4 {
		fmt.Fprintln(os.Stderr, "usage: vh c17worker <seed> <goroutines> <gomaxprocs> <mode> [items] [calls-per-goroutine]")
		return 2
	}
	seed, _ := strconv.ParseInt(args[0], 10, 64)
	g, _ := strconv.Atoi(args[1])
	procs, _ := strconv.Atoi(args[2])
	nItems, callsPer := 24, 40
	if len(args) >= 6 {
		nItems, _ = strconv.Atoi(args[4])
		callsPer, _ = strconv.Atoi(args[5])
	}
	var rep c17WorkloadReport
	if args[3] == "selftest-race" {
		// a deliberate data race: the race-detector build must report it (checks that the detector is really on)
		x := 0
		var wg sync.WaitGroup
		for i := 0; i < 2; i++ {
			wg.Add(1)
			go func() {
				defer wg.Done()
				for k := 0; k < 1000; k++ {
					x++
				}
			}()
		}
		wg.Wait()
		fmt.Println("{\"Mode\":\"selftest-race\",\"Calls\":", x, "}")
		return 0
	}
	if args[3] == "caches" {
		rep = c17CacheStorm(seed, g, procs)
	} else if args[3] == "lazy" {
		rep = c17LazyStorm(seed, g, procs, nItems, callsPer) // rounds, steps
	} else if strings.HasPrefix(args[3], "sessions-") {
		rep = c17SessionStorm(seed, g, procs, strings.TrimPrefix(args[3], "sessions-"), nItems, callsPer) // rounds, steps
	} else {
		rep = c17RunWorkload(seed, g, procs, args[3], nItems, callsPer)
	}
	rep.AloneHangs = c17AloneHangs
	b, _ := json.Marshal(rep)
	fmt.Println(string(b))
	if rep.Hung {
		return 4
	}
	if len(rep.Mismatches) > 0 {
		return 3
	}
	return 0
}

// c17CacheStorm: all goroutines ask one shared session for the same cold types at the same moment, directly
// through GetIteratorForType / GetBuilderGeneratorForType, then use what they got.
func c17CacheStorm(seed int64, goroutines, procs int) c17WorkloadReport {
	rep := c17WorkloadReport{Seed: seed, Goroutines: goroutines, Procs: procs, Mode: "caches", OpsCount: map[string]int{}}
	old := runtime.GOMAXPROCS(procs)
	defer runtime.GOMAXPROCS(old)
	r := rand.New(rand.NewSource(seed))
	var mu sync.Mutex
	for round := 0; round < 6; round++ {
		types := append(c17DynTypes(r, 5, fmt.Sprintf("storm-%d-%d", seed, round)), c17StaticTypes[:7]...)
		types = append(types, reflect.TypeOf(c17Named{}), reflect.TypeOf([]c17NamedInner{}))
		vals := make([]reflect.Value, len(types))
		expect := make([]c17Result, len(types))
		expectB := make([]c17Result, len(types))
		for i, t := range types {
			p := reflect.New(t)
			c17Fill(r, p.Elem(), 3)
			vals[i] = p.Elem()
			expect[i] = c17IterUse(iterator.NewSession(nil, configuration.New()), t, vals[i])
			expectB[i] = c17BuildUse(builder.NewSession(nil, configuration.New()), t, vals[i])
		}
		cfg := configuration.New()
		is, bs := iterator.NewSession(nil, cfg), builder.NewSession(nil, cfg)
		// never-seen types whose generation fails late (an unsupported field behind many new nested struct types): all
		// goroutines ask for the outermost type or for one of its inner levels at the same moment.  Alone, each of these
		// calls ends with the library's own error; so it must here (not with a runtime error, not with a result).
		deep := [][]reflect.Type{c17DeepBad(r, 20+r.Intn(40), fmt.Sprintf("deep-%d-%d-a", seed, round)), c17DeepBad(r, 100+r.Intn(100), fmt.Sprintf("deep-%d-%d-b", seed, round))}
		deepExpect := c17Result{Err: true, Text: "panic"}
		for _, lv := range deep {
			for _, t := range []reflect.Type{lv[0], lv[len(lv)/2]} {
				if got := c17IterUse(iterator.NewSession(nil, configuration.New()), t, reflect.New(t).Elem()); !got.same(deepExpect) {
					c17AloneHangs = append(c17AloneHangs, "cache storm: a deep unsupported type does not fail with the library's error when run alone: "+got.String())
					deep = nil
				}
			}
		}
		var wg sync.WaitGroup
		start := make(chan struct{})
		for g := 0; g < goroutines; g++ {
			wg.Add(1)
			go func(g int) {
				defer wg.Done()
				<-start
				var deepMism []c17Mismatch
				for n, lv := range deep {
					// even goroutines: the outermost type; odd ones: an inner level (its placeholder is in the cache while
					// the outer generation is on its way down)
					t := lv[0]
					if g%2 == 1 {
						t = lv[(g/2*7+n)%(len(lv)-1)]
					}
					for rep := 0; rep < 2; rep++ {
						for _, what := range []string{"marshal", "unmarshal"} {
							var got c17Result
							if what == "marshal" {
								got = c17IterUse(is, t, reflect.New(t).Elem())
								got.Bytes = nil
							} else {
								got = c17BuildDeep(bs, t)
							}
							if got.Err && got.Text != "panic/runtime-error" {
								continue // an error of the library, as when run alone (raised at generation or, later, at use)
							}
							// no error at all: the known class (a function generated while it held the placeholder of a type whose
							// generation failed later stays in the cache); a runtime error instead of the library's: a class of its own
							key := "C17/result-changes-after-failed-first-use/" + what
							if got.Err {
								key = "C17/runtime-error-instead-of-the-error-returned-alone/" + what
							}
							deepMism = append(deepMism, c17Mismatch{Mode: "caches", Op: what + "/deep-unsupported-type", Key: key, Goroutine: g, Item: n,
								Type: fmt.Sprintf("%d nested new struct types above an unsupported field", len(lv)), Expect: deepExpect.String(), Got: got.String()})
						}
					}
				}
				if len(deep) > 0 {
					mu.Lock()
					rep.Calls += 4 * len(deep)
					rep.OpsCount["marshal/deep-unsupported-type"] += 2 * len(deep)
					rep.OpsCount["unmarshal/deep-unsupported-type"] += 2 * len(deep)
					rep.Mismatches = append(rep.Mismatches, deepMism...)
					mu.Unlock()
				}
				// results are collected here and merged when the goroutine is through: taking the common lock after
				// every call would order the calls of different goroutines for the race detector
				nCalls, nPh := 0, 0
				var mism []c17Mismatch
				for k := range types {
					i := (k + g*(round%3)) % len(types)
					kind := ""
					got := c17IterUseK(is, types[i], vals[i], &kind)
					gotB := c17BuildUse(bs, types[i], vals[i])
					nCalls += 2
					if kind == "ph" {
						nPh++
					}
					if !got.same(expect[i]) {
						mism = append(mism, c17Mismatch{Mode: "caches", Op: "iter-get-use", Goroutine: g, Item: i, Type: types[i].String(), Expect: expect[i].String(), Got: got.String()})
					}
					if !gotB.same(expectB[i]) {
						mism = append(mism, c17Mismatch{Mode: "caches", Op: "build-get-use", Goroutine: g, Item: i, Type: types[i].String(), Expect: expectB[i].String(), Got: gotB.String()})
					}
				}
				mu.Lock()
				rep.Calls += nCalls
				rep.OpsCount["iter-handed-placeholder"] += nPh
				rep.OpsCount["iter-get-use"] += nCalls / 2
				rep.OpsCount["build-get-use"] += nCalls / 2
				rep.Mismatches = append(rep.Mismatches, mism...)
				mu.Unlock()
			}(g)
		}
		close(start)
		done := make(chan struct{})
		go func() { wg.Wait(); close(done) }()
		select {
		case <-done:
		case <-time.After(60 * time.Second):
			rep.Hung = true
			return rep
		}
	}
	return rep
}

// what kind of error a call ended with: one raised by the library ("panic") or one raised by the Go runtime (nil
// pointer dereference, index out of range ...).  Only this distinction is compared, never the text of an error.
func c17PanicClass(r interface{}) string {
	if _, ok := r.(runtime.Error); ok {
		return "panic/runtime-error"
	}
	return "panic"
}

// c17DeepBad makes a type the session has never seen whose generation fails late: depth new nested struct types, each
// with a few ordinary fields, and a chan / func / complex field in the innermost one.  levels[i] is the type at
// nesting depth i (levels[0] the outermost).
func c17DeepBad(r *rand.Rand, depth int, tag string) (levels []reflect.Type) {
	bad := []reflect.Type{reflect.TypeOf(make(chan int)), reflect.TypeOf(func() {}), reflect.TypeOf(complex64(0))}[r.Intn(3)]
	t := reflect.StructOf([]reflect.StructField{
		{Name: "PlainValue", Type: reflect.TypeOf(0), Tag: reflect.StructTag(fmt.Sprintf(`c17:"%s"`, tag))},
		{Name: "BadValue", Type: bad}})
	levels = []reflect.Type{t}
	for d := 1; d < depth; d++ {
		fields := []reflect.StructField{{Name: "LevelNumber", Type: reflect.TypeOf(int32(0)), Tag: reflect.StructTag(fmt.Sprintf(`c17:"%s-%d"`, tag, d))}}
		if r.Intn(2) == 0 {
			fields = append(fields, reflect.StructField{Name: "SomeText", Type: reflect.TypeOf("")})
		}
		inner := t
		switch r.Intn(4) { // now and then behind a pointer or a slice
		case 0:
			inner = reflect.PtrTo(t)
		case 1:
			inner = reflect.SliceOf(t)
		}
		fields = append(fields, reflect.StructField{Name: "NextLevel", Type: inner})
		t = reflect.StructOf(fields)
		levels = append([]reflect.Type{t}, levels...)
	}
	return levels
}

// GetIteratorForType, then call the function on v with a CBE encoder behind it
func c17IterUse(s *iterator.Session, t reflect.Type, v reflect.Value) (res c17Result) {
	return c17IterUseK(s, t, v, nil)
}

// kind (if not nil) receives what the cache handed out: "ph" or "gen"
func c17IterUseK(s *iterator.Session, t reflect.Type, v reflect.Value, kind *string) (res c17Result) {
	defer func() {
		if r := recover(); r != nil {
			res = c17Result{Err: true, Text: c17PanicClass(r)}
		}
	}()
	cfg := configuration.New()
	f := s.GetIteratorForType(t)
	if kind != nil {
		*kind = c17FnKind(f)
	}
	enc := ce.NewCBEEncoder(cfg)
	var buf bytes.Buffer
	enc.PrepareToEncode(&buf)
	ctx := iterator.Context{GetIteratorForType: s.GetIteratorForType, Configuration: cfg, EventReceiver: enc,
		TryAddLocalReference: func(reflect.Value) bool { return false }}
	enc.OnBeginDocument()
	enc.OnVersion(0)
	f(&ctx, v)
	enc.OnEndDocument()
	return c17Result{Bytes: append([]byte{}, buf.Bytes()...)}
}

// a builder for the (unsupported) type t from the shared session, fed an empty map
func c17BuildDeep(s *builder.Session, t reflect.Type) (res c17Result) {
	defer func() {
		if r := recover(); r != nil {
			res = c17Result{Err: true, Text: c17PanicClass(r)}
		}
	}()
	cfg := configuration.New()
	b := s.NewBuilderFor(reflect.New(t).Elem().Interface())
	err := ce.NewCTEDecoder(cfg).DecodeDocument([]byte("c0 {}"), ce.NewRules(b, cfg))
	return c17Result{Err: err != nil}
}

// GetBuilderGeneratorForType (through a builder for t), then build from the CBE document of v
func c17BuildUse(s *builder.Session, t reflect.Type, v reflect.Value) (res c17Result) {
	return c17BuildUseSp(s, t, v, 0)
}

// spell != 0: the keys of the document are re-spelled (c17Respell, a different style for every key, chosen by spell)
func c17BuildUseSp(s *builder.Session, t reflect.Type, v reflect.Value, spell int64) (res c17Result) {
	defer func() {
		if r := recover(); r != nil {
			res = c17Result{Err: true, Text: "panic"}
		}
	}()
	cfg := configuration.New()
	var dec ce.Decoder = ce.NewCBEDecoder(cfg)
	doc, err := ce.MarshalToCBEDocument(v.Addr().Interface(), cfg)
	if err != nil {
		// values of unsupported types cannot be marshaled: write the document by hand (CTE)
		doc, dec = []byte("c0 "+c17HandDoc(v)), ce.NewCTEDecoder(cfg)
	} else if spell != 0 {
		if evs := c17IterEvents(cfg, v.Addr().Interface()); evs != nil {
			if b, _ := c17EncodeBoth(cfg, c17Respell(rand.New(rand.NewSource(spell)), evs, c17KeySet(t), -1, false)); b != nil {
				doc = b
			}
		}
	}
	o, err := c17BuildUnmarshal(s, dec, cfg, doc, v.Interface())
	return c17Result{Err: err != nil, Obj: o}
}

// c17HandDoc renders the supported part of a value of the harness's "bad" type family as CTE
// (ints, strings, pointers, slices, structs; chan / func / complex fields are left out).
func c17HandDoc(v reflect.Value) string {
	switch v.Kind() {
	case reflect.Int, reflect.Int8, reflect.Int16, reflect.Int32, reflect.Int64:
		return strconv.FormatInt(v.Int(), 10)
	case reflect.String:
		return strconv.Quote(v.String())
	case reflect.Ptr:
		if v.IsNil() {
			return "null"
		}
		return c17HandDoc(v.Elem())
	case reflect.Slice:
		parts := []string{}
		for i := 0; i < v.Len(); i++ {
			parts = append(parts, c17HandDoc(v.Index(i)))
		}
		return "[" + strings.Join(parts, " ") + "]"
	case reflect.Map:
		parts := []string{}
		for _, k := range v.MapKeys() {
			parts = append(parts, c17HandDoc(k)+"="+c17HandDoc(v.MapIndex(k)))
		}
		return "{" + strings.Join(parts, " ") + "}"
	case reflect.Struct:
		parts := []string{}
		for i := 0; i < v.NumField(); i++ {
			f := v.Type().Field(i)
			if _, bad := c17Desc("build", f.Type); bad || f.PkgPath != "" || c17IsEmpty(v.Field(i)) {
				continue
			}
			parts = append(parts, strconv.Quote(strings.ToLower(f.Name))+"="+c17HandDoc(v.Field(i)))
		}
		return "{" + strings.Join(parts, " ") + "}"
	}
	return "null"
}

// ---------------------------------------------------------------------------
// Scenarios on the type caches, mirrored in Coq (CE.Model.Cache)

// what kind of function did the cache hand out: its placeholder closure or a generated function
func c17FnKind(f interface{}) string {
	name := runtime.FuncForPC(reflect.ValueOf(f).Pointer()).Name()
	if strings.Contains(name, "GetIteratorForType.func") || strings.Contains(name, "GetBuilderGeneratorForType.func") {
		return "ph"
	}
	return "gen"
}

// c17Desc mirrors iterator.Session.getDefaultIteratorForType / builder.Session.defaultBuilderGeneratorForType:
// which types does generating the function for t ask the cache for, in which order; bad = the generator panics.
func c17Desc(side string, t reflect.Type) (kids []reflect.Type, bad bool) {
	isKind := func(k reflect.Kind, ks ...reflect.Kind) bool {
		for _, x := range ks {
			if x == k {
				return true
			}
		}
		return false
	}
	switch t.Kind() {
	case reflect.Bool, reflect.String, reflect.Int, reflect.Int8, reflect.Int16, reflect.Int32, reflect.Int64,
		reflect.Uint, reflect.Uint8, reflect.Uint16, reflect.Uint32, reflect.Uint64, reflect.Float32, reflect.Float64, reflect.Interface:
		return nil, false
	case reflect.Array, reflect.Slice:
		ek := t.Elem().Kind()
		if side == "iter" {
			if isKind(ek, reflect.Uint8, reflect.Uint16, reflect.Uint32, reflect.Uint64, reflect.Uint, reflect.Int8, reflect.Int16,
				reflect.Int32, reflect.Int64, reflect.Int, reflect.Float32, reflect.Float64, reflect.Bool) {
				return nil, false
			}
		} else if isKind(ek, reflect.Uint8, reflect.Uint16, reflect.Uint32, reflect.Uint64, reflect.Int8, reflect.Int16,
			reflect.Int32, reflect.Int64, reflect.Float32, reflect.Float64) {
			return nil, false
		}
		return []reflect.Type{t.Elem()}, false
	case reflect.Map:
		return []reflect.Type{t.Key(), t.Elem()}, false
	case reflect.Ptr:
		if t == reflect.TypeOf((*big.Int)(nil)) {
			return nil, false
		}
		return []reflect.Type{t.Elem()}, false
	case reflect.Struct:
		if t == reflect.TypeOf(big.Int{}) || t == reflect.TypeOf(time.Time{}) {
			return nil, false
		}
		if side == "build" {
			kids = append(kids, reflect.TypeOf(""))
		}
		var walk func(st reflect.Type)
		walk = func(st reflect.Type) {
			for i := 0; i < st.NumField(); i++ {
				f := st.Field(i)
				if f.PkgPath != "" {
					continue
				}
				if f.Anonymous {
					walk(f.Type)
				} else {
					kids = append(kids, f.Type)
				}
			}
		}
		walk(t)
		return kids, false
	}
	return nil, true // chan, func, complex, uintptr, unsafe pointer
}

// c17TypeTable numbers the types reachable from the given roots and renders the model's type table.
type c17TypeTable struct {
	side string
	ids  map[reflect.Type]int
	list []reflect.Type
}

func (tt *c17TypeTable) id(t reflect.Type) int {
	if i, ok := tt.ids[t]; ok {
		return i
	}
	i := len(tt.list)
	tt.ids[t] = i
	tt.list = append(tt.list, t)
	kids, _ := c17Desc(tt.side, t)
	for _, k := range kids {
		tt.id(k)
	}
	return i
}

func (tt *c17TypeTable) coq() string {
	rows := []string{}
	for i, t := range tt.list {
		kids, bad := c17Desc(tt.side, t)
		d := "TLeaf"
		if bad {
			d = "TBad"
		} else if len(kids) > 0 {
			ks := []string{}
			for _, k := range kids {
				ks = append(ks, cNi(tt.ids[k]))
			}
			d = "(TNode " + cList(ks) + ")"
		}
		rows = append(rows, cPair(cNi(i), d))
	}
	return cList(rows)
}

func c17IsEmpty(v reflect.Value) bool {
	switch v.Kind() {
	case reflect.Interface, reflect.Ptr:
		return v.IsNil()
	case reflect.Map, reflect.Slice:
		return v.IsNil() || v.Len() == 0
	case reflect.Array, reflect.String:
		return v.Len() == 0
	}
	return false
}

// c17Val: which of the functions obtained at generation time does using the function for v's type on v call
// (SKid i = the i-th of them), which types does it ask the cache for while running (SDyn t: interface values, iterator side only).
func c17Val(tt *c17TypeTable, v reflect.Value) string {
	t := v.Type()
	kids, _ := c17Desc(tt.side, t)
	subs := []string{}
	sub := func(i int, x reflect.Value) {
		subs = append(subs, cPair(fmt.Sprintf("SKid %d%%nat", i), c17Val(tt, x)))
	}
	switch t.Kind() {
	case reflect.Interface:
		if !v.IsNil() && tt.side == "iter" {
			subs = append(subs, cPair(fmt.Sprintf("SDyn %d", tt.id(v.Elem().Type())), c17Val(tt, v.Elem())))
		}
	case reflect.Ptr:
		if len(kids) > 0 && !v.IsNil() {
			if tt.side == "build" && c17WrittenAsNull(v.Elem()) {
				break // the pointer builder answers a null itself
			}
			sub(0, v.Elem())
		}
	case reflect.Slice, reflect.Array:
		if len(kids) > 0 {
			for i := 0; i < v.Len(); i++ {
				sub(0, v.Index(i))
			}
		}
	case reflect.Map:
		for _, k := range v.MapKeys() {
			sub(0, k)
			sub(1, v.MapIndex(k))
		}
	case reflect.Struct:
		if len(kids) > 0 {
			idx := 0
			if tt.side == "build" {
				idx = 1
			}
			var walk func(sv reflect.Value)
			walk = func(sv reflect.Value) {
				for i := 0; i < sv.NumField(); i++ {
					f := sv.Type().Field(i)
					if f.PkgPath != "" {
						continue
					}
					if f.Anonymous {
						walk(sv.Field(i))
						continue
					}
					if !c17IsEmpty(sv.Field(i)) { // default omit behaviour: empty fields are not visited
						if tt.side == "build" {
							sub(0, reflect.ValueOf("")) // the field name goes through the string builder
						}
						sub(idx, sv.Field(i))
					}
					idx++
				}
			}
			walk(v)
		}
	}
	return "(V " + cList(subs) + ")"
}

func c17WrittenAsNull(v reflect.Value) bool {
	switch v.Kind() {
	case reflect.Ptr, reflect.Interface:
		return v.IsNil() || (v.Kind() == reflect.Ptr && c17WrittenAsNull(v.Elem()))
	case reflect.Chan, reflect.Func, reflect.Complex64, reflect.Complex128, reflect.Uintptr, reflect.UnsafePointer:
		return true
	}
	return false
}

// one call of a scenario: ask the shared session for the function of Typ and use it on Val
type c17ScCall struct {
	Typ   reflect.Type
	Val   reflect.Value
	Spell int64 // builder side: not 0 = the document's keys are re-spelled (the model's prediction does not depend on the spelling)
}

type c17Obs struct {
	Class string // ok | panic | hang
	Kind  string // gen | ph | "" (not observed)
	Same  bool   // the result equals the result of the same call on a new session, run alone
}

// ---- running groups of goroutines against one session, with exact detection of calls that can never return

func c17GoID() int64 {
	buf := make([]byte, 64)
	n := runtime.Stack(buf, false)
	var id int64
	fmt.Sscanf(string(buf[:n]), "goroutine %d ", &id)
	return id
}

// c17AllParked: in one snapshot of all goroutines, is every goroutine of ids blocked in sync.WaitGroup.Wait
// called from a cache placeholder closure?  (A goroutine that has been released but has not run yet is
// "runnable", not blocked, and makes the answer false.)
func c17AllParked(ids []int64) bool {
	if len(ids) == 0 {
		return false
	}
	buf := make([]byte, 1<<20)
	for {
		n := runtime.Stack(buf, true)
		if n < len(buf) {
			buf = buf[:n]
			break
		}
		buf = make([]byte, 2*len(buf))
	}
	want := map[int64]bool{}
	for _, id := range ids {
		want[id] = true
	}
	parked := 0
	for _, block := range strings.Split(string(buf), "\n\n") {
		var id int64
		if _, err := fmt.Sscanf(block, "goroutine %d ", &id); err != nil || !want[id] {
			continue
		}
		head := block
		if i := strings.Index(block, "\n"); i > 0 {
			head = block[:i]
		}
		blocked := strings.Contains(head, "[semacquire") || strings.Contains(head, "[sync.WaitGroup.Wait")
		inPh := strings.Contains(block, "sync.(*WaitGroup).Wait") &&
			(strings.Contains(block, "GetIteratorForType.func") || strings.Contains(block, "GetBuilderGeneratorForType.func"))
		if blocked && inPh {
			parked++
		}
	}
	return parked == len(ids)
}

type c17Raw struct {
	returned bool
	kind     string
	res      c17Result
}

// c17RunGroup starts one goroutine per call list on the given sessions and waits until every goroutine has
// either finished its list or is blocked for ever (all unfinished goroutines blocked in a placeholder's Wait
// in the same snapshot: nobody is left who could release them).  timedOut: the hard limit passed first.
func c17RunGroup(side string, is *iterator.Session, bs *builder.Session, threads [][]c17ScCall) (out [][]c17Raw, timedOut bool) {
	out = make([][]c17Raw, len(threads))
	ids := make([]int64, len(threads))
	fin := make([]int32, len(threads))
	var mu sync.Mutex
	var ready sync.WaitGroup
	start := make(chan struct{})
	for i := range threads {
		ready.Add(1)
		go func(i int) {
			ids[i] = c17GoID()
			ready.Done()
			<-start
			for _, call := range threads[i] {
				var r c17Raw
				if side == "iter" {
					r.res = c17IterUseK(is, call.Typ, call.Val, &r.kind)
				} else {
					r.res = c17BuildUseSp(bs, call.Typ, call.Val, call.Spell)
				}
				r.returned = true
				mu.Lock()
				out[i] = append(out[i], r)
				mu.Unlock()
			}
			atomic.StoreInt32(&fin[i], 1)
		}(i)
	}
	ready.Wait()
	close(start)
	deadline := time.Now().Add(30 * time.Second)
	wait := 200 * time.Microsecond
	for {
		open := []int64{}
		for i := range threads {
			if atomic.LoadInt32(&fin[i]) == 0 {
				open = append(open, ids[i])
			}
		}
		if len(open) == 0 {
			break
		}
		if c17AllParked(open) {
			break
		}
		if time.Now().After(deadline) {
			timedOut = true
			break
		}
		time.Sleep(wait)
		if wait < 5*time.Millisecond {
			wait *= 2
		}
	}
	mu.Lock()
	defer mu.Unlock()
	cp := make([][]c17Raw, len(out))
	for i := range out {
		cp[i] = append([]c17Raw{}, out[i]...)
	}
	return cp, timedOut
}

// the same call on a new session, nothing else running; ok=false if even that does not return
func c17Alone(side string, call c17ScCall) (c17Result, bool) {
	cfg := configuration.New()
	out, _ := c17RunGroup(side, iterator.NewSession(nil, cfg), builder.NewSession(nil, cfg), [][]c17ScCall{{call}})
	if len(out[0]) == 0 {
		return c17Result{}, false
	}
	return out[0][0].res, true
}

// c17Classify turns what a goroutine did into the observations compared with the model.
//
//	panic = returned an error and the type cannot be generated (an unsupported kind is reached): the generator's panic
//	ok    = returned (errors of the call itself, e.g. a document that does not fit, count as results and go into Same)
//	hang  = can never return
func c17Classify(side string, calls []c17ScCall, raws []c17Raw) []c17Obs {
	obs := []c17Obs{}
	for k, call := range calls {
		if k >= len(raws) {
			obs = append(obs, c17Obs{Class: "hang"})
			break
		}
		alone, ok := c17Alone(side, call)
		_, bad := c17ReachesBad(side, call.Typ)
		o := c17Obs{Class: "ok", Kind: raws[k].kind, Same: ok && raws[k].res.same(alone)}
		if raws[k].res.Err && bad {
			// the generator's error (now or replayed by a placeholder): what was written / built before the
			// error is not a result, only "it is an error" is compared
			o.Class = "panic"
			o.Same = ok && alone.Err
		}
		obs = append(obs, o)
	}
	return obs
}

func (o c17Obs) coq() string {
	k := "None"
	switch o.Kind {
	case "gen":
		k = "(Some false)"
	case "ph":
		k = "(Some true)"
	}
	switch o.Class {
	case "ok":
		return cApp("OOk", k, cBool(o.Same))
	case "panic":
		return cApp("OPanic", cBool(o.Same))
	}
	return "OHang"
}

func c17JobsCoq(tt *c17TypeTable, calls []c17ScCall) string {
	js := []string{}
	for _, c := range calls {
		js = append(js, cPair(cNi(tt.id(c.Typ)), c17Val(tt, c.Val)))
	}
	return cList(js)
}

func c17ObsCoq(os []c17Obs) string {
	xs := []string{}
	for _, o := range os {
		xs = append(xs, o.coq())
	}
	return cList(xs)
}

func c17Filled(r *rand.Rand, t reflect.Type, depth int) reflect.Value {
	p := reflect.New(t)
	c17Fill(r, p.Elem(), depth)
	return p.Elem()
}

// a fully populated value (every pointer set down to the depth), so that every function obtained at generation is used
func c17Full(t reflect.Type, depth int) reflect.Value {
	v := reflect.New(t).Elem()
	var fill func(rv reflect.Value, d int)
	fill = func(rv reflect.Value, d int) {
		switch rv.Kind() {
		case reflect.Ptr:
			if rv.Type() == reflect.TypeOf((*big.Int)(nil)) {
				rv.Set(reflect.ValueOf(big.NewInt(5)))
			} else if d > 0 {
				p := reflect.New(rv.Type().Elem())
				fill(p.Elem(), d-1)
				rv.Set(p)
			}
		case reflect.Slice:
			if d > 0 {
				s := reflect.MakeSlice(rv.Type(), 1, 1)
				fill(s.Index(0), d-1)
				rv.Set(s)
			}
		case reflect.Array:
			for i := 0; i < rv.Len(); i++ {
				fill(rv.Index(i), d-1)
			}
		case reflect.Struct:
			for i := 0; i < rv.NumField(); i++ {
				if rv.Field(i).CanSet() {
					fill(rv.Field(i), d-1)
				}
			}
		case reflect.String:
			rv.SetString("s")
		case reflect.Int, reflect.Int8, reflect.Int16, reflect.Int32, reflect.Int64:
			rv.SetInt(1)
		}
	}
	fill(v, depth)
	return v
}

var c17BadTypes = []reflect.Type{
	reflect.TypeOf(c17BadChan{}), reflect.TypeOf(c17BadFunc{}), reflect.TypeOf(c17BadCplx{}), reflect.TypeOf(c17HoldsBad{}),
	reflect.TypeOf(c17HoldsBadSlice{}), reflect.TypeOf([]c17BadChan{}), reflect.TypeOf(map[string]*c17BadFunc{}),
	reflect.TypeOf(make(chan int)), reflect.TypeOf(complex64(0)), reflect.TypeOf(&c17HoldsBad{}),
	reflect.TypeOf(c17RecBad{}), reflect.TypeOf(c17RecBad2{}),
}

// c17SeqScenario: the calls run one after the other on one new session (each waits for the previous one to
// return or to be blocked for ever; a blocked one is left behind).
func c17SeqScenario(c *Ctx, cf *caseFile, side string, calls []c17ScCall, label string) []c17Obs {
	cfg := configuration.New()
	is, bs := iterator.NewSession(nil, cfg), builder.NewSession(nil, cfg)
	obs := []c17Obs{}
	for _, call := range calls {
		raw, timedOut := c17RunGroup(side, is, bs, [][]c17ScCall{{call}})
		if timedOut {
			c.Fail(Replay{Kind: "scenario", Key: "C17/scenario-time-limit", Input: map[string]string{"side": side, "scenario": label, "type": call.Typ.String()},
				Expect: "the call returns or blocks", Got: "still running after 30 s"})
		}
		obs = append(obs, c17Classify(side, []c17ScCall{call}, raw[0])...)
	}
	tt := &c17TypeTable{side: side, ids: map[reflect.Type]int{}}
	jobs := c17JobsCoq(tt, calls)
	names := []string{}
	for i, call := range calls {
		names = append(names, fmt.Sprintf("%s=>%s/%s/same=%v", call.Typ.String(), obs[i].Class, obs[i].Kind, obs[i].Same))
	}
	cf.Add(cApp("SeqCase", tt.coq(), jobs, c17ObsCoq(obs)), fmt.Sprintf("seq %s %s: %s", side, label, strings.Join(names, " ; ")))
	return obs
}

// c17ConcScenario: one goroutine per call list, all started together on one new session.
func c17ConcScenario(c *Ctx, cf *caseFile, side string, threads [][]c17ScCall, procs int, label string) [][]c17Obs {
	old := runtime.GOMAXPROCS(procs)
	cfg := configuration.New()
	raw, timedOut := c17RunGroup(side, iterator.NewSession(nil, cfg), builder.NewSession(nil, cfg), threads)
	runtime.GOMAXPROCS(old)
	if timedOut {
		c.Fail(Replay{Kind: "scenario", Key: "C17/scenario-time-limit", Input: map[string]string{"side": side, "scenario": label},
			Expect: "every goroutine finishes or blocks", Got: "still running after 30 s"})
	}
	obs := make([][]c17Obs, len(threads))
	tt := &c17TypeTable{side: side, ids: map[reflect.Type]int{}}
	ths, oss, names := []string{}, []string{}, []string{}
	for i, th := range threads {
		obs[i] = c17Classify(side, th, raw[i])
	}
	// The goroutines of a group have no order (all are started together), the model's search for a schedule has: it
	// tries the first thread first.  Threads that were handed generated functions only are listed before those that were
	// handed placeholders (fewest first), so that the schedule is found without exhausting the schedules in which a
	// placeholder observer moves first (the same case, much less search).
	order := make([]int, len(threads))
	rank := func(i int) int { // how many of its calls were handed a placeholder
		n := 0
		for _, o := range obs[i] {
			if o.Kind == "ph" {
				n++
			}
		}
		return n
	}
	for i := range order {
		order[i] = i
	}
	sort.SliceStable(order, func(a, b int) bool { return rank(order[a]) < rank(order[b]) })
	for _, i := range order {
		th := threads[i]
		ths = append(ths, c17JobsCoq(tt, th))
		oss = append(oss, c17ObsCoq(obs[i]))
		for k, o := range obs[i] {
			names = append(names, fmt.Sprintf("g%d:%s=>%s/%s/same=%v", i, th[k].Typ.String(), o.Class, o.Kind, o.Same))
		}
	}
	cf.Add(cApp("ConcCase", tt.coq(), cList(ths), cList(oss)), fmt.Sprintf("conc %s %s procs=%d: %s", side, label, procs, strings.Join(names, " ; ")))
	return obs
}

// ---------------------------------------------------------------------------

func c17FailMismatches(c *Ctx, rep c17WorkloadReport, how string) {
	for _, m := range rep.Mismatches {
		key := fmt.Sprintf("C17/differs-from-alone/%s/%s", rep.Mode, m.Op)
		if m.Key != "" {
			key = m.Key
		}
		c.Fail(Replay{Kind: "workload", Key: key,
			Input: map[string]string{"seed": fmt.Sprint(rep.Seed), "goroutines": fmt.Sprint(rep.Goroutines), "gomaxprocs": fmt.Sprint(rep.Procs),
				"mode": rep.Mode, "how": how, "type": m.Type, "goroutine": fmt.Sprint(m.Goroutine), "item": fmt.Sprint(m.Item)},
			Expect: m.Expect, Got: m.Got})
	}
	if rep.Hung {
		c.Fail(Replay{Kind: "workload", Key: fmt.Sprintf("C17/never-returns/%s", rep.Mode),
			Input:  map[string]string{"seed": fmt.Sprint(rep.Seed), "goroutines": fmt.Sprint(rep.Goroutines), "gomaxprocs": fmt.Sprint(rep.Procs), "mode": rep.Mode, "how": how},
			Expect: "all goroutines finish", Got: "workload still running after the time limit"})
	}
}

func c17RunRaceBinary(bin string, seed int64, g, procs int, mode string, nItems, callsPer int) (out string, rc int, err error) {
	return c17RunChild(bin, 1500*time.Second, c17WorkerArgs(c17Combo{g, procs, mode, nItems, callsPer}, seed)...)
}

// c17RunChild runs a hidden sub-command of a harness binary as a process of its own.  Everything that uses shared
// library objects from several goroutines runs this way: a `fatal error: concurrent map read and map write` ends
// the process it happens in, and must end up in the report as a failure, not as a harness breakdown.
func c17RunChild(bin string, limit time.Duration, args ...string) (out string, rc int, err error) {
	cmd := exec.Command(bin, args...)
	cmd.Env = append(os.Environ(), "GORACE=halt_on_error=0 exitcode=66")
	var buf bytes.Buffer
	cmd.Stdout, cmd.Stderr = &buf, &buf
	if e := cmd.Start(); e != nil {
		return "", -1, e
	}
	done := make(chan error, 1)
	go func() { done <- cmd.Wait() }()
	select {
	case e := <-done:
		rc = 0
		if e != nil {
			rc = -1
			if ee, ok := e.(*exec.ExitError); ok {
				rc = ee.ExitCode()
			}
		}
	case <-time.After(limit):
		cmd.Process.Kill()
		rc = 124
	}
	return buf.String(), rc, nil
}

// c17CrashKey names the way a child process ended when it did not end by itself
func c17CrashKey(where, out string, rc int) string {
	if strings.Contains(out, "fatal error: ") {
		// the runtime's message; lines of several goroutines (and of the race detector) can be interleaved with it
		for _, known := range []string{"concurrent map read and map write", "concurrent map writes", "concurrent map iteration and map write",
			"all goroutines are asleep", "stack overflow", "out of memory"} {
			if strings.Contains(out, "fatal error: "+known) {
				return "C17/process-crash/" + where + "/" + strings.ReplaceAll(known, " ", "-")
			}
		}
		return "C17/process-crash/" + where + "/fatal-error"
	}
	if rc == 124 {
		return "C17/never-returns/" + where
	}
	return "C17/worker-died/" + where
}

type c17Combo struct {
	g, procs int
	mode     string
	a, b     int // items and calls per goroutine (workload modes), rounds and steps (session storms); unused for caches
}

// c17Account turns what one worker process printed into evaluations and failures
func c17Account(c *Ctx, cb c17Combo, seed int64, how, out string, rc int) {
	c.Dist(fmt.Sprintf("%s/%s/g=%d/procs=%d", how, cb.mode, cb.g, cb.procs))
	input := map[string]string{"seed": fmt.Sprint(seed), "goroutines": fmt.Sprint(cb.g), "gomaxprocs": fmt.Sprint(cb.procs), "mode": cb.mode, "how": how,
		"items": fmt.Sprint(cb.a), "calls": fmt.Sprint(cb.b)}
	nRaces := strings.Count(out, "WARNING: DATA RACE")
	if nRaces > 0 {
		c.Fail(Replay{Kind: "race", Key: "C17/data-race/" + cb.mode + "/" + c17RaceSite(out), Input: input,
			Expect: "no data race report", Got: fmt.Sprintf("%d reports; first: %s", nRaces, c17FirstRace(out))})
	}
	var rep c17WorkloadReport
	parsed := false
	for _, line := range strings.Split(out, "\n") {
		if strings.HasPrefix(line, "{") && json.Unmarshal([]byte(line), &rep) == nil {
			parsed = true
		}
	}
	if parsed {
		for k := 0; k < rep.Calls; k++ {
			c.Count(fmt.Sprintf("%s/%s/%d/%d/%d/%d", how, cb.mode, cb.g, cb.procs, seed, k), true)
		}
		for op, n := range rep.OpsCount {
			c.Rep.Distribution[how+"/"+cb.mode+"/"+op] += n
		}
		c17FailMismatches(c, rep, how)
		c17AloneHangs = append(c17AloneHangs, rep.AloneHangs...)
		c.Sample(map[string]string{"where": how, "mode": cb.mode, "goroutines": fmt.Sprint(cb.g), "gomaxprocs": fmt.Sprint(cb.procs),
			"seed": fmt.Sprint(seed), "calls": fmt.Sprint(rep.Calls), "mismatches": fmt.Sprint(len(rep.Mismatches))})
	}
	if (rc != 0 && rc != 3 && rc != 4 && !(rc == 66 && nRaces > 0)) || !parsed {
		tail := out
		if i := strings.Index(out, "fatal error: "); i >= 0 {
			tail = out[i:]
			if len(tail) > 1500 {
				tail = tail[:1500]
			}
		} else if len(tail) > 800 {
			tail = tail[len(tail)-800:]
		}
		kind := "workload"
		if how == "race-build" {
			kind = "race"
		}
		c.Fail(Replay{Kind: kind, Key: c17CrashKey(cb.mode, out, rc), Input: input, Expect: "the worker process runs all its calls and exits with 0",
			Got: fmt.Sprintf("exit %d: %s", rc, tail)})
	}
}

func c17WorkerArgs(cb c17Combo, seed int64) []string {
	return []string{"c17worker", fmt.Sprint(seed), fmt.Sprint(cb.g), fmt.Sprint(cb.procs), cb.mode, fmt.Sprint(cb.a), fmt.Sprint(cb.b)}
}

// c17RunCombos runs the worker processes (at most 4 at a time) and accounts for them in order
func c17RunCombos(c *Ctx, bin, how string, combos []c17Combo) (runs int) {
	type res struct {
		seed int64
		out  string
		rc   int
		err  error
	}
	outs := make([]res, len(combos))
	for i := range combos {
		outs[i].seed = c.Rng.Int63n(1 << 40)
	}
	sem := make(chan struct{}, 4)
	var wg sync.WaitGroup
	for i, cb := range combos {
		wg.Add(1)
		go func(i int, cb c17Combo) {
			defer wg.Done()
			sem <- struct{}{}
			defer func() { <-sem }()
			outs[i].out, outs[i].rc, outs[i].err = c17RunChild(bin, 1500*time.Second, c17WorkerArgs(cb, outs[i].seed)...)
		}(i, cb)
	}
	wg.Wait()
	for i, cb := range combos {
		if outs[i].err != nil {
			c.Rep.Extra[how+"_binary_error"] = outs[i].err.Error()
			break
		}
		runs++
		c17Account(c, cb, outs[i].seed, how, outs[i].out, outs[i].rc)
	}
	return runs
}

func runC17(c *Ctx) {
	c.Rep.Rule = "workloads: (mode in separate|fresh|shared|shared-cold|conversions|caches|lazy|sessions-{one,children-after,children-during,chain}) x goroutine counts x GOMAXPROCS values, " +
		"each in a process of its own (plain build and race-detector build); every call of every goroutine is one evaluation, " +
		"compared with the same call run alone on new instances; a call is non-trivial when its item has a struct/container type that the package-level root sessions do not hold " +
		"(so the per-session cache is cold on first use); documents to unmarshal carry keys in every accepted spelling and numbers in every source form; " +
		"distinct = distinct (mode, goroutines, gomaxprocs, seed, call). Scenarios: sequences and concurrent groups of " +
		"GetIteratorForType/GetBuilderGeneratorForType + use on one new session, including unsupported element kinds (chan, func, complex) and recursive types; " +
		"each scenario is one Coq case (model must predict ok/error/never-returns and placeholder-or-generated exactly for sequences, and reach the observed outcome under some schedule for concurrent groups)"
	self, err := os.Executable()
	if err != nil {
		panic(err)
	}

	// ---- 1. workloads in worker processes of the plain build (no race detector): every result against the
	// run-alone result; a process that dies of a runtime fatal error is a failure
	combos := []c17Combo{}
	nItems, callsPer := c.Pick(24, 40), c.Pick(24, 80)
	for _, mode := range append(append([]string{}, c17Modes...), "caches") {
		for _, gp := range [][2]int{{2, 1}, {4, 2}, {8, 4}, {16, 8}, {32, 16}} {
			combos = append(combos, c17Combo{gp[0], gp[1], mode, nItems, callsPer})
		}
	}
	for _, topo := range c17Topologies {
		for _, gp := range [][2]int{{3, 2}, {8, 4}, {4, 4}, {16, 8}, {32, 16}} {
			combos = append(combos, c17Combo{gp[0], gp[1], "sessions-" + topo, c.Pick(3, 6), c.Pick(40, 120)})
		}
	}
	// the lazy mode's documents grow with every step (integer keys of ever new widths); 32 goroutines x 90 steps
	// took over 25 minutes in the race build next to the other workers, so the thorough tier stops at 16 x 32
	for _, gp := range [][2]int{{3, 2}, {8, 4}, {4, 4}, {16, 8}} {
		combos = append(combos, c17Combo{gp[0], gp[1], "lazy", c.Pick(1, 2), c.Pick(10, 16)})
	}
	allCombos := combos
	if !c.Thorough() {
		// quick: one small and one large combination per mode
		keep := []c17Combo{}
		for i, cb := range combos {
			if i%5 == 1 || i%5 == 3 {
				keep = append(keep, cb)
			}
		}
		combos = keep
	}
	c.Rep.Extra["plain_worker_runs"] = c17RunCombos(c, self, "child-process", combos)

	// ---- 2. the same workloads inside the race-detector build
	raceBin := os.Getenv("VERIF_VH_RACE")
	raceRuns := 0
	c.Rep.Extra["race_binary"] = raceBin
	if raceBin != "" {
		if _, err := os.Stat(raceBin); err != nil {
			c.Rep.Extra["race_binary_error"] = err.Error()
			raceBin = ""
		}
	}
	if raceBin != "" {
		// is the detector really on in that binary?
		out, _, err := c17RunChild(raceBin, 120*time.Second, "c17worker", "1", "2", "2", "selftest-race", "0", "0")
		selfOK := err == nil && strings.Contains(out, "WARNING: DATA RACE")
		c.Rep.Extra["race_detector_selftest_reports_seeded_race"] = selfOK
		if !selfOK {
			c.Rep.Extra["race_binary_error"] = "the binary does not report a deliberate data race: not a -race build"
			raceBin = ""
		}
	}
	if raceBin != "" {
		rcombos := []c17Combo{{8, 4, "separate", 14, 12}, {8, 4, "fresh", 14, 12}, {8, 4, "conversions", 16, 24}, {8, 2, "shared", 14, 12}, {16, 8, "shared-cold", 14, 12}, {16, 8, "caches", 0, 0},
			{8, 4, "sessions-one", 2, 24}, {6, 4, "sessions-children-after", 2, 24}, {8, 8, "sessions-children-during", 2, 24}, {6, 2, "sessions-chain", 2, 24}, {8, 4, "lazy", 1, 8}}
		if c.Thorough() {
			rcombos = []c17Combo{}
			for _, cb := range allCombos {
				if strings.HasPrefix(cb.mode, "sessions-") {
					cb.a, cb.b = 3, 60
				} else if cb.mode == "lazy" {
					cb.a, cb.b = 1, 16
				} else {
					cb.a, cb.b = 24, 40
				}
				rcombos = append(rcombos, cb)
			}
		}
		raceRuns = c17RunCombos(c, raceBin, "race-build", rcombos)
	}
	c.Rep.Extra["race_detector_runs"] = raceRuns
	c.Rep.Extra["race_detector_used"] = raceRuns > 0

	// ---- 3. scenarios on the caches, mirrored by the Coq model: in a process of their own as well (they run groups
	// of goroutines on one session); that process writes the case files and its part of the report
	part := filepath.Join(c.Out, "c17_scenarios.json")
	os.Remove(part)
	out, rc, err := c17RunChild(self, time.Duration(c.Pick(800, 3000))*time.Second, "c17scenarios", c.Tier, fmt.Sprint(c.Seed), c.Out)
	var sub Report
	b, rerr := ioutil.ReadFile(part)
	if err == nil && rc == 0 && rerr == nil && json.Unmarshal(b, &sub) == nil {
		c.Rep.Evaluations += sub.Evaluations
		c.Rep.Distinct += sub.Distinct
		for k, n := range sub.Distribution {
			if !strings.HasPrefix(k, "fail:") {
				c.Rep.Distribution[k] += n
			}
		}
		merged := map[string]bool{}
		for _, f := range sub.Failures {
			c.Rep.Failures = append(c.Rep.Failures, f)
			if !merged[f.Key] {
				merged[f.Key] = true
				c.failed[f.Key] += sub.Distribution["fail:"+f.Key]
			}
		}
		c.Rep.CaseFiles = append(c.Rep.CaseFiles, sub.CaseFiles...)
		c.Rep.CaseCount += sub.CaseCount
		if hs, ok := sub.Extra["calls_that_do_not_return_even_alone_excluded"].([]interface{}); ok {
			for _, h := range hs {
				c17AloneHangs = append(c17AloneHangs, fmt.Sprint(h))
			}
		}
	} else {
		tail := out
		if i := strings.Index(out, "fatal error: "); i >= 0 {
			tail = out[i:]
		}
		if len(tail) > 1500 {
			tail = tail[:1500]
		}
		c.Fail(Replay{Kind: "scenario-process", Key: c17CrashKey("scenarios", out, rc), Input: map[string]string{"tier": c.Tier, "seed": fmt.Sprint(c.Seed)},
			Expect: "the scenario process runs all scenarios and exits with 0", Got: fmt.Sprintf("exit %d (%v): %s", rc, err, tail)})
	}
	os.Remove(part)
	if len(c17AloneHangs) > 0 {
		c.Rep.Extra["calls_that_do_not_return_even_alone_excluded"] = c17AloneHangs
	}
}

// c17ScenariosMain: `vh c17scenarios <tier> <seed> <outdir>` — part 3 of the check as a process of its own.
// It leaves the case files in outdir and its part of the report in outdir/c17_scenarios.json.
func c17ScenariosMain(args []string) int {
	if len(args) != 3 {
		fmt.Fprintln(os.Stderr, "usage: vh c17scenarios <tier> <seed> <outdir>")
		return 2
	}
	seed, _ := strconv.ParseInt(args[1], 10, 64)
	c := newCtx("C17", args[0], seed, args[2])
	c.Rng = rand.New(rand.NewSource(seed*7919 + 17))
	c17Scenarios(c, c.Cases("cache", "CE.Model.Cache", "cache_case", "cache_case_ok"))
	if len(c17AloneHangs) > 0 {
		c.Rep.Extra["calls_that_do_not_return_even_alone_excluded"] = c17AloneHangs
	}
	c.finish()
	if err := os.Rename(filepath.Join(c.Out, "report.json"), filepath.Join(c.Out, "c17_scenarios.json")); err != nil {
		fmt.Fprintln(os.Stderr, err)
		return 1
	}
	return 0
}

func c17RaceSite(out string) string {
	// first frame below the "Write at" / "Previous write" line of the first report, reduced to function name
	i := strings.Index(out, "WARNING: DATA RACE")
	if i < 0 {
		return "none"
	}
	for _, line := range strings.Split(out[i:], "\n")[1:] {
		line = strings.TrimSpace(line)
		if strings.HasPrefix(line, "github.com/kstenerud/go-concise-encoding/") {
			f := strings.TrimPrefix(line, "github.com/kstenerud/go-concise-encoding/")
			if j := strings.Index(f, "("); j > 0 && !strings.HasPrefix(f[j:], "(*") {
				f = f[:j]
			}
			f = strings.Map(func(r rune) rune {
				if r == '(' || r == ')' || r == '*' {
					return -1
				}
				return r
			}, f)
			return strings.Fields(f)[0]
		}
	}
	return "unknown"
}

func c17FirstRace(out string) string {
	i := strings.Index(out, "WARNING: DATA RACE")
	s := out[i:]
	if j := strings.Index(s, "=================="); j > 0 {
		s = s[:j]
	}
	if len(s) > 1500 {
		s = s[:1500]
	}
	return s
}

func c17Scenarios(c *Ctx, cf *caseFile) {
	r := c.Rng
	good := append([]reflect.Type{}, c17StaticTypes...)
	good = append(good, c17DynTypes(r, c.Pick(12, 40), fmt.Sprintf("sc-%d", c.Seed))...)
	pickCall := func(pool []reflect.Type, full bool) c17ScCall {
		var call c17ScCall
		for try := 0; try < 10; try++ {
			t := pool[r.Intn(len(pool))]
			if try == 9 {
				t = c17StaticTypes[r.Intn(len(c17StaticTypes))]
			}
			spell := int64(0)
			if r.Intn(2) == 0 {
				spell = 1 + r.Int63n(1<<40)
			}
			if full {
				call = c17ScCall{Typ: t, Val: c17Full(t, 3), Spell: spell}
			} else {
				call = c17ScCall{Typ: t, Val: c17Filled(r, t, 3), Spell: spell}
			}
			// types made at run time nest each other: now and then a value is huge (a Coq term of several hundred
			// kilobytes for one call). Such a call is drawn again: the case files stay small enough to be evaluated in seconds.
			big := false
			for _, side := range []string{"iter", "build"} {
				tt := &c17TypeTable{side: side, ids: map[reflect.Type]int{}}
				big = big || len(c17JobsCoq(tt, []c17ScCall{call}))+len(tt.coq()) > 12000
			}
			if !big {
				break
			}
		}
		return call
	}
	check := func(side, label string, calls []c17ScCall, obs []c17Obs, conc bool) {
		for i, o := range obs {
			_, bad := c17ReachesBad(side, calls[i].Typ)
			c.Count(fmt.Sprintf("sc/%s/%s/%d/%s", side, label, i, calls[i].Typ), true)
			c.Dist(fmt.Sprintf("scenario/%s/%s/%s", side, map[bool]string{false: "seq", true: "conc"}[conc], o.Class))
			if o.Kind != "" {
				c.Dist(fmt.Sprintf("scenario/%s/handed-out=%s", side, o.Kind))
			}
			in := map[string]string{"side": side, "scenario": label, "call": fmt.Sprint(i), "type": calls[i].Typ.String(),
				"after": calls[0].Typ.String(), "empty_value": fmt.Sprint(calls[i].Val.IsZero())}
			what := "marshal"
			if side == "build" {
				what = "unmarshal"
			}
			switch {
			case o.Class == "hang":
				// run alone, the same call returns (an error for unsupported types): never returning differs from it
				k := "C17/never-returns-after-failed-first-use/" + what
				if !bad {
					k = "C17/never-returns/" + what
				}
				c.Fail(Replay{Kind: "scenario", Key: k, Input: in, Expect: "the call returns what it returns when run alone", Got: "the call never returns (placeholder left in the cache by a failed generation; its WaitGroup is never released)"})
			case !o.Same:
				k := "C17/result-changes-after-failed-first-use/" + what
				if !bad {
					k = "C17/differs-from-alone/cache-scenario/" + what
				}
				c.Fail(Replay{Kind: "scenario", Key: k, Input: in, Expect: "same as run alone", Got: o.Class + " (run alone: the other outcome or another result)"})
			}
		}
	}
	for _, side := range []string{"iter", "build"} {
		// (a) sequences over supported types, random and fully populated values, repeats included
		for n := 0; n < c.Pick(60, 400); n++ {
			calls := []c17ScCall{}
			for k := 0; k < 1+r.Intn(4); k++ {
				calls = append(calls, pickCall(good, r.Intn(3) == 0))
				if r.Intn(3) == 0 {
					calls = append(calls, calls[r.Intn(len(calls))])
				}
			}
			label := fmt.Sprintf("good-%d", n)
			check(side, label, calls, c17SeqScenario(c, cf, side, calls, label), false)
		}
		// (b) sequences with unsupported element kinds: first use fails; what do later calls do
		bn := 0
		for _, bt := range c17BadTypes {
			for variant := 0; variant < 3; variant++ {
				var calls []c17ScCall
				switch variant {
				case 0: // the same call twice
					calls = []c17ScCall{{Typ: bt, Val: c17Full(bt, 3)}, {Typ: bt, Val: c17Full(bt, 3)}}
				case 1: // a supported call in between and a holder of the bad type after
					calls = []c17ScCall{{Typ: bt, Val: c17Full(bt, 3)}, pickCall(good, false), {Typ: reflect.PtrTo(bt), Val: c17Full(reflect.PtrTo(bt), 3)}, {Typ: reflect.SliceOf(bt), Val: reflect.New(reflect.SliceOf(bt)).Elem()}}
				case 2: // holder first (empty value: nothing of the bad type is visited), then the bad type
					calls = []c17ScCall{{Typ: reflect.SliceOf(bt), Val: reflect.New(reflect.SliceOf(bt)).Elem()}, {Typ: bt, Val: c17Full(bt, 3)}, {Typ: reflect.SliceOf(bt), Val: c17Full(reflect.SliceOf(bt), 2)}}
				}
				label := fmt.Sprintf("bad-%d", bn)
				bn++
				check(side, label, calls, c17SeqScenario(c, cf, side, calls, label), false)
			}
		}
		// (b2) pinned: the recursive pair with an unsupported field. After the failed first use of c17RecBad the
		// cache keeps generated functions that captured its placeholder.
		{
			rb, rb2 := reflect.TypeOf(c17RecBad{}), reflect.TypeOf(c17RecBad2{})
			for variant := 0; variant < 3; variant++ {
				var calls []c17ScCall
				switch variant {
				case 0:
					calls = []c17ScCall{{Typ: rb, Val: c17Full(rb, 0)}, {Typ: rb2, Val: reflect.New(rb2).Elem()}, {Typ: rb2, Val: c17Full(rb2, 2)}, {Typ: rb, Val: c17Full(rb, 0)}}
				case 1:
					calls = []c17ScCall{{Typ: rb2, Val: reflect.New(rb2).Elem()}, {Typ: rb2, Val: reflect.New(rb2).Elem()}, {Typ: rb, Val: c17Full(rb, 0)}}
				case 2:
					calls = []c17ScCall{{Typ: rb, Val: c17Full(rb, 0)}, {Typ: reflect.PtrTo(rb2), Val: c17Full(reflect.PtrTo(rb2), 1)}, {Typ: reflect.SliceOf(rb), Val: reflect.New(reflect.SliceOf(rb)).Elem()}}
				}
				label := fmt.Sprintf("recbad-%d", variant)
				check(side, label, calls, c17SeqScenario(c, cf, side, calls, label), false)
			}
		}
		// (c) concurrent groups on supported types: 2..3 goroutines, 1..2 calls each, same cold types.
		// The model explores every schedule of these, so the types are kept small (few cache requests).
		small, tiny := []reflect.Type{}, []reflect.Type{}
		for _, t := range good {
			if n := c17GenSize(side, t); n <= 7 {
				small = append(small, t)
				if n <= 2 {
					tiny = append(tiny, t)
				}
			}
		}
		small = append(small, reflect.TypeOf([]c17Inner{}), reflect.TypeOf(c17List{}), reflect.TypeOf(&c17List{}))
		tiny = append(tiny, reflect.TypeOf(c17Inner{}), reflect.TypeOf([]string{}), reflect.TypeOf(0))
		for n := 0; n < c.Pick(40, 300); n++ {
			ng, pool := 2, small
			if r.Intn(4) == 0 {
				ng, pool = 3, tiny
			}
			first := pickCall(pool, true)
			threads := [][]c17ScCall{}
			for g := 0; g < ng; g++ {
				th := []c17ScCall{first}
				if r.Intn(3) == 0 {
					th = []c17ScCall{pickCall(pool, false)}
				}
				if ng == 2 && r.Intn(3) == 0 {
					th = append(th, first)
				}
				threads = append(threads, th)
			}
			label := fmt.Sprintf("conc-%d", n)
			obs := c17ConcScenario(c, cf, side, threads, []int{1, 2, 4, 8}[r.Intn(4)], label)
			for g := range threads {
				check(side, fmt.Sprintf("%s-g%d", label, g), threads[g][:len(obs[g])], obs[g], true)
			}
		}
		// (d) concurrent groups racing on an unsupported type
		for n := 0; n < c.Pick(6, 40); n++ {
			bt := c17BadTypes[r.Intn(5)]
			threads := [][]c17ScCall{{{Typ: bt, Val: c17Full(bt, 3)}}, {{Typ: bt, Val: c17Full(bt, 3)}}}
			if n%3 == 2 {
				// the other goroutine asks for a holder of the unsupported type with an empty value
				bt = c17BadTypes[r.Intn(3)]
				threads = [][]c17ScCall{{{Typ: bt, Val: c17Full(bt, 3)}}, {{Typ: reflect.SliceOf(bt), Val: reflect.New(reflect.SliceOf(bt)).Elem()}}}
			}
			label := fmt.Sprintf("conc-bad-%d", n)
			obs := c17ConcScenario(c, cf, side, threads, []int{1, 2, 4}[r.Intn(3)], label)
			for g := range threads {
				check(side, fmt.Sprintf("%s-g%d", label, g), threads[g][:len(obs[g])], obs[g], true)
			}
		}
	}
}

// how many cache requests does the first use of t make on a new session (a type met again while it is being generated counts once)
func c17GenSize(side string, t reflect.Type) int {
	seen := map[reflect.Type]bool{}
	var walk func(t reflect.Type) int
	walk = func(t reflect.Type) int {
		if seen[t] {
			return 1
		}
		seen[t] = true
		kids, _ := c17Desc(side, t)
		n := 1
		for _, k := range kids {
			n += walk(k)
		}
		return n
	}
	return walk(t)
}

// does generating the function for t reach an unsupported type
func c17ReachesBad(side string, t reflect.Type) (reflect.Type, bool) {
	seen := map[reflect.Type]bool{}
	var walk func(t reflect.Type) (reflect.Type, bool)
	walk = func(t reflect.Type) (reflect.Type, bool) {
		if seen[t] {
			return nil, false
		}
		seen[t] = true
		kids, bad := c17Desc(side, t)
		if bad {
			return t, true
		}
		for _, k := range kids {
			if b, ok := walk(k); ok {
				return b, true
			}
		}
		return nil, false
	}
	return walk(t)
}

// ---------------------------------------------------------------------------

func c17TypeByName(name string) (reflect.Type, bool) {
	all := append(append([]reflect.Type{}, c17StaticTypes...), c17BadTypes...)
	for _, t := range all {
		for _, u := range []reflect.Type{t, reflect.PtrTo(t), reflect.SliceOf(t)} {
			if u.String() == name {
				return u, true
			}
		}
	}
	return nil, false
}

func replayC17(r *Replay) (bool, string) {
	atoi := func(k string) int { n, _ := strconv.Atoi(r.Input[k]); return n }
	switch r.Kind {
	case "workload", "race":
		// the same worker process again (schedules vary between runs: a pass does not show that the failure is gone)
		seed, _ := strconv.ParseInt(r.Input["seed"], 10, 64)
		bin, err := os.Executable()
		if err != nil {
			return false, err.Error()
		}
		if r.Input["how"] == "race-build" {
			if bin = os.Getenv("VERIF_VH_RACE"); bin == "" {
				return false, "VERIF_VH_RACE (path of the race-detector build of vh) is not set"
			}
		}
		items, calls := atoi("items"), atoi("calls")
		if items == 0 && r.Input["mode"] != "caches" {
			items, calls = 16, 24
		}
		out, rc, err := c17RunChild(bin, 1500*time.Second, c17WorkerArgs(c17Combo{atoi("goroutines"), atoi("gomaxprocs"), r.Input["mode"], items, calls}, seed)...)
		if err != nil {
			return false, "cannot run " + bin + ": " + err.Error()
		}
		n := strings.Count(out, "WARNING: DATA RACE")
		var rep c17WorkloadReport
		for _, line := range strings.Split(out, "\n") {
			if strings.HasPrefix(line, "{") {
				json.Unmarshal([]byte(line), &rep)
			}
		}
		keys := []string{}
		for _, m := range rep.Mismatches {
			keys = append(keys, m.Op+" "+m.Type)
		}
		sort.Strings(keys)
		how := ""
		if rc != 0 && rc != 3 && rc != 4 && rc != 66 {
			how = " (" + c17CrashKey(r.Input["mode"], out, rc) + ")"
		}
		return rc == 0 && n == 0, fmt.Sprintf("worker process (%s) exit %d%s, %d data race reports, %d calls, %d results differ from run-alone %v, hung=%v",
			r.Input["how"], rc, how, n, rep.Calls, len(rep.Mismatches), keys, rep.Hung)
	case "scenario-process":
		bin, err := os.Executable()
		if err != nil {
			return false, err.Error()
		}
		dir, err := ioutil.TempDir("", "c17replay")
		if err != nil {
			return false, err.Error()
		}
		defer os.RemoveAll(dir)
		out, rc, _ := c17RunChild(bin, 3000*time.Second, "c17scenarios", r.Input["tier"], r.Input["seed"], dir)
		how := ""
		if rc != 0 {
			how = " (" + c17CrashKey("scenarios", out, rc) + ")"
		}
		return rc == 0, fmt.Sprintf("scenario process exit %d%s", rc, how)
	case "scenario":
		// the recorded class of failure: a call on a type whose first use failed. Re-run the minimal form: the same call twice on one session.
		t, ok := c17TypeByName(r.Input["type"])
		if !ok {
			return false, "type " + r.Input["type"] + " is not one of the harness's named types; re-run the check with the same seed"
		}
		side := r.Input["side"]
		cfg := configuration.New()
		is, bs := iterator.NewSession(nil, cfg), builder.NewSession(nil, cfg)
		// first the call that opened the recorded scenario (by default the same type), then the recorded call
		first := t
		if a, ok := c17TypeByName(r.Input["after"]); ok {
			first = a
		}
		call1 := c17ScCall{Typ: first, Val: c17Full(first, 3)}
		call2 := c17ScCall{Typ: t, Val: c17Full(t, 3)}
		if r.Input["empty_value"] == "true" {
			call2.Val = reflect.New(t).Elem()
		}
		r1, _ := c17RunGroup(side, is, bs, [][]c17ScCall{{call1}})
		r2, _ := c17RunGroup(side, is, bs, [][]c17ScCall{{call2}})
		o1, o2 := c17Classify(side, []c17ScCall{call1}, r1[0])[0], c17Classify(side, []c17ScCall{call2}, r2[0])[0]
		okk := o1.Class != "hang" && o2.Class != "hang" && o1.Same && o2.Same
		return okk, fmt.Sprintf("%s session: first %s => %s (same as alone: %v), then %s (empty value: %v) => %s (same as alone: %v)",
			side, first, o1.Class, o1.Same, t, r.Input["empty_value"] == "true", o2.Class, o2.Same)
	}
	return false, "unknown replay kind " + r.Kind
}
