package main

// C04 — marshal then unmarshal returns an equal Go value.
//
// Search oracle: ce.MarshalTo{CBE,CTE}Document then ce.UnmarshalFrom{CBE,CTE}Document into a
// template of the same type, compared with an explicit equality (c04Equal).
// Correspondence: the events that reach the builder (recorded behind the validator) and what the
// builder made of them, compared by coqc with Model/MarshalRT.v (build_typed), and for CBE
// documents the link iterate -> cbe_events.

import (
	"fmt"
	"math"
	"math/big"
	"math/rand"
	"net/url"
	"reflect"
	"sort"
	"strconv"
	"strings"
	"time"

	"github.com/cockroachdb/apd/v2"
	compact_float "github.com/kstenerud/go-compact-float"
	compact_time "github.com/kstenerud/go-compact-time"
	"github.com/kstenerud/go-concise-encoding/builder"
	"github.com/kstenerud/go-concise-encoding/ce"
	"github.com/kstenerud/go-concise-encoding/ce/events"
	"github.com/kstenerud/go-concise-encoding/configuration"
	"github.com/kstenerud/go-concise-encoding/conversions"
	"github.com/kstenerud/go-concise-encoding/types"
)

func init() { register("C04", runC04, replayC04) }

var (
	c04TTime   = reflect.TypeOf(time.Time{})
	c04TCTime  = reflect.TypeOf(compact_time.Time{})
	c04TDFloat = reflect.TypeOf(compact_float.DFloat{})
	c04TURL    = reflect.TypeOf(url.URL{})
	c04TBigInt = reflect.TypeOf(big.Int{})
	c04TBigFlt = reflect.TypeOf(big.Float{})
	c04TBigDec = reflect.TypeOf(apd.Decimal{})
	c04TMedia  = reflect.TypeOf(types.Media{})
	c04TNode   = reflect.TypeOf(types.Node{})
	c04TEdge   = reflect.TypeOf(types.Edge{})
	c04TUID    = reflect.TypeOf(types.UID{})
	c04TIface  = reflect.TypeOf([]interface{}{}).Elem()
)

func c04IsLib(t reflect.Type) bool {
	switch t {
	case c04TTime, c04TCTime, c04TDFloat, c04TURL, c04TBigInt, c04TBigFlt, c04TBigDec, c04TMedia, c04TNode, c04TEdge:
		return true
	}
	return false
}

// ---------------------------------------------------------------------------
// struct fields and tags (internal/common/go_tags.go)

type c04Field struct {
	Name     string
	Exported bool
	Anon     bool
	Omit     string // ODefault ONever OAlways OEmpty OZero
	Order    int64
	Index    int
	Type     reflect.Type
}

func c04ParseField(f reflect.StructField, i int) c04Field {
	fd := c04Field{Name: f.Name, Exported: f.PkgPath == "", Anon: f.Anonymous, Omit: "ODefault", Order: math.MaxInt64, Index: i, Type: f.Type}
	tag := strings.TrimSpace(f.Tag.Get("ce"))
	if tag == "" {
		return fd
	}
	for _, entry := range strings.Split(tag, ",") {
		kv := strings.Split(entry, "=")
		switch strings.TrimSpace(kv[0]) {
		case "omit":
			fd.Omit = "OAlways"
		case "omit_empty":
			fd.Omit = "OEmpty"
		case "omit_zero":
			fd.Omit = "OZero"
		case "omit_never":
			fd.Omit = "ONever"
		case "name":
			fd.Name = strings.TrimSpace(kv[1])
		case "order":
			n, err := strconv.ParseInt(strings.TrimSpace(kv[1]), 10, 64)
			if err != nil {
				panic(err)
			}
			fd.Order = n
		default:
			panic("c04: unknown tag " + entry)
		}
	}
	return fd
}

func (f c04Field) coq() string {
	return cApp("mkF", cBytes([]byte(f.Name)), cBool(f.Exported), cBool(f.Anon), f.Omit, cZ(f.Order))
}

var c04Sids = map[reflect.Type]int{}

func c04Sid(t reflect.Type) int {
	if n, ok := c04Sids[t]; ok {
		return n
	}
	n := len(c04Sids) + 1
	c04Sids[t] = n
	return n
}

// ---------------------------------------------------------------------------
// types as Coq terms: exactly the switch of builder/session.go defaultBuilderGeneratorForType

func c04Width(k reflect.Kind) string {
	switch k {
	case reflect.Int8, reflect.Uint8:
		return "W8"
	case reflect.Int16, reflect.Uint16:
		return "W16"
	case reflect.Int32, reflect.Uint32:
		return "W32"
	}
	return "W64"
}

// the typed-array builders exist for these element kinds only (not Int, Uint, Bool)
func c04BuilderAKind(k reflect.Kind) string {
	switch k {
	case reflect.Uint8:
		return "AU8"
	case reflect.Uint16:
		return "AU16"
	case reflect.Uint32:
		return "AU32"
	case reflect.Uint64:
		return "AU64"
	case reflect.Int8:
		return "AI8"
	case reflect.Int16:
		return "AI16"
	case reflect.Int32:
		return "AI32"
	case reflect.Int64:
		return "AI64"
	case reflect.Float32:
		return "AF32"
	case reflect.Float64:
		return "AF64"
	}
	return ""
}

// the typed-array iterators also cover Int and Uint (as 64 bits)
func c04IterAKind(k reflect.Kind) string {
	switch k {
	case reflect.Int:
		return "AI64"
	case reflect.Uint:
		return "AU64"
	}
	return c04BuilderAKind(k)
}

var c04PlainSlice = map[reflect.Kind]reflect.Type{
	reflect.Uint8: reflect.TypeOf([]uint8{}), reflect.Uint16: reflect.TypeOf([]uint16{}), reflect.Uint32: reflect.TypeOf([]uint32{}),
	reflect.Uint64: reflect.TypeOf([]uint64{}), reflect.Int8: reflect.TypeOf([]int8{}), reflect.Int16: reflect.TypeOf([]int16{}),
	reflect.Int32: reflect.TypeOf([]int32{}), reflect.Int64: reflect.TypeOf([]int64{}), reflect.Float32: reflect.TypeOf([]float32{}),
	reflect.Float64: reflect.TypeOf([]float64{}),
}

func c04Type(t reflect.Type) string {
	switch t.Kind() {
	case reflect.Bool:
		return "TBool"
	case reflect.String:
		return "TString"
	case reflect.Int, reflect.Int8, reflect.Int16, reflect.Int32, reflect.Int64:
		return cApp("TInt", c04Width(t.Kind()))
	case reflect.Uint, reflect.Uint8, reflect.Uint16, reflect.Uint32, reflect.Uint64:
		return cApp("TUint", c04Width(t.Kind()))
	case reflect.Float32:
		return "TF32"
	case reflect.Float64:
		return "TF64"
	case reflect.Interface:
		return "TIface"
	case reflect.Array:
		if t == c04TUID {
			return "TUid"
		}
		if k := c04BuilderAKind(t.Elem().Kind()); k != "" {
			return cApp("TNumArr", k, cNi(t.Len()))
		}
		return cApp("TArr", cNi(t.Len()), c04Type(t.Elem()))
	case reflect.Slice:
		if k := c04BuilderAKind(t.Elem().Kind()); k != "" {
			return cApp("TNumSlice", k, cBool(c04PlainSlice[t.Elem().Kind()].AssignableTo(t)))
		}
		return cApp("TSlice", c04Type(t.Elem()))
	case reflect.Map:
		return cApp("TMap", c04Type(t.Key()), c04Type(t.Elem()))
	case reflect.Struct:
		switch t {
		case c04TTime:
			return "TTime"
		case c04TCTime:
			return "TCTime"
		case c04TURL:
			return "TUrl"
		case c04TDFloat:
			return "TDFloat"
		case c04TBigInt:
			return "TBigInt"
		case c04TBigFlt:
			return "TBigFloat"
		case c04TBigDec:
			return "TBigDec"
		case c04TMedia:
			return "TMedia"
		case c04TEdge:
			return "TEdge"
		case c04TNode:
			return "TNode"
		}
		items := make([]string, t.NumField())
		for i := range items {
			f := c04ParseField(t.Field(i), i)
			items[i] = cPair(f.coq(), c04Type(f.Type))
		}
		return cApp("TStruct", cNi(c04Sid(t)), cList(items))
	case reflect.Ptr:
		switch t.Elem() {
		case c04TURL:
			return "TPUrl"
		case c04TBigInt:
			return "TPBigInt"
		case c04TBigFlt:
			return "TPBigFloat"
		case c04TBigDec:
			return "TPBigDec"
		}
		return cApp("TPtr", c04Type(t.Elem()))
	}
	panic(fmt.Sprintf("c04: unsupported type %v", t))
}

// ---------------------------------------------------------------------------
// values as Coq terms of type gval (the conventions of Model/Iterate.v)

type c04Printer struct{ addr int }

func (p *c04Printer) next() int { p.addr++; return p.addr }

// reading a value that may sit in an unexported field
func c04Readable(v reflect.Value) reflect.Value {
	if v.CanInterface() {
		return v
	}
	c := reflect.New(v.Type()).Elem()
	switch v.Kind() {
	case reflect.Bool:
		c.SetBool(v.Bool())
	case reflect.Int, reflect.Int8, reflect.Int16, reflect.Int32, reflect.Int64:
		c.SetInt(v.Int())
	case reflect.Uint, reflect.Uint8, reflect.Uint16, reflect.Uint32, reflect.Uint64:
		c.SetUint(v.Uint())
	case reflect.Float32, reflect.Float64:
		c.SetFloat(v.Float())
	case reflect.String:
		c.SetString(v.String())
	default:
		panic("c04: unexported field of kind " + v.Kind().String())
	}
	return c
}

func (p *c04Printer) val(v reflect.Value) string {
	t := v.Type()
	switch t.Kind() {
	case reflect.Bool:
		return cApp("VBool", cBool(v.Bool()))
	case reflect.Int, reflect.Int8, reflect.Int16, reflect.Int32, reflect.Int64:
		return cApp("VInt", cZ(v.Int()))
	case reflect.Uint, reflect.Uint8, reflect.Uint16, reflect.Uint32, reflect.Uint64:
		return cApp("VUint", cN(v.Uint()))
	case reflect.Float32:
		return cApp("VF32", cN(uint64(math.Float32bits(float32(c04F32(v))))))
	case reflect.Float64:
		return cApp("VF64", cN(math.Float64bits(v.Float())))
	case reflect.String:
		return cApp("VString", cBytes([]byte(v.String())))
	case reflect.Interface:
		if v.IsNil() {
			return "VNilIface"
		}
		return cApp("VIface", p.val(v.Elem()))
	case reflect.Array, reflect.Slice:
		if t == c04TUID {
			b := make([]byte, 16)
			for i := range b {
				b[i] = byte(v.Index(i).Uint())
			}
			return cApp("VUid", cBytes(b))
		}
		sk := "SArr"
		if t.Kind() == reflect.Slice {
			sk = "SSlice"
			if v.IsNil() {
				sk = "SNil"
			}
		}
		ek := t.Elem().Kind()
		if k := c04IterAKind(ek); k != "" {
			items := make([]string, v.Len())
			for i := range items {
				e := v.Index(i)
				switch ek {
				case reflect.Float32:
					items[i] = cZ(int64(math.Float32bits(c04F32(e))))
				case reflect.Float64:
					items[i] = cBigZ(new(big.Int).SetUint64(math.Float64bits(e.Float())))
				case reflect.Int, reflect.Int8, reflect.Int16, reflect.Int32, reflect.Int64:
					items[i] = cZ(e.Int())
				default:
					items[i] = cBigZ(new(big.Int).SetUint64(e.Uint()))
				}
			}
			return cApp("VNum", sk, k, cList(items))
		}
		if ek == reflect.Bool {
			items := make([]string, v.Len())
			for i := range items {
				items[i] = cBool(v.Index(i).Bool())
			}
			return cApp("VBools", sk, cList(items))
		}
		if sk == "SNil" {
			return "VNilSlice"
		}
		items := make([]string, v.Len())
		for i := range items {
			items[i] = p.val(v.Index(i))
		}
		if sk == "SSlice" {
			return cApp("VSlice", cNi(p.next()), cList(items))
		}
		return cApp("VArray", cList(items))
	case reflect.Map:
		if v.IsNil() {
			return "VNilMap"
		}
		a := p.next()
		items := []string{}
		iter := v.MapRange()
		for iter.Next() {
			items = append(items, cPair(p.val(iter.Key()), p.val(iter.Value())))
		}
		return cApp("VMap", cNi(a), cList(items))
	case reflect.Ptr:
		if v.IsNil() {
			return "VNilPtr"
		}
		switch t.Elem() {
		case c04TURL, c04TBigInt, c04TBigFlt, c04TBigDec, c04TTime, c04TCTime:
			return cApp("VOPtr", p.val(v.Elem()))
		}
		a := p.next()
		return cApp("VPtr", cNi(a), p.val(v.Elem()))
	case reflect.Struct:
		return p.structVal(v)
	}
	panic(fmt.Sprintf("c04: unsupported kind %v", t))
}

// the float32 held by v (through Float() a signalling NaN would be quieted)
func c04F32(v reflect.Value) float32 {
	if v.CanAddr() {
		return *(*float32)(v.Addr().UnsafePointer())
	}
	c := reflect.New(v.Type()).Elem()
	c.Set(v)
	return *(*float32)(c.Addr().UnsafePointer())
}

func (p *c04Printer) structVal(v reflect.Value) string {
	t := v.Type()
	zero := cBool(v.IsZero())
	switch t {
	case c04TTime:
		return cApp("VTime", zero, cBytes([]byte(compact_time.AsCompactTime(v.Interface().(time.Time)).String())))
	case c04TCTime:
		return cApp("VTime", zero, cBytes([]byte(v.Interface().(compact_time.Time).String())))
	case c04TURL:
		u := v.Interface().(url.URL)
		return cApp("VUrl", zero, cBytes([]byte((&u).String())))
	case c04TBigInt:
		b := v.Interface().(big.Int)
		return cApp("VBigInt", zero, cBigZ(&b))
	case c04TBigFlt:
		f := v.Interface().(big.Float)
		return cApp("VBigFloat", zero, cBigFloat(&f))
	case c04TBigDec:
		d := v.Interface().(apd.Decimal)
		return cApp("VBigDec", zero, cAPD(&d))
	case c04TDFloat:
		return cApp("VDFloat", zero, cDFloat(v.Interface().(compact_float.DFloat)))
	case c04TMedia:
		m := v.Interface().(types.Media)
		return cApp("VMedia", zero, cBytes([]byte(m.MediaType)), cBytes(m.Data))
	case c04TNode:
		val := p.val(v.Field(types.NodeFieldIndexValue))
		ch := v.Field(types.NodeFieldIndexChildren)
		chTerm := "VNilSlice"
		if !ch.IsNil() {
			items := make([]string, ch.Len())
			for i := range items {
				items[i] = p.val(ch.Index(i))
			}
			chTerm = cApp("VSlice", cNi(p.next()), cList(items))
		}
		return cApp("VNode", val, chTerm)
	case c04TEdge:
		return cApp("VEdge", p.val(v.Field(types.EdgeFieldIndexSource)), p.val(v.Field(types.EdgeFieldIndexDescription)),
			p.val(v.Field(types.EdgeFieldIndexDestination)))
	}
	items := make([]string, t.NumField())
	for i := range items {
		f := c04ParseField(t.Field(i), i)
		fv := v.Field(i)
		if !f.Exported {
			fv = c04Readable(fv)
		}
		items[i] = cPair(f.coq(), p.val(fv))
	}
	return cApp("VStruct", cNi(c04Sid(t)), cList(items))
}

func c04Val(v reflect.Value) string { return (&c04Printer{}).val(v) }

// ---------------------------------------------------------------------------
// the equality of the property (written out: nil and empty alike, times and big numbers by value,
// NaNs alike, numbers inside an interface by value, unexported and `omit` fields not compared)

func c04IsNumKind(k reflect.Kind) bool {
	switch k {
	case reflect.Int, reflect.Int8, reflect.Int16, reflect.Int32, reflect.Int64,
		reflect.Uint, reflect.Uint8, reflect.Uint16, reflect.Uint32, reflect.Uint64:
		return true
	}
	return false
}

func c04BigOf(v reflect.Value) *big.Int {
	switch v.Kind() {
	case reflect.Int, reflect.Int8, reflect.Int16, reflect.Int32, reflect.Int64:
		return big.NewInt(v.Int())
	}
	return new(big.Int).SetUint64(v.Uint())
}

func c04FloatEq(a, b float64) bool {
	if math.IsNaN(a) || math.IsNaN(b) {
		return math.IsNaN(a) && math.IsNaN(b)
	}
	return math.Float64bits(a) == math.Float64bits(b)
}

// the exact value of a number of any Go type (class "" with the value, or "+inf" "-inf" "nan")
func c04Rat(v reflect.Value) (*big.Rat, string, bool) {
	fl := func(f float64) (*big.Rat, string, bool) {
		switch {
		case math.IsNaN(f):
			return nil, "nan", true
		case math.IsInf(f, 1):
			return nil, "+inf", true
		case math.IsInf(f, -1):
			return nil, "-inf", true
		}
		return new(big.Rat).SetFloat64(f), "", true
	}
	switch v.Kind() {
	case reflect.Int, reflect.Int8, reflect.Int16, reflect.Int32, reflect.Int64, reflect.Uint, reflect.Uint8, reflect.Uint16, reflect.Uint32, reflect.Uint64:
		return new(big.Rat).SetInt(c04BigOf(v)), "", true
	case reflect.Float32, reflect.Float64:
		return fl(v.Float())
	}
	if !v.CanInterface() {
		return nil, "", false
	}
	dec := func(neg bool, coef *big.Int, exp int32) *big.Rat {
		r := new(big.Rat).SetInt(coef)
		p := new(big.Int).Exp(big.NewInt(10), big.NewInt(int64(exp)).Abs(big.NewInt(int64(exp))), nil)
		if exp >= 0 {
			r.Mul(r, new(big.Rat).SetInt(p))
		} else {
			r.Quo(r, new(big.Rat).SetInt(p))
		}
		if neg {
			r.Neg(r)
		}
		return r
	}
	switch x := v.Interface().(type) {
	case *big.Int:
		if x != nil {
			return new(big.Rat).SetInt(x), "", true
		}
	case big.Int:
		return new(big.Rat).SetInt(&x), "", true
	case *big.Float:
		if x != nil {
			if x.IsInf() {
				if x.Signbit() {
					return nil, "-inf", true
				}
				return nil, "+inf", true
			}
			r, _ := x.Rat(nil)
			return r, "", true
		}
	case compact_float.DFloat:
		switch {
		case x.IsNan():
			return nil, "nan", true
		case x.IsNegativeInfinity():
			return nil, "-inf", true
		case x.IsInfinity():
			return nil, "+inf", true
		case x.IsZero():
			return new(big.Rat), "", true
		}
		return dec(false, big.NewInt(x.Coefficient), x.Exponent), "", true
	case *apd.Decimal:
		if x != nil {
			switch x.Form {
			case apd.NaN, apd.NaNSignaling:
				return nil, "nan", true
			case apd.Infinite:
				if x.Negative {
					return nil, "-inf", true
				}
				return nil, "+inf", true
			}
			return dec(x.Negative, &x.Coeff, x.Exponent), "", true
		}
	}
	return nil, "", false
}

// c04Equal reports whether b (unmarshaled) equals a (original); where names the first difference.
func c04Equal(a, b reflect.Value, path string) (bool, string) {
	if !a.IsValid() || !b.IsValid() {
		if a.IsValid() == b.IsValid() {
			return true, ""
		}
		return false, path + ": one side invalid"
	}
	ta, tb := a.Type(), b.Type()
	// dynamic values of an interface: numbers by value
	if ta != tb {
		if ra, ca, oka := c04Rat(a); oka {
			if rb, cb, okb := c04Rat(b); okb {
				if ca == cb && (ra == nil || ra.Cmp(rb) == 0) {
					return true, ""
				}
				return false, fmt.Sprintf("%s: number %v (%v) became %v (%v)", path, a, ta, b, tb)
			}
		}
		if c04IsNumKind(ta.Kind()) && c04IsNumKind(tb.Kind()) {
			if c04BigOf(a).Cmp(c04BigOf(b)) == 0 {
				return true, ""
			}
			return false, fmt.Sprintf("%s: %v != %v", path, c04BigOf(a), c04BigOf(b))
		}
		if (ta.Kind() == reflect.Float32 || ta.Kind() == reflect.Float64) && (tb.Kind() == reflect.Float32 || tb.Kind() == reflect.Float64) {
			if c04FloatEq(a.Float(), b.Float()) {
				return true, ""
			}
			return false, fmt.Sprintf("%s: float %v != %v", path, a.Float(), b.Float())
		}
		return false, fmt.Sprintf("%s: type %v became %v", path, ta, tb)
	}
	switch ta.Kind() {
	case reflect.Bool:
		return a.Bool() == b.Bool(), path + ": bool"
	case reflect.Int, reflect.Int8, reflect.Int16, reflect.Int32, reflect.Int64:
		return a.Int() == b.Int(), fmt.Sprintf("%s: %d != %d", path, a.Int(), b.Int())
	case reflect.Uint, reflect.Uint8, reflect.Uint16, reflect.Uint32, reflect.Uint64:
		return a.Uint() == b.Uint(), fmt.Sprintf("%s: %d != %d", path, a.Uint(), b.Uint())
	case reflect.Float32, reflect.Float64:
		return c04FloatEq(a.Float(), b.Float()), fmt.Sprintf("%s: float %x != %x", path, math.Float64bits(a.Float()), math.Float64bits(b.Float()))
	case reflect.String:
		return a.String() == b.String(), fmt.Sprintf("%s: %q != %q", path, a.String(), b.String())
	case reflect.Interface:
		if a.IsNil() || b.IsNil() {
			return a.IsNil() == b.IsNil(), path + ": nil interface vs non-nil"
		}
		return c04Equal(a.Elem(), b.Elem(), path)
	case reflect.Slice, reflect.Array:
		if a.Len() != b.Len() {
			return false, fmt.Sprintf("%s: length %d became %d", path, a.Len(), b.Len())
		}
		for i := 0; i < a.Len(); i++ {
			if ok, w := c04Equal(a.Index(i), b.Index(i), fmt.Sprintf("%s[%d]", path, i)); !ok {
				return false, w
			}
		}
		return true, ""
	case reflect.Map:
		if a.Len() != b.Len() {
			return false, fmt.Sprintf("%s: map length %d became %d", path, a.Len(), b.Len())
		}
		iter := a.MapRange()
		for iter.Next() {
			found := false
			var last string
			it2 := b.MapRange()
			for it2.Next() {
				if ok, _ := c04Equal(iter.Key(), it2.Key(), path); ok {
					ok2, w := c04Equal(iter.Value(), it2.Value(), fmt.Sprintf("%s[%v]", path, iter.Key()))
					if ok2 {
						found = true
						break
					}
					last = w
				}
			}
			if !found {
				if last == "" {
					last = fmt.Sprintf("%s: key %v lost", path, iter.Key())
				}
				return false, last
			}
		}
		return true, ""
	case reflect.Ptr:
		if a.IsNil() || b.IsNil() {
			return a.IsNil() == b.IsNil(), path + ": nil pointer vs non-nil"
		}
		return c04Equal(a.Elem(), b.Elem(), path+"*")
	case reflect.Struct:
		switch ta {
		case c04TTime:
			x, y := a.Interface().(time.Time), b.Interface().(time.Time)
			return x.Equal(y), fmt.Sprintf("%s: time %v != %v", path, x, y)
		case c04TCTime:
			x, y := a.Interface().(compact_time.Time), b.Interface().(compact_time.Time)
			return x.String() == y.String(), fmt.Sprintf("%s: compact time %v != %v", path, x, y)
		case c04TURL:
			x, y := a.Interface().(url.URL), b.Interface().(url.URL)
			return (&x).String() == (&y).String(), fmt.Sprintf("%s: url %v != %v", path, &x, &y)
		case c04TBigInt:
			x, y := a.Interface().(big.Int), b.Interface().(big.Int)
			return (&x).Cmp(&y) == 0, fmt.Sprintf("%s: big.Int %v != %v", path, &x, &y)
		case c04TBigFlt:
			x, y := a.Interface().(big.Float), b.Interface().(big.Float)
			return (&x).Cmp(&y) == 0, fmt.Sprintf("%s: big.Float %v != %v", path, (&x).Text('p', 0), (&y).Text('p', 0))
		case c04TBigDec:
			x, y := a.Interface().(apd.Decimal), b.Interface().(apd.Decimal)
			xn, yn := x.Form == apd.NaN || x.Form == apd.NaNSignaling, y.Form == apd.NaN || y.Form == apd.NaNSignaling
			if xn || yn {
				return xn && yn, fmt.Sprintf("%s: decimal %v != %v", path, &x, &y)
			}
			return x.Form == y.Form && (&x).Cmp(&y) == 0, fmt.Sprintf("%s: decimal %v != %v", path, &x, &y)
		case c04TDFloat:
			x, y := a.Interface().(compact_float.DFloat), b.Interface().(compact_float.DFloat)
			if x.IsNan() || y.IsNan() {
				return x.IsNan() && y.IsNan(), fmt.Sprintf("%s: dfloat %v != %v", path, x, y)
			}
			return x == y || (x.IsZero() && y.IsZero() && x.IsNegativeZero() == y.IsNegativeZero()), fmt.Sprintf("%s: dfloat %v != %v", path, x, y)
		}
		for i := 0; i < ta.NumField(); i++ {
			f := c04ParseField(ta.Field(i), i)
			if !f.Exported || f.Omit == "OAlways" {
				continue
			}
			if f.Omit == "OZero" && a.Field(i).IsZero() && b.Field(i).IsZero() {
				continue // an omitted zero (e.g. -0.0) comes back as the zero value
			}
			if ok, w := c04Equal(a.Field(i), b.Field(i), path+"."+ta.Field(i).Name); !ok {
				return false, w
			}
		}
		return true, ""
	}
	return false, path + ": kind " + ta.Kind().String()
}

// ---------------------------------------------------------------------------
// what the marshaler emits for a value: which fields are kept, where Null appears.
// c04Features lists the constructs in v that the current code is known not to bring back, in the
// order of the walk; the first one names the failure class of a failing round trip.

func c04IsEmpty(v reflect.Value) bool {
	switch v.Kind() {
	case reflect.Interface, reflect.Ptr:
		return v.IsNil()
	case reflect.Map, reflect.Slice:
		return v.IsNil() || v.Len() == 0
	case reflect.Array, reflect.String:
		return v.Len() == 0
	}
	return false
}

func c04Keeps(f c04Field, v reflect.Value) bool {
	o := f.Omit
	if o == "ODefault" {
		o = "OEmpty"
	}
	switch o {
	case "OAlways":
		return false
	case "ONever":
		return true
	case "OEmpty":
		return !c04IsEmpty(v)
	}
	return !(v.IsZero() || c04IsEmpty(v))
}

func c04KindName(t reflect.Type) string {
	if c04IsLib(t) || t == c04TUID {
		return t.String()
	}
	return t.Kind().String()
}

// does the builder of type t accept Null (BuildFromNull)?
func c04Nullable(t reflect.Type) bool {
	switch t.Kind() {
	case reflect.String, reflect.Interface, reflect.Ptr:
		return true
	case reflect.Slice:
		if c04BuilderAKind(t.Elem().Kind()) != "" {
			return true
		}
		return c04Nullable(t.Elem())
	case reflect.Array:
		if t == c04TUID || c04BuilderAKind(t.Elem().Kind()) != "" {
			return false
		}
		return t.Len() > 0 && c04Nullable(t.Elem())
	case reflect.Map:
		return c04Nullable(t.Key())
	case reflect.Struct:
		return t == c04TCTime
	}
	return false
}

// Null handed to a fresh node builder touches the builder stack (outside the model)
func c04NullReachesNode(t reflect.Type) bool {
	switch t.Kind() {
	case reflect.Slice, reflect.Array:
		if c04BuilderAKind(t.Elem().Kind()) != "" {
			return false
		}
		return c04NullReachesNode(t.Elem())
	case reflect.Map:
		return c04NullReachesNode(t.Key())
	case reflect.Struct:
		return t == c04TNode
	}
	return false
}

// is the value behind a pointer built by a container builder (which notifies the pointer builder
// when it ends) rather than stored by a BuildFromXxx call?
func c04BuiltAsContainer(v reflect.Value) bool {
	t := v.Type()
	switch t.Kind() {
	case reflect.Ptr:
		return !v.IsNil() && c04BuiltAsContainer(v.Elem())
	case reflect.Struct:
		return !c04IsLib(t) || t == c04TNode || t == c04TEdge
	case reflect.Map:
		return !v.IsNil()
	case reflect.Array:
		return t != c04TUID && c04IterAKind(t.Elem().Kind()) == "" && t.Elem().Kind() != reflect.Bool
	case reflect.Slice:
		return !v.IsNil() && c04IterAKind(t.Elem().Kind()) == "" && t.Elem().Kind() != reflect.Bool
	}
	return false
}

func c04Features(v reflect.Value, format string, out *[]string) {
	t := v.Type()
	add := func(s string) { *out = append(*out, s) }
	switch t.Kind() {
	case reflect.Interface:
		if !v.IsNil() {
			c04Features(v.Elem(), format, out)
		}
	case reflect.Slice, reflect.Array:
		if t == c04TUID {
			return
		}
		ek := t.Elem().Kind()
		what := "slice"
		if t.Kind() == reflect.Array {
			what = "array"
		}
		switch {
		case ek == reflect.Int || ek == reflect.Uint:
			add("typed-array-no-builder/" + ek.String() + "-" + what)
		case ek == reflect.Bool:
			add("bool-" + what)
		case c04BuilderAKind(ek) != "":
			if t.Kind() == reflect.Slice && ek != reflect.Uint8 && !c04PlainSlice[ek].AssignableTo(t) {
				add("named-element-slice/" + ek.String())
			}
		default:
			if t.Kind() == reflect.Slice && v.IsNil() {
				if !c04Nullable(t) {
					add("nil-slice-as-null/" + c04KindName(t.Elem()))
				}
				return
			}
			for i := 0; i < v.Len(); i++ {
				c04Features(v.Index(i), format, out)
			}
		}
	case reflect.Map:
		if v.IsNil() {
			if !c04Nullable(t) {
				add("nil-map-as-null/" + c04KindName(t.Key()) + "-key")
			}
			return
		}
		keys := v.MapKeys()
		for _, k := range keys {
			c04Features(k, format, out)
			c04Features(v.MapIndex(k), format, out)
		}
	case reflect.Ptr:
		if v.IsNil() {
			return
		}
		e := v.Elem()
		et := t.Elem()
		switch et.Kind() {
		case reflect.Slice:
			if c04BuilderAKind(et.Elem().Kind()) == "" {
				if e.IsNil() && et.Elem().Kind() != reflect.Int && et.Elem().Kind() != reflect.Uint && et.Elem().Kind() != reflect.Bool {
					add("pointer-to-nil/slice")
				} else if !e.IsNil() && et.Elem().Kind() != reflect.Int && et.Elem().Kind() != reflect.Uint && et.Elem().Kind() != reflect.Bool {
					add("pointer-to-slice")
				}
			}
		case reflect.Map:
			if e.IsNil() {
				add("pointer-to-nil/map")
			} else {
				add("pointer-to-map")
			}
		case reflect.Ptr:
			if e.IsNil() {
				add("pointer-to-nil/pointer")
			} else if c04BuiltAsContainer(e.Elem()) {
				add("pointer-to-pointer-to-container")
			}
		case reflect.Interface:
			if e.IsNil() {
				add("pointer-to-nil/interface")
			} else {
				add("pointer-to-interface")
			}
		case reflect.Struct:
			if et == c04TMedia {
				add("pointer-to-media")
			}
			if ct, isCT := e.Interface().(compact_time.Time); isCT && (&ct).IsZeroValue() {
				add("pointer-to-nil/zero-compact-time")
			}
		}
		c04Features(e, format, out)
	case reflect.Struct:
		switch t {
		case c04TEdge:
			add("edge")
			return
		case c04TMedia:
			if v.Interface().(types.Media).MediaType == "" {
				add("media-empty-type")
			}
			return
		case c04TNode:
			c04Features(v.Field(types.NodeFieldIndexValue), format, out)
			ch := v.Field(types.NodeFieldIndexChildren)
			for i := 0; i < ch.Len(); i++ {
				c04Features(ch.Index(i), format, out)
			}
			return
		}
		if t == c04TBigFlt && format == "cbe" {
			f := v.Interface().(big.Float)
			if _, acc := (&f).Float64(); acc != big.Exact && !f.IsInf() {
				add("big-float-wider-than-float64")
			}
		}
		if c04IsLib(t) {
			return
		}
		for i := 0; i < t.NumField(); i++ {
			f := c04ParseField(t.Field(i), i)
			if !f.Exported {
				continue
			}
			if f.Anon {
				c04Features(v.Field(i), format, out)
				continue
			}
			if c04Keeps(f, v.Field(i)) {
				c04Features(v.Field(i), format, out)
			}
		}
	}
}

// more than one entry in some map: the order in which the marshaler walked it is not observable
func c04MultiMap(v reflect.Value) bool {
	switch v.Kind() {
	case reflect.Interface, reflect.Ptr:
		return !v.IsNil() && c04MultiMap(v.Elem())
	case reflect.Slice, reflect.Array:
		if c04IterAKind(v.Type().Elem().Kind()) != "" || v.Type().Elem().Kind() == reflect.Bool {
			return false
		}
		for i := 0; i < v.Len(); i++ {
			if c04MultiMap(v.Index(i)) {
				return true
			}
		}
	case reflect.Map:
		if v.Len() > 1 {
			return true
		}
		iter := v.MapRange()
		for iter.Next() {
			if c04MultiMap(iter.Key()) || c04MultiMap(iter.Value()) {
				return true
			}
		}
	case reflect.Struct:
		if c04IsLib(v.Type()) && v.Type() != c04TNode && v.Type() != c04TEdge {
			return false
		}
		for i := 0; i < v.NumField(); i++ {
			if v.Type().Field(i).PkgPath == "" && c04MultiMap(v.Field(i)) {
				return true
			}
		}
	}
	return false
}

// ---------------------------------------------------------------------------
// generation of types and values

type c04Gen struct{ rng *rand.Rand }

var c04ScalarTypes = []reflect.Type{
	reflect.TypeOf(false), reflect.TypeOf(int(0)), reflect.TypeOf(int8(0)), reflect.TypeOf(int16(0)), reflect.TypeOf(int32(0)),
	reflect.TypeOf(int64(0)), reflect.TypeOf(uint(0)), reflect.TypeOf(uint8(0)), reflect.TypeOf(uint16(0)), reflect.TypeOf(uint32(0)),
	reflect.TypeOf(uint64(0)), reflect.TypeOf(float32(0)), reflect.TypeOf(float64(0)), reflect.TypeOf(""),
}
var c04KeyTypes = []reflect.Type{
	reflect.TypeOf(""), reflect.TypeOf(""), reflect.TypeOf(int(0)), reflect.TypeOf(int8(0)), reflect.TypeOf(uint16(0)),
	reflect.TypeOf(uint64(0)), reflect.TypeOf(false), c04TUID,
}
var c04LibTypes = []reflect.Type{
	c04TTime, c04TCTime, c04TDFloat, c04TURL, c04TBigInt, c04TBigFlt, c04TBigDec, c04TMedia, c04TNode, c04TUID,
	reflect.PtrTo(c04TURL), reflect.PtrTo(c04TBigInt), reflect.PtrTo(c04TBigFlt), reflect.PtrTo(c04TBigDec), reflect.PtrTo(c04TTime), reflect.PtrTo(c04TCTime),
}
var c04ElemKinds = []reflect.Type{
	reflect.TypeOf(uint8(0)), reflect.TypeOf(uint16(0)), reflect.TypeOf(uint32(0)), reflect.TypeOf(uint64(0)),
	reflect.TypeOf(int8(0)), reflect.TypeOf(int16(0)), reflect.TypeOf(int32(0)), reflect.TypeOf(int64(0)),
	reflect.TypeOf(float32(0)), reflect.TypeOf(float64(0)),
}

// field names with pairwise different identifiers (lower case, underscores removed)
var c04FieldNames = []string{"A", "Bc", "HTTPServer", "UserID", "X9", "FooBar", "Name2Go", "Q_r", "Zz", "Value", "K", "LongFieldNameHere"}
var c04Tags = []string{"", "", "", `ce:"omit_never"`, `ce:"omit_never"`, `ce:"omit_empty"`, `ce:"omit_zero"`, `ce:"order=%d"`, `ce:"name=n%d"`, `ce:"name=n%d,omit_never"`, `ce:"omit"`}

func (g *c04Gen) leafType() reflect.Type {
	switch g.rng.Intn(10) {
	case 0, 1, 2, 3:
		return c04ScalarTypes[g.rng.Intn(len(c04ScalarTypes))]
	case 4:
		return reflect.SliceOf(c04ElemKinds[g.rng.Intn(len(c04ElemKinds))])
	case 5:
		return reflect.ArrayOf(g.rng.Intn(4), c04ElemKinds[g.rng.Intn(len(c04ElemKinds))])
	case 6, 7:
		return c04LibTypes[g.rng.Intn(len(c04LibTypes))]
	case 8:
		return c04TIface
	}
	return reflect.TypeOf("")
}

// defect: also produce the types the current code is known not to bring back
func (g *c04Gen) typ(depth int, defect bool) reflect.Type {
	if depth <= 0 || g.rng.Intn(3) == 0 {
		if defect && g.rng.Intn(4) == 0 {
			switch g.rng.Intn(6) {
			case 0:
				return reflect.TypeOf([]int{})
			case 1:
				return reflect.TypeOf([]uint{})
			case 2:
				return reflect.TypeOf([]bool{})
			case 3:
				return reflect.TypeOf([2]int{})
			case 4:
				return reflect.TypeOf([3]bool{})
			case 5:
				return c04TEdge
			}
		}
		return g.leafType()
	}
	switch g.rng.Intn(7) {
	case 0:
		return reflect.SliceOf(g.typ(depth-1, defect))
	case 1:
		return reflect.ArrayOf(g.rng.Intn(3), g.typ(depth-1, defect))
	case 2:
		return reflect.MapOf(c04KeyTypes[g.rng.Intn(len(c04KeyTypes))], g.typ(depth-1, defect))
	case 3:
		e := g.typ(depth-1, defect)
		if !defect {
			// pointers to slices, maps and interfaces are known not to come back
			for e.Kind() == reflect.Map || e.Kind() == reflect.Interface ||
				(e.Kind() == reflect.Slice && c04BuilderAKind(e.Elem().Kind()) == "") {
				e = g.leafType()
			}
		}
		return reflect.PtrTo(e)
	}
	return g.structType(depth, defect)
}

func (g *c04Gen) structType(depth int, defect bool) reflect.Type {
	n := g.rng.Intn(5)
	perm := g.rng.Perm(len(c04FieldNames))
	fields := make([]reflect.StructField, n)
	for i := range fields {
		tag := c04Tags[g.rng.Intn(len(c04Tags))]
		if strings.Contains(tag, "%d") {
			tag = fmt.Sprintf(tag, i)
		}
		fields[i] = reflect.StructField{Name: c04FieldNames[perm[i]], Type: g.typ(depth-1, defect), Tag: reflect.StructTag(tag)}
	}
	return reflect.StructOf(fields)
}

var c04Ints = []int64{0, 1, -1, 2, 100, 101, -100, -101, 127, -128, 128, 255, 256, 32767, -32768, 65535, 65536, 1 << 31, -(1 << 31), 1<<31 - 1, 1<<32 - 1, 1 << 32,
	1 << 53, math.MaxInt64, math.MinInt64, math.MinInt64 + 1, 42, -1000}
var c04Uints = []uint64{0, 1, 100, 101, 255, 256, 65535, 65536, 1<<32 - 1, 1 << 32, 1<<63 - 1, 1 << 63, 1<<63 + 1, math.MaxUint64}
var c04F64s = []uint64{0, 1 << 63, 0x3ff0000000000000, 0xbff8000000000000, 0x7ff0000000000000, 0xfff0000000000000, 0x7ff8000000000001, 0x7ff4000000000001, 0x7ff8000000000000,
	0x0000000000000001, 0x000fffffffffffff, 0x0010000000000000, 0x7fefffffffffffff, 0x400921fb54442d18, 0x3fb999999999999a, 0x4059000000000000, 0x3810000000000000, 0x47efffffe0000000}
var c04F32s = []uint32{0, 1 << 31, 0x3f800000, 0xbfc00000, 0x7f800000, 0xff800000, 0x7fc00000, 0x7fc00001, 0x7f800001, 0x00000001, 0x007fffff, 0x00800000, 0x7f7fffff, 0x40490fdb, 0x3dcccccd}
var c04Strings = []string{"", "a", "hello", "Straße", "日本語", "a b\n", "🙂", "x_y", "0", "exactly15bytes!!", "sixteen bytes ok", "this string is longer than fifteen bytes", "null", "\x00\x01"}
var c04ArrayLens = []int{0, 1, 2, 3, 15, 16, 17}
var c04URLs = []string{"http://x.com/a?b=c", "", "mailto:someone@example.com", "https://example.com:8080/p/a/t/h?query=string#frag", "urn:isbn:0451450523", "/relative/path", "http://h/%41%zz"}
var c04BigInts = []string{"0", "1", "-1", "100", "101", "9223372036854775807", "9223372036854775808", "-9223372036854775808", "-9223372036854775809", "18446744073709551615",
	"18446744073709551616", "18446744073709551617", "-18446744073709551616", "123456789012345678901234567890123456789012345678901234567890", "-340282366920938463463374607431768211457"}
var c04Decimals = []string{"0", "-0", "1", "-1", "1.25", "-1.5e10", "1e-5", "123456789012345678", "9223372036854775807", "9223372036854775808e3", "1.234567890123456789012345678905E+129",
	"NaN", "sNaN", "Infinity", "-Infinity", "0e5", "1.50"}
var c04MediaTypes = []string{"a/b", "text/plain", "application/x-octet-stream-very-long-type"}

func (g *c04Gen) time() time.Time {
	ny, _ := time.LoadLocation("America/New_York")
	tk, _ := time.LoadLocation("Asia/Tokyo")
	switch g.rng.Intn(8) {
	case 0:
		return time.Time{}
	case 1:
		return time.Date(2020, 1, 2, 3, 4, 5, 6, time.UTC)
	case 2:
		if ny != nil {
			return time.Date(1999, 12, 31, 23, 59, 59, 999000000, ny)
		}
	case 3:
		if tk != nil {
			return time.Date(2038, 1, 19, 3, 14, 8, 0, tk)
		}
	case 4:
		return time.Date(-500, 6, 15, 12, 0, 0, 0, time.UTC)
	case 5:
		return time.Date(2020, 1, 2, 3, 4, 5, 0, time.Local)
	}
	return time.Unix(g.rng.Int63n(4000000000), g.rng.Int63n(1000000000)).UTC()
}

func (g *c04Gen) ctime() compact_time.Time {
	switch g.rng.Intn(7) {
	case 0:
		return compact_time.Time{}
	case 1:
		return compact_time.NewDate(2020, 2, 29)
	case 2:
		return compact_time.NewTime(23, 59, 59, 123456789, compact_time.TZAtUTC())
	case 3:
		return compact_time.NewTimestamp(2021, 3, 4, 5, 6, 7, 8000, compact_time.TZAtAreaLocation("Europe/Berlin"))
	case 4:
		return compact_time.NewTimestamp(2021, 3, 4, 5, 6, 7, 0, compact_time.TZAtLatLong(5025, -1234))
	case 5:
		return compact_time.NewTimestamp(1985, 10, 26, 1, 20, 0, 0, compact_time.TZWithMiutesOffsetFromUTC(-480))
	}
	return compact_time.AsCompactTime(g.time())
}

func (g *c04Gen) bigInt() *big.Int {
	b, _ := new(big.Int).SetString(c04BigInts[g.rng.Intn(len(c04BigInts))], 10)
	return b
}

func (g *c04Gen) bigFloat() *big.Float {
	switch g.rng.Intn(8) {
	case 0:
		return new(big.Float)
	case 1:
		return new(big.Float).Neg(new(big.Float))
	case 2:
		return new(big.Float).SetInf(g.rng.Intn(2) == 0)
	case 3:
		f, _ := new(big.Float).SetPrec(200).SetString("1.234567890123456789012345678901234567890")
		return f
	case 4:
		f, _ := new(big.Float).SetString("1e400")
		return f
	case 5:
		return new(big.Float).SetInt(g.bigInt())
	}
	b := c04F64s[g.rng.Intn(len(c04F64s))]
	f := math.Float64frombits(b)
	if math.IsNaN(f) {
		f = 0.1
	}
	return big.NewFloat(f)
}

func (g *c04Gen) decimal() *apd.Decimal {
	d, _, err := apd.NewFromString(c04Decimals[g.rng.Intn(len(c04Decimals))])
	if err != nil {
		panic(err)
	}
	return d
}

func (g *c04Gen) dfloat() compact_float.DFloat {
	switch g.rng.Intn(8) {
	case 0:
		return compact_float.Zero()
	case 1:
		return compact_float.NegativeZero()
	case 2:
		return compact_float.Infinity()
	case 3:
		return compact_float.NegativeInfinity()
	case 4:
		return compact_float.QuietNaN()
	case 5:
		return compact_float.SignalingNaN()
	}
	return compact_float.DFloatValue(int32(g.rng.Intn(41)-20), c04Ints[g.rng.Intn(len(c04Ints))])
}

func (g *c04Gen) bytes(n int) []byte {
	b := make([]byte, n)
	g.rng.Read(b)
	return b
}

// what an interface{} holds: values that the untyped builder gives back with the same Go type,
// or as a number of the same value
func (g *c04Gen) ifaceValue(depth int) interface{} {
	switch g.rng.Intn(16) {
	case 0:
		return nil
	case 1:
		return g.rng.Intn(2) == 0
	case 2:
		return int(c04Ints[g.rng.Intn(len(c04Ints))])
	case 3:
		return int8(g.rng.Intn(256) - 128)
	case 4:
		return c04Uints[g.rng.Intn(len(c04Uints))]
	case 5:
		return math.Float64frombits(c04F64s[g.rng.Intn(len(c04F64s))])
	case 6:
		return c04Strings[g.rng.Intn(len(c04Strings))]
	case 7:
		return g.bytes(g.rng.Intn(20))
	case 8:
		if depth > 0 {
			n := g.rng.Intn(3)
			l := make([]interface{}, n)
			for i := range l {
				l[i] = g.ifaceValue(depth - 1)
			}
			return l
		}
	case 9:
		if depth > 0 {
			m := map[interface{}]interface{}{}
			if g.rng.Intn(2) == 0 {
				m["k"] = g.ifaceValue(depth - 1)
			}
			return m
		}
	case 10:
		return g.bigInt()
	case 11:
		return []uint16{1, 2, 65535}
	case 12:
		return types.UID{1, 2, 3, 4, 5, 6, 7, 8, 9, 10, 11, 12, 13, 14, 15, 16}
	case 13:
		return float32(1.5)
	case 14:
		return g.dfloat()
	}
	return "s"
}

func (g *c04Gen) fillInt(v reflect.Value) {
	for {
		x := c04Ints[g.rng.Intn(len(c04Ints))]
		if g.rng.Intn(4) == 0 {
			x = g.rng.Int63() >> uint(g.rng.Intn(64))
			if g.rng.Intn(2) == 0 {
				x = -x
			}
		}
		if !v.OverflowInt(x) {
			v.SetInt(x)
			return
		}
	}
}

func (g *c04Gen) fillUint(v reflect.Value) {
	for {
		x := c04Uints[g.rng.Intn(len(c04Uints))]
		if g.rng.Intn(4) == 0 {
			x = g.rng.Uint64() >> uint(g.rng.Intn(64))
		}
		if !v.OverflowUint(x) {
			v.SetUint(x)
			return
		}
	}
}

func c04SetF32(v reflect.Value, bits uint32) {
	*(*float32)(v.Addr().UnsafePointer()) = math.Float32frombits(bits)
}

// fill gives the addressable value v a random content
func (g *c04Gen) fill(v reflect.Value, depth int) {
	t := v.Type()
	switch t.Kind() {
	case reflect.Bool:
		v.SetBool(g.rng.Intn(2) == 0)
	case reflect.Int, reflect.Int8, reflect.Int16, reflect.Int32, reflect.Int64:
		g.fillInt(v)
	case reflect.Uint, reflect.Uint8, reflect.Uint16, reflect.Uint32, reflect.Uint64:
		g.fillUint(v)
	case reflect.Float32:
		c04SetF32(v, c04F32s[g.rng.Intn(len(c04F32s))])
	case reflect.Float64:
		v.SetFloat(math.Float64frombits(c04F64s[g.rng.Intn(len(c04F64s))]))
	case reflect.String:
		v.SetString(c04Strings[g.rng.Intn(len(c04Strings))])
	case reflect.Interface:
		x := g.ifaceValue(depth)
		if x != nil {
			v.Set(reflect.ValueOf(x))
		}
	case reflect.Array:
		for i := 0; i < v.Len(); i++ {
			g.fill(v.Index(i), depth-1)
		}
	case reflect.Slice:
		r := g.rng.Intn(8)
		if r == 0 && !c04NullReachesNode(t) {
			return // nil
		}
		n := 1 + g.rng.Intn(3)
		if r == 1 {
			n = 0
		} else if c04IterAKind(t.Elem().Kind()) != "" || t.Elem().Kind() == reflect.Bool {
			n = c04ArrayLens[g.rng.Intn(len(c04ArrayLens))]
		}
		s := reflect.MakeSlice(t, n, n)
		for i := 0; i < n; i++ {
			g.fill(s.Index(i), depth-1)
		}
		v.Set(s)
	case reflect.Map:
		r := g.rng.Intn(6)
		if r == 0 && !c04NullReachesNode(t) {
			return
		}
		m := reflect.MakeMap(t)
		n := g.rng.Intn(4)
		if r == 1 {
			n = 0
		}
		for i := 0; i < n; i++ {
			k := reflect.New(t.Key()).Elem()
			g.fill(k, 0)
			x := reflect.New(t.Elem()).Elem()
			g.fill(x, depth-1)
			m.SetMapIndex(k, x)
		}
		v.Set(m)
	case reflect.Ptr:
		if g.rng.Intn(4) == 0 {
			return
		}
		p := reflect.New(t.Elem())
		g.fill(p.Elem(), depth-1)
		if t.Elem().Kind() == reflect.Ptr && p.Elem().IsNil() && g.rng.Intn(2) == 0 {
			g.fill(p.Elem(), depth-1)
		}
		v.Set(p)
	case reflect.Struct:
		switch t {
		case c04TTime:
			v.Set(reflect.ValueOf(g.time()))
		case c04TCTime:
			v.Set(reflect.ValueOf(g.ctime()))
		case c04TURL:
			u, err := url.Parse(c04URLs[g.rng.Intn(len(c04URLs))])
			if err != nil {
				u = &url.URL{}
			}
			v.Set(reflect.ValueOf(*u))
		case c04TBigInt:
			v.Set(reflect.ValueOf(*g.bigInt()))
		case c04TBigFlt:
			v.Set(reflect.ValueOf(*g.bigFloat()))
		case c04TBigDec:
			v.Set(reflect.ValueOf(*g.decimal()))
		case c04TDFloat:
			v.Set(reflect.ValueOf(g.dfloat()))
		case c04TMedia:
			v.Set(reflect.ValueOf(types.Media{MediaType: c04MediaTypes[g.rng.Intn(len(c04MediaTypes))], Data: g.bytes(g.rng.Intn(20))}))
		case c04TNode:
			n := types.Node{Value: g.ifaceValue(0)}
			switch g.rng.Intn(4) {
			case 0:
			case 1:
				n.Children = []interface{}{}
			default:
				for i := g.rng.Intn(3) + 1; i > 0; i-- {
					if depth > 0 && g.rng.Intn(3) == 0 {
						n.Children = append(n.Children, types.Node{Value: g.ifaceValue(0), Children: []interface{}{g.ifaceValue(0)}})
					} else {
						n.Children = append(n.Children, g.ifaceValue(0))
					}
				}
			}
			v.Set(reflect.ValueOf(n))
		case c04TEdge:
			v.Set(reflect.ValueOf(types.Edge{Source: "src", Description: g.ifaceValue(0), Destination: c04Ints[g.rng.Intn(len(c04Ints))]}))
		default:
			for i := 0; i < t.NumField(); i++ {
				if t.Field(i).PkgPath != "" {
					f := v.Field(i)
					reflect.NewAt(f.Type(), f.Addr().UnsafePointer()).Elem().Set(c04SimpleValue(g, f.Type()))
					continue
				}
				if g.rng.Intn(5) != 0 || c04NullReachesNode(t.Field(i).Type) {
					g.fill(v.Field(i), depth-1)
				}
			}
		}
	default:
		panic("c04 fill: " + t.String())
	}
}

func c04SimpleValue(g *c04Gen, t reflect.Type) reflect.Value {
	x := reflect.New(t).Elem()
	switch t.Kind() {
	case reflect.Bool, reflect.Int, reflect.Int8, reflect.Int16, reflect.Int32, reflect.Int64, reflect.Uint, reflect.Uint8, reflect.Uint16,
		reflect.Uint32, reflect.Uint64, reflect.Float64, reflect.String:
		g.fill(x, 0)
	}
	return x
}

// a random root value of a random type
func c04Random(sub int64, defect bool) (root reflect.Value) {
	g := &c04Gen{rng: rand.New(rand.NewSource(sub))}
	t := g.typ(1+g.rng.Intn(4), defect)
	if t.Kind() == reflect.Interface {
		t = reflect.SliceOf(t)
	}
	root = reflect.New(t).Elem()
	g.fill(root, 4)
	return root
}

// ---------------------------------------------------------------------------
// hand-written types

type C04Emb struct {
	P int
	Q string
}
type c04S1 struct {
	A int
	B string
	C []int16
	D *int
	E map[string]int
}
type c04S2 struct {
	X c04S1
	Y []c04S1
	Z *c04S1
	I interface{}
}
type c04S3 struct {
	C04Emb
	R      int `ce:"name=rr"`
	hidden int
	T      []int16        `ce:"omit_never"`
	U      map[int]string `ce:"omit_never"`
}
type c04S4 struct {
	A []c04S1 `ce:"omit_never"`
}
type c04S5 struct {
	A *int           `ce:"omit_never"`
	B []string       `ce:"omit_never"`
	C map[string]int `ce:"omit_never"`
	D interface{}    `ce:"omit_never"`
	E string         `ce:"omit_never"`
	F []uint32       `ce:"omit_never"`
}
type c04Ordered struct {
	Last   string `ce:"order=9"`
	First  int    `ce:"order=-1"`
	Middle bool   `ce:"order=3"`
	None   uint8
	Never  int `ce:"omit"`
}
type c04Zeros struct {
	I  int         `ce:"omit_zero"`
	S  string      `ce:"omit_zero"`
	T  time.Time   `ce:"omit_zero"`
	P  *int        `ce:"omit_zero"`
	A  [2]int8     `ce:"omit_zero"`
	In C04Emb      `ce:"omit_zero"`
	B  big.Int     `ce:"omit_zero"`
	U  types.UID   `ce:"omit_zero"`
	L  []string    `ce:"omit_zero"`
	F  float64     `ce:"omit_zero"`
	M  map[int]int `ce:"omit_zero"`
}
type c04Lib struct {
	T   time.Time
	CT  compact_time.Time
	U   url.URL
	PU  *url.URL
	BI  big.Int
	PBI *big.Int
	BF  big.Float
	PBF *big.Float
	BD  apd.Decimal
	PBD *apd.Decimal
	DF  compact_float.DFloat
	ID  types.UID
	M   types.Media
	N   types.Node
	PT  *time.Time
	PCT *compact_time.Time
}
type c04Arrays struct {
	A [3]uint8
	B [2]string
	C types.UID
	D [2][2]int16
	E [1]*int
	F [0]float64
}
type c04MyU16 uint16
type c04MyBytes []byte
type c04MyString string
type c04MyInt int32

type c04ZooEntry struct {
	Name string
	V    interface{}
}

func c04MkSeq(elem reflect.Type, n int, array bool, g *c04Gen) interface{} {
	var s reflect.Value
	if array {
		s = reflect.New(reflect.ArrayOf(n, elem)).Elem()
	} else {
		s = reflect.MakeSlice(reflect.SliceOf(elem), n, n)
	}
	for i := 0; i < n; i++ {
		g.fill(s.Index(i), 0)
	}
	return s.Interface()
}

func c04Zoo() []c04ZooEntry {
	g := &c04Gen{rng: rand.New(rand.NewSource(404))}
	z := []c04ZooEntry{}
	add := func(name string, v interface{}) { z = append(z, c04ZooEntry{name, v}) }
	one := 1
	// scalars at their boundaries
	add("int8-min", int8(-128))
	add("int8-max", int8(127))
	add("int16-min", int16(-32768))
	add("int32-min", int32(math.MinInt32))
	add("int64-min", int64(math.MinInt64))
	add("int64-min+1", int64(math.MinInt64+1))
	add("int64-max", int64(math.MaxInt64))
	add("int-100", -100)
	add("int-101", -101)
	add("int100", 100)
	add("int101", 101)
	add("uint8-max", uint8(255))
	add("uint16-max", uint16(65535))
	add("uint32-max", uint32(math.MaxUint32))
	add("uint64-max", uint64(math.MaxUint64))
	add("uint64-2^63", uint64(1<<63))
	add("uint-2^63-1", uint(1<<63-1))
	add("named-int", c04MyInt(-7))
	add("duration", time.Duration(-5))
	add("bool-true", true)
	add("bool-false", false)
	for i, b := range c04F64s {
		add(fmt.Sprintf("f64-%d", i), math.Float64frombits(b))
	}
	for i, b := range c04F32s {
		add(fmt.Sprintf("f32-%d", i), math.Float32frombits(b))
	}
	for i, s := range c04Strings {
		add(fmt.Sprintf("string-%d", i), s)
	}
	add("string-100", strings.Repeat("abcdefghij", 10))
	add("named-string", c04MyString("named"))
	// arrays of every element type and the lengths around the short form
	for _, et := range c04ElemKinds {
		for _, n := range []int{0, 1, 15, 16, 17, 100} {
			add(fmt.Sprintf("slice-%v-%d", et, n), c04MkSeq(et, n, false, g))
			add(fmt.Sprintf("array-%v-%d", et, n), c04MkSeq(et, n, true, g))
		}
	}
	add("nil-bytes", []byte(nil))
	add("nil-u16", []uint16(nil))
	add("named-bytes", c04MyBytes{1, 2, 3})
	add("f32-slice-nans", []float32{math.Float32frombits(0x7f800001), math.Float32frombits(0x7fc00000), 1.5})
	add("f32-array-nans", [2]float32{math.Float32frombits(0x7f800001), math.Float32frombits(0xffc12345)})
	add("f64-slice-nans", []float64{math.Float64frombits(0x7ff0000000000001), math.NaN(), math.Inf(-1), math.Copysign(0, -1)})
	// containers
	add("strings", []string{"a", "", "longer than fifteen bytes"})
	add("nil-strings", []string(nil))
	add("empty-strings", []string{})
	add("nested-strings", [][]string{{"a"}, nil, {}})
	add("string-array", [2]string{"a", "b"})
	add("byte-slices", [][]byte{{1}, nil, {}})
	add("map-string-int", map[string]int{"a": 1})
	add("map-string-int-3", map[string]int{"a": 1, "b": -2, "c": 300})
	add("map-int-bytes", map[int][]byte{1: {1}, -2: nil})
	add("map-bool", map[bool]int{true: 1, false: 0})
	add("map-uid", map[types.UID]string{{1}: "one"})
	add("map-uint64", map[uint64]string{0: "z", math.MaxUint64: "max", 100: "h", 101: "h1"})
	add("map-int8", map[int8]bool{-128: true, 127: false})
	add("nil-map-string", map[string]int(nil))
	add("empty-map", map[int]int{})
	add("map-of-maps", map[string]map[string][]uint16{"x": {"y": {1, 2}}, "z": nil})
	add("ptr-int", &one)
	add("nil-ptr-int", (*int)(nil))
	add("ptr-ptr-int", func() **int { a := 1; b := &a; return &b }())
	add("ptr-array", &[2]string{"a", "b"})
	add("ptr-u16s", &[]uint16{1, 2})
	add("ptr-struct", &c04S1{A: 1})
	add("ptr-string", func() *string { s := "p"; return &s }())
	add("ptrs", []*c04S1{{A: 1}, nil})
	add("s1", c04S1{A: 1, B: "b", C: []int16{1, -2}, D: &one, E: map[string]int{"q": 2}})
	add("s1-zero", c04S1{})
	add("s2", c04S2{X: c04S1{A: 1}, Y: []c04S1{{B: "y"}}, Z: &c04S1{A: 3}, I: "iface"})
	add("s3-ok", c04S3{C04Emb: C04Emb{1, "q"}, R: 2, hidden: 3, T: []int16{}, U: map[int]string{}})
	add("s5-nils", c04S5{})
	add("ordered", c04Ordered{Last: "l", First: 1, Middle: true, None: 2, Never: 5})
	add("zeros-zero", c04Zeros{})
	add("zeros-set", c04Zeros{I: 1, S: "s", T: time.Date(2000, 1, 1, 0, 0, 0, 0, time.UTC), P: &one, A: [2]int8{0, 1}, In: C04Emb{P: 1}, B: *big.NewInt(5),
		U: types.UID{15: 1}, L: []string{"x"}, F: math.Copysign(0, -1), M: map[int]int{}})
	add("arrays", c04Arrays{A: [3]uint8{1, 2, 3}, B: [2]string{"x", "y"}, C: types.UID{1}, D: [2][2]int16{{1, 2}, {3, 4}}, E: [1]*int{&one}})
	add("empty-struct", struct{}{})
	add("anon-struct", struct {
		A int
		B []string
	}{1, []string{"x"}})
	// library types
	u, _ := url.Parse("http://x.com/a?b=c")
	bigI, _ := new(big.Int).SetString("18446744073709551617", 10)
	d, _, _ := apd.NewFromString("1.25")
	tt := time.Date(2020, 1, 2, 3, 4, 5, 6, time.UTC)
	ct := compact_time.AsCompactTime(tt)
	add("lib", c04Lib{T: tt, CT: ct, U: *u, PU: u, BI: *big.NewInt(-5), PBI: bigI, BF: *big.NewFloat(1.5), PBF: big.NewFloat(-0.1), BD: *d, PBD: d,
		DF: compact_float.DFloatValue(-2, 125), ID: types.UID{1, 2, 3}, M: types.Media{MediaType: "a/b", Data: []byte{1, 2}},
		N: types.Node{Value: 1, Children: []interface{}{2, "x"}}, PT: &tt, PCT: &ct})
	for i := 0; i < 8; i++ {
		add(fmt.Sprintf("time-%d", i), (&c04Gen{rng: rand.New(rand.NewSource(int64(i)))}).time())
	}
	for i := 0; i < 7; i++ {
		add(fmt.Sprintf("ctime-%d", i), (&c04Gen{rng: rand.New(rand.NewSource(int64(i) * 3))}).ctime())
	}
	for i, s := range c04BigInts {
		b, _ := new(big.Int).SetString(s, 10)
		add(fmt.Sprintf("bigint-%d", i), *b)
		add(fmt.Sprintf("pbigint-%d", i), b)
	}
	add("nil-pbigint", (*big.Int)(nil))
	for i, s := range c04Decimals {
		dd, _, _ := apd.NewFromString(s)
		add(fmt.Sprintf("decimal-%d", i), *dd)
		add(fmt.Sprintf("pdecimal-%d", i), dd)
	}
	for i := 0; i < 12; i++ {
		gg := &c04Gen{rng: rand.New(rand.NewSource(int64(i) * 7))}
		add(fmt.Sprintf("bigfloat-%d", i), *gg.bigFloat())
		add(fmt.Sprintf("pbigfloat-%d", i), gg.bigFloat())
		add(fmt.Sprintf("dfloat-%d", i), gg.dfloat())
	}
	for i, s := range c04URLs {
		uu, err := url.Parse(s)
		if err == nil {
			add(fmt.Sprintf("url-%d", i), *uu)
			add(fmt.Sprintf("purl-%d", i), uu)
		}
	}
	add("nil-purl", (*url.URL)(nil))
	add("uid", types.UID{1, 2, 3, 4, 5, 6, 7, 8, 9, 10, 11, 12, 13, 14, 15, 16})
	add("media", types.Media{MediaType: "a/b", Data: []byte{1, 2}})
	add("media-no-data", types.Media{MediaType: "text/plain"})
	add("media-long", types.Media{MediaType: "application/octet-stream", Data: make([]byte, 100)})
	add("node", types.Node{Value: 1, Children: []interface{}{2, "x"}})
	add("node-nested", types.Node{Value: "a", Children: []interface{}{types.Node{Value: 1}, 2}})
	add("node-nil-children", types.Node{Value: "a"})
	add("node-nil-value", types.Node{Children: []interface{}{}})
	add("ifaces", []interface{}{1, "a", 1.5, nil, []byte{1}, map[interface{}]interface{}{"a": 1}, int8(-1), uint16(2), float32(1.5), -5, true,
		uint64(math.MaxUint64), tt, u, bigI, []uint16{1}, types.UID{9}, types.Media{MediaType: "m/t"}, compact_float.DFloatValue(1, 5), []interface{}{}})
	add("iface-map", map[interface{}]interface{}{1: "a", "b": 2.5, true: nil})
	// constructs the current code does not bring back
	add("defect-int-slice", []int{1, -2})
	add("defect-int-slice-empty", []int{})
	add("defect-uint-slice", []uint{1, 2})
	add("defect-int-array", [2]int{1, -2})
	add("defect-uint-array", [2]uint{1, 2})
	add("defect-bool-slice", []bool{true, false, true})
	add("defect-bool-slice-9", []bool{true, false, true, true, false, false, true, false, true})
	add("defect-bool-slice-empty", []bool{})
	add("defect-bool-array", [3]bool{true, false, true})
	add("defect-ptr-slice", &[]string{"x"})
	add("defect-ptr-map", &map[string]int{"a": 1})
	add("defect-ptr-iface", func() *interface{} { var i interface{} = 1; return &i }())
	add("defect-ptr-media", &types.Media{MediaType: "a/b", Data: []byte{1, 2}}) // repaired by bfbf710; kept as a directed input
	add("ptr-media-in-struct", struct {
		M *types.Media
		L []*types.Media
	}{&types.Media{MediaType: "text/plain"}, []*types.Media{{MediaType: "a/b", Data: []byte{9}}, nil}})
	add("defect-edge", types.Edge{Source: "a", Description: 1, Destination: "b"})
	add("defect-edge-in-list", []interface{}{types.Edge{Source: "a", Description: nil, Destination: 2}})
	add("defect-named-elem-duration", []time.Duration{1, 2})
	add("defect-named-elem-u16", []c04MyU16{1, 2})
	add("named-elem-array", [2]time.Duration{1, 2})
	add("defect-nil-map-int-key", map[int]string(nil))
	add("defect-nil-map-bool-key", map[bool]string(nil))
	add("defect-nil-struct-slice", []c04S1(nil))
	add("defect-nil-time-slice", []time.Time(nil))
	add("defect-nil-int-ptr-ok", []*int(nil))
	add("defect-nil-inner-struct-slice", [][]c04S1{nil})
	add("defect-nil-struct-slice-value", map[string][]c04S1{"a": nil})
	add("defect-s3-nil-map", c04S3{C04Emb: C04Emb{1, "q"}, R: 2})
	add("defect-s4-nil-slice", c04S4{})
	add("defect-ptr-to-nil-ptr", func() **int { var a *int; return &a }())
	add("defect-ptr-to-nil-slice", func() *[]string { var a []string; return &a }())
	add("defect-media-empty-type", types.Media{})
	add("defect-ptr-ptr-struct", func() **c04S1 { a := &c04S1{A: 1}; return &a }())
	add("defect-ptr-ptr-array", func() **[2]string { a := &[2]string{"a", "b"}; return &a }())
	add("defect-ptr-zero-ctime", &compact_time.Time{})
	add("defect-ptr-iface-list", func() *interface{} { var i interface{} = []interface{}{1}; return &i }())
	add("defect-big-float-wide", func() *big.Float {
		f, _ := new(big.Float).SetPrec(200).SetString("1.234567890123456789012345678901234567890")
		return f
	}())
	return z
}

// ---------------------------------------------------------------------------
// the pipeline: decoder -> validator -> (recorder, builder)

type c04Tee struct {
	rec       Recorder
	next      events.DataEventReceiver
	inBuilder bool
}

func (t *c04Tee) fwd() {
	e := t.rec.Evs[len(t.rec.Evs)-1]
	t.inBuilder = true
	play(t.next, e)
	t.inBuilder = false
}
func (t *c04Tee) OnBeginDocument()                               { t.rec.OnBeginDocument(); t.fwd() }
func (t *c04Tee) OnEndDocument()                                 { t.rec.OnEndDocument(); t.fwd() }
func (t *c04Tee) OnVersion(v uint64)                             { t.rec.OnVersion(v); t.fwd() }
func (t *c04Tee) OnPadding()                                     { t.rec.OnPadding(); t.fwd() }
func (t *c04Tee) OnComment(m bool, c []byte)                     { t.rec.OnComment(m, c); t.fwd() }
func (t *c04Tee) OnNull()                                        { t.rec.OnNull(); t.fwd() }
func (t *c04Tee) OnBoolean(v bool)                               { t.rec.OnBoolean(v); t.fwd() }
func (t *c04Tee) OnTrue()                                        { t.rec.OnTrue(); t.fwd() }
func (t *c04Tee) OnFalse()                                       { t.rec.OnFalse(); t.fwd() }
func (t *c04Tee) OnPositiveInt(v uint64)                         { t.rec.OnPositiveInt(v); t.fwd() }
func (t *c04Tee) OnNegativeInt(v uint64)                         { t.rec.OnNegativeInt(v); t.fwd() }
func (t *c04Tee) OnInt(v int64)                                  { t.rec.OnInt(v); t.fwd() }
func (t *c04Tee) OnBigInt(v *big.Int)                            { t.rec.OnBigInt(v); t.fwd() }
func (t *c04Tee) OnFloat(v float64)                              { t.rec.OnFloat(v); t.fwd() }
func (t *c04Tee) OnBigFloat(v *big.Float)                        { t.rec.OnBigFloat(v); t.fwd() }
func (t *c04Tee) OnDecimalFloat(v compact_float.DFloat)          { t.rec.OnDecimalFloat(v); t.fwd() }
func (t *c04Tee) OnBigDecimalFloat(v *apd.Decimal)               { t.rec.OnBigDecimalFloat(v); t.fwd() }
func (t *c04Tee) OnNan(s bool)                                   { t.rec.OnNan(s); t.fwd() }
func (t *c04Tee) OnUID(v []byte)                                 { t.rec.OnUID(v); t.fwd() }
func (t *c04Tee) OnTime(v compact_time.Time)                     { t.rec.OnTime(v); t.fwd() }
func (t *c04Tee) OnList()                                        { t.rec.OnList(); t.fwd() }
func (t *c04Tee) OnMap()                                         { t.rec.OnMap(); t.fwd() }
func (t *c04Tee) OnRecordType(id []byte)                         { t.rec.OnRecordType(id); t.fwd() }
func (t *c04Tee) OnRecord(id []byte)                             { t.rec.OnRecord(id); t.fwd() }
func (t *c04Tee) OnEdge()                                        { t.rec.OnEdge(); t.fwd() }
func (t *c04Tee) OnNode()                                        { t.rec.OnNode(); t.fwd() }
func (t *c04Tee) OnEndContainer()                                { t.rec.OnEndContainer(); t.fwd() }
func (t *c04Tee) OnMarker(id []byte)                             { t.rec.OnMarker(id); t.fwd() }
func (t *c04Tee) OnReferenceLocal(id []byte)                     { t.rec.OnReferenceLocal(id); t.fwd() }
func (t *c04Tee) OnArray(a events.ArrayType, n uint64, d []byte) { t.rec.OnArray(a, n, d); t.fwd() }
func (t *c04Tee) OnStringlikeArray(a events.ArrayType, d string) {
	t.rec.OnStringlikeArray(a, d)
	t.fwd()
}
func (t *c04Tee) OnMedia(mt string, d []byte)                 { t.rec.OnMedia(mt, d); t.fwd() }
func (t *c04Tee) OnCustomBinary(ct uint64, d []byte)          { t.rec.OnCustomBinary(ct, d); t.fwd() }
func (t *c04Tee) OnCustomText(ct uint64, d string)            { t.rec.OnCustomText(ct, d); t.fwd() }
func (t *c04Tee) OnArrayBegin(a events.ArrayType)             { t.rec.OnArrayBegin(a); t.fwd() }
func (t *c04Tee) OnMediaBegin(mt string)                      { t.rec.OnMediaBegin(mt); t.fwd() }
func (t *c04Tee) OnCustomBegin(a events.ArrayType, ct uint64) { t.rec.OnCustomBegin(a, ct); t.fwd() }
func (t *c04Tee) OnArrayChunk(n uint64, more bool)            { t.rec.OnArrayChunk(n, more); t.fwd() }
func (t *c04Tee) OnArrayData(d []byte)                        { t.rec.OnArrayData(d); t.fwd() }
func (t *c04Tee) OnError()                                    { t.next.OnError() }

type c04Run struct {
	Format     string
	Doc        []byte
	MarshalErr string
	PubOut     interface{}
	PubErr     string
	Evs        []Ev
	Obs        string // ok panic stopped
	Built      interface{}
}

func c04Marshal(format string, root interface{}, cfg *configuration.Configuration) (doc []byte, msg string) {
	defer func() {
		if r := recover(); r != nil {
			msg = fmt.Sprint("panic: ", r)
		}
	}()
	var err error
	if format == "cbe" {
		doc, err = ce.MarshalToCBEDocument(root, cfg)
	} else {
		doc, err = ce.MarshalToCTEDocument(root, cfg)
	}
	if err != nil {
		msg = err.Error()
	}
	return
}

func c04Unmarshal(format string, doc []byte, template interface{}, cfg *configuration.Configuration) (out interface{}, msg string) {
	defer func() {
		if r := recover(); r != nil {
			msg = fmt.Sprint("panic: ", r)
		}
	}()
	var err error
	if format == "cbe" {
		out, err = ce.UnmarshalFromCBEDocument(doc, template, cfg)
	} else {
		out, err = ce.UnmarshalFromCTEDocument(doc, template, cfg)
	}
	if err != nil {
		msg = err.Error()
	}
	return
}

// the same with a recorder in front of the builder
func c04Traced(format string, doc []byte, template interface{}, cfg *configuration.Configuration) (evs []Ev, obs string, built interface{}) {
	b := builder.NewSession(nil, cfg).NewBuilderFor(template)
	tee := &c04Tee{next: b}
	rules := ce.NewRules(tee, cfg)
	obs = "ok"
	func() {
		defer func() {
			if r := recover(); r != nil {
				if tee.inBuilder {
					obs = "panic"
				} else {
					obs = "stopped"
				}
			}
		}()
		var err error
		if format == "cbe" {
			err = ce.NewCBEDecoder(cfg).DecodeDocument(doc, rules)
		} else {
			err = ce.NewCTEDecoder(cfg).DecodeDocument(doc, rules)
		}
		if err != nil {
			if tee.inBuilder {
				obs = "panic"
			} else {
				obs = "stopped"
			}
		}
	}()
	evs = tee.rec.Evs
	if obs == "ok" {
		built = b.GetBuiltObject()
	}
	return
}

func c04Exec(format string, root reflect.Value) *c04Run {
	cfg := configuration.New()
	r := &c04Run{Format: format}
	r.Doc, r.MarshalErr = c04Marshal(format, root.Interface(), cfg)
	if r.MarshalErr != "" {
		return r
	}
	template := reflect.New(root.Type()).Elem().Interface()
	r.PubOut, r.PubErr = c04Unmarshal(format, r.Doc, template, configuration.New())
	r.Evs, r.Obs, r.Built = c04Traced(format, r.Doc, template, configuration.New())
	return r
}

// the value of type t inside what GetBuiltObject returned (struct and array kinds come back by pointer)
func c04Deref(out interface{}, t reflect.Type) (reflect.Value, bool) {
	v := reflect.ValueOf(out)
	if !v.IsValid() {
		return v, false
	}
	if v.Type() == t {
		return v, true
	}
	if v.Kind() == reflect.Ptr && v.Type().Elem() == t && !v.IsNil() {
		return v.Elem(), true
	}
	return v, false
}

// verdict of the property on one run: ok, or the failure class and what was seen
func (r *c04Run) verdict(root reflect.Value) (ok bool, class, got string) {
	if r.MarshalErr != "" {
		return false, "marshal-error", "marshal: " + r.MarshalErr
	}
	if r.PubErr != "" {
		return false, "unmarshal-error", "unmarshal: " + r.PubErr
	}
	out, good := c04Deref(r.PubOut, root.Type())
	if !good {
		return false, "wrong-type", fmt.Sprintf("unmarshal returned %T", r.PubOut)
	}
	if eq, where := c04Equal(root, out, "v"); !eq {
		return false, "value-changed", where
	}
	return true, "", ""
}

// repaired: pointer-to-media by /repo commit bfbf710 (ptrBuilder.BuildFromMedia builds into ptr.Elem())
var c04Repaired = map[string]bool{"pointer-to-media": true}

func c04Key(root reflect.Value, class, format string) string {
	feats := []string{}
	c04Features(root, format, &feats)
	// constructs repaired in /repo name a failure only when nothing else can (so that a regression on
	// the directed input is reported under the old key, and they never hide another construct)
	open := []string{}
	for _, f := range feats {
		if !c04Repaired[f] {
			open = append(open, f)
		}
	}
	if len(open) > 0 {
		feats = open
	}
	if len(feats) > 0 {
		return "C04/" + feats[0] + "/" + format
	}
	return "C04/unexplained-" + class + "/" + format + "/" + c04KindName(root.Type())
}

// ---------------------------------------------------------------------------
// the correspondence case of one run

func c04OptBF(f func() *big.Float) (s string) {
	defer func() {
		if r := recover(); r != nil {
			s = "None"
		}
	}()
	v := f()
	if v == nil {
		return "None"
	}
	return cSome(cBigFloat(v))
}

func c04LibTables(evs []Ev) string {
	urls, times, decs, bdecs := []string{}, []string{}, []string{}, []string{}
	seen := map[string]bool{}
	for _, e := range evs {
		switch e.K {
		case "a", "sa":
			if e.A != events.ArrayTypeResourceID && e.A != events.ArrayTypeReferenceRemote {
				continue
			}
			k := "u" + string(e.Data)
			if seen[k] {
				continue
			}
			seen[k] = true
			res := "None"
			if u, err := url.Parse(string(e.Data)); err == nil {
				res = cSome(cBytes([]byte(u.String())))
			}
			urls = append(urls, cPair(cBytes(e.Data), res))
		case "tm":
			k := "t" + e.T.String()
			if seen[k] {
				continue
			}
			seen[k] = true
			res := "None"
			if gt, err := e.T.AsGoTime(); err == nil {
				res = cSome(cBytes([]byte(compact_time.AsCompactTime(gt).String())))
			}
			times = append(times, cPair(cBytes([]byte(e.T.String())), res))
		case "df":
			d := e.DF
			if d.IsSpecial() || d.IsZero() {
				continue
			}
			decs = append(decs, cPair(cDFloat(d), c04OptBF(func() *big.Float { return d.BigFloat() })))
		case "bdf":
			if e.BDF == nil || e.BDF.Form != apd.Finite {
				continue
			}
			d := e.BDF
			bdecs = append(bdecs, cPair(cAPD(d), c04OptBF(func() *big.Float {
				f, err := conversions.BigDecimalFloatToBigFloat(d)
				if err != nil {
					return nil
				}
				return f
			})))
		}
	}
	return cApp("mkLib", cList(urls), cList(times), cList(decs), cList(bdecs))
}

// chunked arrays reach the builder as begin / chunk / data events that the harness has to put
// together again for the url table
func c04Reassemble(evs []Ev) []Ev {
	out := []Ev{}
	var cur *Ev
	for _, e := range evs {
		switch e.K {
		case "ab":
			if cur != nil {
				out = append(out, *cur)
			}
			c := Ev{K: "a", A: e.A}
			cur = &c
		case "ad":
			if cur != nil {
				cur.Data = append(cur.Data, e.Data...)
			}
		case "ac":
			if cur != nil && !e.B && e.N == 0 {
				out = append(out, *cur)
				cur = nil
			}
		default:
			if cur != nil {
				out = append(out, *cur)
				cur = nil
			}
			out = append(out, e)
		}
	}
	if cur != nil {
		out = append(out, *cur)
	}
	return out
}

func (r *c04Run) caseTerm(root reflect.Value) (term string, ok bool) {
	if r.MarshalErr != "" {
		return "", false
	}
	obs := "ObsStopped"
	switch r.Obs {
	case "panic":
		obs = cApp("ObsPanic", cNi(len(r.Evs)-1))
	case "ok":
		out, good := c04Deref(r.Built, root.Type())
		if !good {
			return "", false
		}
		obs = cApp("ObsOk", c04Val(out))
	}
	src := "None"
	feats := []string{}
	c04Features(root, "cbe", &feats)
	wideBigFloat := false // written as a decimal float by a library conversion that Model/Cbe.v leaves out
	for _, f := range feats {
		wideBigFloat = wideBigFloat || f == "big-float-wider-than-float64"
	}
	if r.Format == "cbe" && !c04MultiMap(root) && !wideBigFloat {
		src = cSome(cPair("(mkCfg true false OEmpty [])", c04Val(root)))
	}
	return cTuple(c04LibTables(c04Reassemble(r.Evs)), "(mkBcfg true)", c04Type(root.Type()), src, cEvs(r.Evs), obs), true
}

// ---------------------------------------------------------------------------

func c04Short(s string, n int) string {
	if len(s) > n {
		return s[:n] + "…"
	}
	return s
}

func c04One(c *Ctx, cf *caseFile, gen string, root reflect.Value, withCase bool) {
	for _, format := range []string{"cbe", "cte"} {
		feats := []string{}
		c04Features(root, format, &feats)
		r := c04Exec(format, root)
		ok, class, got := r.verdict(root)
		typeTerm := c04Type(root.Type())
		valTerm := c04Val(root)
		c.Count(format+"|"+typeTerm+"|"+valTerm, !root.IsZero())
		c.Dist("kind/" + root.Kind().String())
		c.Dist(fmt.Sprintf("outcome/%s/ok=%v", format, ok))
		c.Dist("builder/" + format + "/" + r.Obs)
		for len(feats) > 0 && c04Repaired[feats[0]] {
			feats = feats[1:]
		}
		if len(feats) > 0 {
			c.Dist("known-defect-construct/" + feats[0])
		} else {
			c.Dist("known-defect-construct/none")
		}
		if len(c.Rep.Samples) < 8 && len(valTerm) < 300 && len(valTerm) > 30 {
			c.Sample(map[string]string{"gen": gen, "format": format, "type": root.Type().String(), "value": valTerm, "ok": fmt.Sprint(ok)})
		}
		if !ok {
			c.Fail(Replay{Kind: "roundtrip", Key: c04Key(root, class, format),
				Input:  map[string]string{"gen": gen, "format": format, "type": c04Short(root.Type().String(), 200), "value": c04Short(valTerm, 400)},
				Expect: "unmarshal(marshal(v)) succeeds and equals v", Got: c04Short(class+": "+got, 300)})
		}
		// the traced pipeline and the public entry point must agree
		if r.MarshalErr == "" && (r.PubErr == "") != (r.Obs == "ok") {
			c.Fail(Replay{Kind: "roundtrip", Key: "C04/harness/traced-pipeline-differs/" + format,
				Input:  map[string]string{"gen": gen, "format": format},
				Expect: "public error = " + r.PubErr, Got: "traced outcome " + r.Obs})
		}
		if withCase {
			if term, good := r.caseTerm(root); good {
				cf.Add(term, fmt.Sprintf("%s %s type=%s obs=%s value=%s", gen, format, c04Short(root.Type().String(), 80), r.Obs, c04Short(valTerm, 200)))
			}
		}
	}
}

func c04Root(gen string) (reflect.Value, bool) {
	parts := strings.Split(gen, ":")
	switch parts[0] {
	case "zoo":
		for _, e := range c04Zoo() {
			if e.Name == parts[1] {
				return reflect.ValueOf(e.V), true
			}
		}
	case "rand":
		if len(parts) == 3 {
			sub, err := strconv.ParseInt(parts[1], 10, 64)
			if err == nil {
				return c04Random(sub, parts[2] == "d"), true
			}
		}
	}
	return reflect.Value{}, false
}

func runC04(c *Ctx) {
	c.Rep.Rule = "values: a zoo of hand-written values (every scalar type at its boundaries, typed slices and arrays of every element type at lengths 0 1 15 16 17 100, " +
		"strings around the 15-byte short form, containers, structs with tags / embedded / unexported fields, every library type, interfaces, " +
		"and one value per construct the code is known not to bring back) plus random values of random types (reflect.StructOf, nested containers to depth 4; " +
		"half of them drawn from the universe without the known-defect constructs); each value goes through CBE and CTE; non-trivial = not the zero value of its type; " +
		"distinct = distinct (format, type, value)"
	cf := c.Cases("marshalrt", "CE.Model.MarshalRT", "marshalrt_case", "marshalrt_case_ok")
	for _, e := range c04Zoo() {
		c04One(c, cf, "zoo:"+e.Name, reflect.ValueOf(e.V), true)
	}
	n := c.Pick(450, 6000)
	for i := 0; i < n; i++ {
		sub := c.Rng.Int63()
		d := "c"
		if i%2 == 1 {
			d = "d"
		}
		gen := fmt.Sprintf("rand:%d:%s", sub, d)
		root, _ := c04Root(gen)
		c04One(c, cf, gen, root, i < c.Pick(450, 1500))
	}
}

func replayC04(r *Replay) (bool, string) {
	root, ok := c04Root(r.Input["gen"])
	if !ok {
		return false, "bad replay input"
	}
	run := c04Exec(r.Input["format"], root)
	good, class, got := run.verdict(root)
	if good {
		return true, fmt.Sprintf("%s round trip of %v gives an equal value", r.Input["format"], root.Type())
	}
	return false, fmt.Sprintf("%s round trip of a %v: %s: %s (class %s)", r.Input["format"], root.Type(), class, got, c04Key(root, class, r.Input["format"]))
}

var _ = sort.Strings
