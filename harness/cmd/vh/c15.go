package main

import (
	"fmt"
	"math"

	compact_float "github.com/kstenerud/go-compact-float"
	"github.com/cockroachdb/apd/v2"
)

func init() { register("C15", runC15, replayEvents("C15", c15Oracle)) }

// nnGo: the only rewriting the property allows the validator to perform.
func nnGo(e Ev) Ev {
	switch e.K {
	case "bi":
		if e.Big == nil {
			return Ev{K: "null"}
		}
	case "bf":
		if e.BF == nil {
			return Ev{K: "null"}
		}
	case "bdf":
		if e.BDF == nil {
			return Ev{K: "null"}
		}
		if e.BDF.Form == apd.NaNSignaling {
			return Ev{K: "nan", B: true}
		}
		if e.BDF.Form == apd.NaN {
			return Ev{K: "nan", B: false}
		}
	case "fl":
		if math.IsNaN(e.F) {
			return Ev{K: "nan", B: math.Float64bits(e.F)&(1<<51) == 0}
		}
	case "df":
		if e.DF == compact_float.SignalingNaN() {
			return Ev{K: "nan", B: true}
		}
		if e.DF.IsNan() {
			return Ev{K: "nan", B: false}
		}
	}
	return e
}

// c15Oracle: behind the validator exactly the accepted events arrive, in order, rewritten only by nnGo.
func c15Oracle(es []Ev) (bool, string, string) {
	rej, out, _ := runRules(defaultRulesCfg(), es)
	n := len(es)
	if rej >= 0 {
		n = rej
	}
	want := make([]Ev, n)
	for i := 0; i < n; i++ {
		want[i] = nnGo(es[i])
	}
	w, g := evsString(want), evsString(out)
	return w == g, w, g
}

func runC15(c *Ctx) {
	c.Rep.Rule = "rules-valid documents from the tree generator (all scalar kinds incl. nil big numbers and NaN in every carrier event) and their mutants; a recording receiver behind rules.NewRules; non-trivial = more than 3 events; distinct by event text"
	opt := DefaultGenOpts()
	g := NewEvGen(c.Rng, opt)
	n := c.Pick(400, 8000)
	special := []Ev{{K: "bi"}, {K: "bf"}, {K: "bdf"}, {K: "fl", F: math.NaN()}, {K: "fl", F: math.Float64frombits(0x7ff0000000000001)},
		{K: "fl", F: math.Float64frombits(0xfff8000000000123)}, {K: "df", DF: compact_float.QuietNaN()}, {K: "df", DF: compact_float.SignalingNaN()},
		{K: "bdf", BDF: &apd.Decimal{Form: apd.NaN}}, {K: "bdf", BDF: &apd.Decimal{Form: apd.NaNSignaling}}}
	for i := 0; i < n; i++ {
		es := g.Document()
		if i%3 == 0 { // splice a nil / NaN carrier in as a list element or replace the top-level scalar
			sp := special[c.Rng.Intn(len(special))]
			es = []Ev{{K: "bd"}, {K: "v"}, {K: "l"}, sp, {K: "pi", N: uint64(i)}, special[c.Rng.Intn(len(special))], {K: "e"}, {K: "ed"}}
		}
		if i%4 == 3 {
			es = g.Mutate(es)
		}
		ok, want, got := c15Oracle(es)
		rej, out := c.addRulesCase(defaultRulesCfg(), es)
		if i%2 == 0 {
			c.addDenCase(es) // the shared denotation function: Go twin vs Coq definition
		}
		c.Count(evsString(es), len(es) > 3)
		c.Dist(fmt.Sprintf("stream/accepted=%v", rej < 0))
		_ = out
		if i < 3 {
			c.Sample(evsString(es))
		}
		if !ok {
			c.Fail(Replay{Kind: "events", Key: "C15/forwarded-differs", Input: map[string]string{"events": evsString(es)}, Expect: want, Got: got})
		}
	}
}
