package main

// C22 — CBE encoding is minimal and canonical.
//
// Search oracle on the implementation (independent of the encoder's own logic):
//   - integers: encoded length == minimum over the format's menu of integer forms,
//     for every event form (OnPositiveInt / OnNegativeInt / OnInt / OnBigInt);
//   - binary floats: encoded length <= 1 + bytes of the narrowest of bfloat16 / float32 /
//     float64 that holds the value exactly (exactness decided on the binary expansion);
//   - arrays / strings: header length == short header whenever the format has one for the
//     type and the count is <= 15 (OnArray, OnStringlikeArray, chunked API with one final
//     chunk), the regular header otherwise; identical bytes through the three APIs;
//   - decode -> re-encode of encoder-produced documents is byte-identical.
// Correspondence: Go encoder / decoder vs CE.Model.Cbe on the shared CBE input families.

import (
	"bytes"
	"encoding/hex"
	"fmt"
	"math"
	"math/big"
	"strconv"

	"github.com/cockroachdb/apd/v2"
	"github.com/kstenerud/go-concise-encoding/ce/events"
)

func init() { register("C22", runC22, replayC22) }

// ---------------------------------------------------------------------------
// independent size oracles

func ulebLen(v uint64) int {
	n := 1
	for v >= 0x80 {
		v >>= 7
		n++
	}
	return n
}

// c22MinIntLen: the least length among the integer forms of the CBE format that can hold sign*mag:
// small int (1 byte, -100..100 except negative zero), fixed 8/16/32/64-bit magnitude with a sign-carrying
// type byte (2/3/5/9 bytes), variable length (type, ULEB byte count, magnitude bytes).
func c22MinIntLen(neg bool, mag *big.Int) int {
	best := -1
	try := func(n int) {
		if best < 0 || n < best {
			best = n
		}
	}
	if mag.Cmp(big.NewInt(100)) <= 0 && !(neg && mag.Sign() == 0) {
		try(1)
	}
	for _, w := range []int{1, 2, 4, 8} {
		if mag.BitLen() <= 8*w {
			try(1 + w)
		}
	}
	nbytes := (mag.BitLen() + 7) / 8
	try(1 + ulebLen(uint64(nbytes)) + nbytes)
	return best
}

// c22FloatMinLen: 1 + byte width of the narrowest binary float format holding the finite non-zero value exactly.
// value = sig * 2^e with sig odd; a format with p significand bits, minimum exponent -126 and maximum 127
// holds it iff the top bit position T = e + bitlen(sig) - 1 <= 127 and either T >= -126 and bitlen(sig) <= p
// (normal) or e >= -126 - (p - 1) (subnormal grid).
func c22FloatWidth(bits uint64) int {
	frac := bits & (1<<52 - 1)
	exp := int((bits >> 52) & 0x7ff)
	sig := frac
	e := -1074
	if exp != 0 {
		sig |= 1 << 52
		e = exp - 1075
	}
	for sig&1 == 0 {
		sig >>= 1
		e++
	}
	bl := 0
	for s := sig; s != 0; s >>= 1 {
		bl++
	}
	T := e + bl - 1
	fits := func(p int) bool {
		if T > 127 {
			return false
		}
		if T >= -126 {
			return bl <= p
		}
		return e >= -126-(p-1)
	}
	switch {
	case fits(8):
		return 2
	case fits(24):
		return 4
	}
	return 8
}

// array types for which the CBE format has a short (length-in-type-byte) form, from the format description:
// strings (80..8f) and the plane-7f typed arrays 0n..an (uid, i8, u16, i16, u32, i32, u64, i64, f16, f32, f64)
var c22HasShortForm = map[events.ArrayType]bool{
	events.ArrayTypeString: true, events.ArrayTypeUID: true, events.ArrayTypeInt8: true, events.ArrayTypeUint16: true, events.ArrayTypeInt16: true,
	events.ArrayTypeUint32: true, events.ArrayTypeInt32: true, events.ArrayTypeUint64: true, events.ArrayTypeInt64: true,
	events.ArrayTypeFloat16: true, events.ArrayTypeFloat32: true, events.ArrayTypeFloat64: true,
}

// types whose regular header is one byte (plane 1): string 90, resource id 91, uint8 93, bit 94; all others are 7f xx
var c22OneByteHeader = map[events.ArrayType]bool{
	events.ArrayTypeString: true, events.ArrayTypeResourceID: true, events.ArrayTypeUint8: true, events.ArrayTypeBit: true,
}

var c22ArrayTypes = []events.ArrayType{events.ArrayTypeString, events.ArrayTypeResourceID, events.ArrayTypeReferenceRemote, events.ArrayTypeBit,
	events.ArrayTypeUint8, events.ArrayTypeUint16, events.ArrayTypeUint32, events.ArrayTypeUint64, events.ArrayTypeInt8, events.ArrayTypeInt16,
	events.ArrayTypeInt32, events.ArrayTypeInt64, events.ArrayTypeFloat16, events.ArrayTypeFloat32, events.ArrayTypeFloat64, events.ArrayTypeUID}

func c22ArrayLen(t events.ArrayType, count uint64, dataLen int) int {
	if count <= 15 && c22HasShortForm[t] {
		if t == events.ArrayTypeString {
			return 1 + dataLen
		}
		return 2 + dataLen
	}
	h := 2
	if c22OneByteHeader[t] {
		h = 1
	}
	return h + ulebLen(count<<1) + dataLen
}

// ---------------------------------------------------------------------------
// the checks on the implementation

func c22CheckInt(c *Ctx, e Ev, neg bool, mag *big.Int) {
	out, ok := cbeEncodeOne(e)
	want := c22MinIntLen(neg, mag)
	sign := "+"
	if neg {
		sign = "-"
	}
	c.Count("int|"+e.String(), mag.BitLen() > 6)
	c.Dist(fmt.Sprintf("oracle/int/len=%d", want))
	if !ok || len(out) != want {
		c.Fail(Replay{Kind: "int", Key: fmt.Sprintf("C22/int-not-minimal/%s/len=%d", e.K, want),
			Input:  map[string]string{"form": e.K, "sign": sign, "magnitude": mag.String()},
			Expect: fmt.Sprintf("%d bytes", want), Got: fmt.Sprintf("ok=%v %s", ok, hex.EncodeToString(out))})
	}
}

func c22IntEvent(form string, neg bool, mag *big.Int) (Ev, bool) {
	for _, e := range cbeIntForms(neg, mag) {
		if e.K == form {
			return e, true
		}
	}
	return Ev{}, false
}

func c22CheckFloat(c *Ctx, bits uint64) {
	v := math.Float64frombits(bits)
	out, ok := cbeEncodeOne(Ev{K: "fl", F: v})
	var want int
	class := "finite"
	switch {
	case math.IsNaN(v), math.IsInf(v, 0):
		want, class = 3, "special" // bfloat16 holds infinities and NaNs: 1 + 2
	case v == 0:
		want, class = 3, "zero"
	default:
		want = 1 + c22FloatWidth(bits)
	}
	c.Count(fmt.Sprintf("fl|%016x", bits), class == "finite")
	c.Dist(fmt.Sprintf("oracle/float/%s/len<=%d", class, want))
	bad := !ok || len(out) > want
	if class == "finite" && ok && len(out) != want {
		bad = true // a shorter output cannot hold the value
	}
	if bad {
		c.Fail(Replay{Kind: "float", Key: fmt.Sprintf("C22/float-not-narrowest/want=%d", want),
			Input:  map[string]string{"bits": fmt.Sprintf("%016x", bits)},
			Expect: fmt.Sprintf("%d bytes", want), Got: fmt.Sprintf("ok=%v %s", ok, hex.EncodeToString(out))})
	}
}

func c22CheckArray(c *Ctx, t events.ArrayType, n uint64, data []byte) {
	want := c22ArrayLen(t, n, len(data))
	outs := map[string][]byte{}
	apis := []string{"a", "c1"}
	if t.ElementSize() == 8 {
		apis = append(apis, "sa")
	}
	for _, api := range apis {
		var es []Ev
		switch api {
		case "a":
			es = []Ev{{K: "a", A: t, N: n, Data: data}}
		case "sa":
			es = []Ev{{K: "sa", A: t, Data: data}}
		case "c1":
			es = []Ev{{K: "ab", A: t}, {K: "ac", N: n, B: false}, {K: "ad", Data: data}}
		}
		out, ok := cbeEncode(es)
		outs[api] = out
		c.Count(fmt.Sprintf("arr|%d|%d|%s", t, n, api), n >= 14 && n <= 17)
		c.Dist(fmt.Sprintf("oracle/array/%s/short=%v", api, n <= 15 && c22HasShortForm[t]))
		if !ok || len(out) != want || !bytes.Equal(out, outs["a"]) {
			c.Fail(Replay{Kind: "array", Key: fmt.Sprintf("C22/array-header/%s/type=%d", api, t),
				Input:  map[string]string{"type": strconv.Itoa(int(t)), "count": strconv.FormatUint(n, 10), "api": api, "data": hex.EncodeToString(data)},
				Expect: fmt.Sprintf("%d bytes, same as OnArray", want), Got: fmt.Sprintf("ok=%v %s", ok, hex.EncodeToString(out))})
		}
	}
}

// c22Reencode: decode an encoder-produced document and encode the events again.
func c22Reencode(doc []byte) (again []byte, ok bool, note string) {
	r := cbeDecode(doc, nil)
	if r.Err {
		return nil, false, "the decoder rejects the encoder's output"
	}
	again, ok = cbeEncode(r.Evs)
	if !ok {
		return again, false, "the encoder rejects the decoded events"
	}
	return again, true, ""
}

func c22CheckReencode(c *Ctx, doc []byte, class string) {
	again, ok, note := c22Reencode(doc)
	c.Count("re|"+string(doc), len(doc) > 4)
	c.Dist(fmt.Sprintf("oracle/reencode/%s/same=%v", class, ok && bytes.Equal(again, doc)))
	if !ok || !bytes.Equal(again, doc) {
		c.Fail(Replay{Kind: "reencode", Key: "C22/reencode/" + class,
			Input:  map[string]string{"case": class, "doc_hex": hex.EncodeToString(doc)},
			Expect: hex.EncodeToString(doc), Got: hex.EncodeToString(again), Note: note})
	}
}

// c22InFragment: does a generated rules-valid stream lie in the fragment covered by the idempotence theorem
// (CbeProofs.wf_body)? Excluded: times, custom text (one event or chunked), big floats that are not exactly a float64,
// big decimals with the exponent MinInt32.
func c22InFragment(es []Ev) bool {
	for _, e := range es {
		switch e.K {
		case "tm", "ct":
			return false
		case "cbeg":
			// custom text through the chunked API is refused by the encoder (and by the model) like OnCustomText
			if e.A == events.ArrayTypeCustomText {
				return false
			}
		case "bf":
			if e.BF != nil && !e.BF.IsInf() {
				if _, acc := e.BF.Float64(); acc != big.Exact {
					return false
				}
			}
		case "bdf":
			if e.BDF != nil && e.BDF.Form == apd.Finite && e.BDF.Coeff.Sign() != 0 && e.BDF.Exponent == math.MinInt32 {
				return false
			}
		}
	}
	return true
}

// directed re-encode inputs: single values the generator does not produce
func c22DirectedReencode() map[string][]Ev {
	return map[string][]Ev{
		// big decimal zeros: pinned regression witnesses (fixed by writing the canonical zero form)
		"bigdecimal-zero":     {{K: "bd"}, {K: "v", N: 0}, {K: "bdf", BDF: apdOf(false, big.NewInt(0), 0)}, {K: "ed"}},
		"bigdecimal-neg-zero": {{K: "bd"}, {K: "v", N: 0}, {K: "bdf", BDF: apdOf(true, big.NewInt(0), 0)}, {K: "ed"}},
		"bigdecimal-zero-exp": {{K: "bd"}, {K: "v", N: 0}, {K: "bdf", BDF: apdOf(true, big.NewInt(0), -7)}, {K: "ed"}},
		"bigdecimal-small":    {{K: "bd"}, {K: "v", N: 0}, {K: "bdf", BDF: apdOf(true, big.NewInt(15), -1)}, {K: "ed"}},
		"bigdecimal-exp-min":  {{K: "bd"}, {K: "v", N: 0}, {K: "bdf", BDF: apdOf(false, big.NewInt(7), math.MinInt32)}, {K: "ed"}},
		"decimal-zero-exp":    {{K: "bd"}, {K: "v", N: 0}, {K: "df", DF: dfloatRaw(5, 0)}, {K: "ed"}},
		"decimal-neg-zero":    {{K: "bd"}, {K: "v", N: 0}, {K: "df", DF: dfloatRaw(math.MinInt32, 0)}, {K: "ed"}},
		"bigint-small":        {{K: "bd"}, {K: "v", N: 0}, {K: "bi", Big: big.NewInt(-5)}, {K: "ed"}},
		"bigint-nil":          {{K: "bd"}, {K: "v", N: 0}, {K: "bi"}, {K: "ed"}},
		"float-nan-payload":   {{K: "bd"}, {K: "v", N: 0}, {K: "fl", F: math.Float64frombits(0xfff8000000000123)}, {K: "ed"}},
		"float-neg-zero":      {{K: "bd"}, {K: "v", N: 0}, {K: "fl", F: math.Copysign(0, -1)}, {K: "ed"}},
		"chunked-empty-final": {{K: "bd"}, {K: "v", N: 0}, {K: "ab", A: events.ArrayTypeString}, {K: "ac", N: 2, B: true}, {K: "ad", Data: []byte("hi")}, {K: "ac", N: 0, B: false}, {K: "ed"}},
		"chunked-short":       {{K: "bd"}, {K: "v", N: 0}, {K: "ab", A: events.ArrayTypeUint16}, {K: "ac", N: 2, B: false}, {K: "ad", Data: []byte{1, 0}}, {K: "ad", Data: []byte{2, 0}}, {K: "ed"}},
		"media-empty":         {{K: "bd"}, {K: "v", N: 0}, {K: "media", S: "a/b", Data: []byte{}}, {K: "ed"}},
		"custom-binary":       {{K: "bd"}, {K: "v", N: 0}, {K: "cb", N: 300, Data: []byte{1, 2, 3}}, {K: "ed"}},
		"custom-text-chunked": {{K: "bd"}, {K: "v", N: 0}, {K: "cbeg", A: events.ArrayTypeCustomText, N: 3}, {K: "ac", N: 2, B: false}, {K: "ad", Data: []byte("ab")}, {K: "ed"}},
		"string-15":           {{K: "bd"}, {K: "v", N: 0}, {K: "sa", A: events.ArrayTypeString, Data: []byte("0123456789abcde")}, {K: "ed"}},
		"string-16":           {{K: "bd"}, {K: "v", N: 0}, {K: "sa", A: events.ArrayTypeString, Data: []byte("0123456789abcdef")}, {K: "ed"}},
	}
}

func runC22(c *Ctx) {
	c.Rep.Rule = "integers: every event form of every magnitude within 2 of each width boundary (0, 100, 2^7, 2^8, 2^15, 2^16, 2^24, 2^31, 2^32, 2^40, 2^47, 2^48, 2^55, 2^56, 2^63, 2^64, 2^72) and random magnitudes, both signs; floats: exponent/mantissa-edge patterns of the three widths, generator classes and random patterns; arrays: every array type x element counts 0..17, 31..33, 63..65, 127, 128, 300 through OnArray / OnStringlikeArray / chunked API; re-encode: generated rules-valid streams (with times and inexact big floats) plus directed values; model correspondence on the shared CBE families. Non-trivial: magnitude > 63, finite non-zero float, count in 14..17, document longer than 4 bytes; distinct by input text"

	// ---- correspondence: model vs implementation
	k := newCbeCorr(c)
	docs := cbeEncFamilies(c, k, c.Pick(120, 2500), c.Pick(60, 1200))
	cbeDecFamilies(c, k, docs, c.Pick(200, 5000), c.Pick(3, 12), c.Pick(150, 5000))
	// which generated streams lie in the fragment the idempotence theorem covers (doc_okb)
	fc := c.Cases("c22_frag", "CE.Model.Cbe CE.Proofs.CbeProofs", "frag_case", "frag_case_ok")
	fc.perFile = 150
	fopt := CbeGenOpts()
	fg := NewEvGen(c.Rng, fopt)
	for i := 0; i < c.Pick(100, 1500); i++ {
		fg.Opt.CustomText = i%5 == 4
		fg.Opt.Times = i%7 == 6
		es := fg.Document()
		want := c22InFragment(es)
		fc.Add(rleTerm(cPair(cEvs(es), cBool(want))), fmt.Sprintf("in-fragment=%v :: %s", want, evsString(es)))
		c.Dist(fmt.Sprintf("corr/fragment/%v", want))
	}
	c.Rep.Extra["decoder_results_with_times_skipped"] = k.SkippedTime
	c.Rep.Extra["decoder_process_died_on"] = k.Crashes

	// ---- oracle 1: integers
	mags := []*big.Int{}
	for _, m := range cbeBoundaryMagnitudes() {
		mags = append(mags, new(big.Int).SetUint64(m))
	}
	for _, base := range []*big.Int{bigPow2(64), bigPow2(72), bigPow2(127 * 8), bigPow2(128 * 8)} {
		for d := int64(-2); d <= 2; d++ {
			mags = append(mags, new(big.Int).Add(base, big.NewInt(d)))
		}
	}
	for i := 0; i < c.Pick(300, 20000); i++ {
		mags = append(mags, new(big.Int).SetUint64(c.Rng.Uint64()>>uint(c.Rng.Intn(64))))
	}
	for i := 0; i < c.Pick(20, 500); i++ {
		mags = append(mags, new(big.Int).Abs(NewEvGen(c.Rng, DefaultGenOpts()).bigInt()))
	}
	for _, m := range mags {
		for _, neg := range []bool{false, true} {
			for _, e := range cbeIntForms(neg, m) {
				c22CheckInt(c, e, neg, m)
			}
		}
	}

	// ---- oracle 2: floats
	g := NewEvGen(c.Rng, DefaultGenOpts())
	fb := cbeFloatEdgeBits()
	for i := 0; i < c.Pick(3000, 300000); i++ {
		fb = append(fb, g.floatBits())
	}
	for _, b := range fb {
		c22CheckFloat(c, b)
	}

	// ---- oracle 3: arrays and strings
	lens := []uint64{0, 1, 2, 3, 4, 5, 6, 7, 8, 9, 10, 11, 12, 13, 14, 15, 16, 17, 31, 32, 33, 63, 64, 65, 127, 128, 300}
	for _, t := range c22ArrayTypes {
		for _, n := range lens {
			data := rndBytes(c, int(byteCountFor(t, n)))
			if t == events.ArrayTypeString || t == events.ArrayTypeResourceID || t == events.ArrayTypeReferenceRemote {
				data = bytes.Repeat([]byte("a"), int(n))
			}
			c22CheckArray(c, t, n, data)
		}
	}

	// ---- oracle 4: decode -> re-encode is the identity on encoder output
	for _, d := range docs {
		c22CheckReencode(c, d, "generated")
	}
	full := DefaultGenOpts()
	full.CustomText = false // the CBE encoder cannot write custom text at all
	full.NonFloat64BigFloats = true
	gf := NewEvGen(c.Rng, full)
	for i := 0; i < c.Pick(300, 6000); i++ {
		es := gf.Document()
		out, ok := cbeEncode(es)
		if !ok {
			c.Dist("oracle/reencode/encoder-rejected-valid-stream")
			continue
		}
		if i < 2 {
			c.Sample(map[string]string{"events": evsString(es), "doc_hex": hex.EncodeToString(out)})
		}
		c22CheckReencode(c, out, "generated-full")
	}
	for name, es := range c22DirectedReencode() {
		out, ok := cbeEncode(es)
		if !ok {
			continue
		}
		c22CheckReencode(c, out, name)
	}
	for kind, n := range gf.Kinds {
		c.Rep.Distribution["kind:"+kind] += n
	}
}

func replayC22(r *Replay) (bool, string) {
	switch r.Kind {
	case "int":
		mag, ok := new(big.Int).SetString(r.Input["magnitude"], 10)
		if !ok {
			return false, "bad magnitude"
		}
		neg := r.Input["sign"] == "-"
		e, found := c22IntEvent(r.Input["form"], neg, mag)
		if !found {
			return false, "the value cannot be expressed in event form " + r.Input["form"]
		}
		out, okk := cbeEncodeOne(e)
		want := c22MinIntLen(neg, mag)
		return okk && len(out) == want, fmt.Sprintf("%s%s via %s encodes to %s (%d bytes), shortest form of the format is %d bytes", r.Input["sign"], mag, e.K, hex.EncodeToString(out), len(out), want)
	case "float":
		bits, err := strconv.ParseUint(r.Input["bits"], 16, 64)
		if err != nil {
			return false, "bad bits"
		}
		v := math.Float64frombits(bits)
		out, okk := cbeEncodeOne(Ev{K: "fl", F: v})
		want := 3
		exact := false
		if !(math.IsNaN(v) || math.IsInf(v, 0) || v == 0) {
			want, exact = 1+c22FloatWidth(bits), true
		}
		good := okk && len(out) <= want && (!exact || len(out) == want)
		return good, fmt.Sprintf("float %016x encodes to %s (%d bytes), narrowest exact form is %d bytes", bits, hex.EncodeToString(out), len(out), want)
	case "array":
		t, _ := strconv.Atoi(r.Input["type"])
		n, _ := strconv.ParseUint(r.Input["count"], 10, 64)
		data, _ := hex.DecodeString(r.Input["data"])
		at := events.ArrayType(t)
		ref, _ := cbeEncode([]Ev{{K: "a", A: at, N: n, Data: data}})
		var es []Ev
		switch r.Input["api"] {
		case "a":
			es = []Ev{{K: "a", A: at, N: n, Data: data}}
		case "sa":
			es = []Ev{{K: "sa", A: at, Data: data}}
		default:
			es = []Ev{{K: "ab", A: at}, {K: "ac", N: n, B: false}, {K: "ad", Data: data}}
		}
		out, okk := cbeEncode(es)
		want := c22ArrayLen(at, n, len(data))
		return okk && len(out) == want && bytes.Equal(out, ref), fmt.Sprintf("array type %d count %d via %s encodes to %d bytes (%s...), expected %d", t, n, r.Input["api"], len(out), hex.EncodeToString(out[:minInt(len(out), 8)]), want)
	case "reencode":
		doc, err := hex.DecodeString(r.Input["doc_hex"])
		if err != nil {
			return false, "bad document"
		}
		// a directed case is regenerated from its events, so that the replay follows the encoder of the current tree
		if es, found := c22DirectedReencode()[r.Input["case"]]; found {
			out, okenc := cbeEncode(es)
			if !okenc {
				return false, "the encoder rejects the events of case " + r.Input["case"]
			}
			doc = out
		}
		again, okk, note := c22Reencode(doc)
		return okk && bytes.Equal(again, doc), fmt.Sprintf("document %s re-encodes to %s %s", hex.EncodeToString(doc), hex.EncodeToString(again), note)
	}
	return false, "unknown replay kind " + r.Kind
}

func minInt(a, b int) int {
	if a < b {
		return a
	}
	return b
}
