package main

// C19 — numeric unmarshaling is exact or fails.
//
// Search oracle: every numeric event form is delivered to a builder for every numeric
// destination type (directly, as the only element of a list into a slice, and end to end
// through CBE / CTE documents and ce.Unmarshal*). Whatever ends up stored must be exactly the
// mathematical value of the event, otherwise an error must have been reported.
//
// Knob: configuration.Builder.AllowLossyFloatConversion (default true) reads "don't raise an
// error on a lossy floating point conversion". It is taken to cover float -> float conversions
// only (here: a decimal float into a big.Float, which is binary). It is NOT taken to cover
// integer -> float, float -> integer, or anything involving wrap-around or a lost sign: the
// code itself refuses inexact int64 -> float conversions with the knob at its default, and the
// property names those directions explicitly. With the knob switched off nothing is excused.
//
// Correspondence: the same (event, destination) pairs are evaluated by CE.Model.NumConv.conv
// inside coqc and compared with what the builder did (numconv_case / numconv_case_ok), plus
// micro-cases for the compiled float->int conversions, int->float roundings and the
// decimal->binary parse instance.

import (
	"bytes"
	"encoding/hex"
	"fmt"
	"math"
	"math/big"
	"reflect"
	"strconv"
	"strings"

	"github.com/cockroachdb/apd/v2"
	compact_float "github.com/kstenerud/go-compact-float"
	"github.com/kstenerud/go-concise-encoding/builder"
	"github.com/kstenerud/go-concise-encoding/ce"
	"github.com/kstenerud/go-concise-encoding/ce/events"
	"github.com/kstenerud/go-concise-encoding/configuration"
	"github.com/kstenerud/go-concise-encoding/conversions"
)

func init() { register("C19", runC19, replayC19) }

// ---------------------------------------------------------------------------
// destinations

type c19Dst struct {
	name string
	tmpl interface{}
	kind string // int uint float32 float64 bigint bigfloat
	coq  string
}

var c19Dsts = []c19Dst{
	{"int8", int8(0), "int", "(TInt I8)"},
	{"int16", int16(0), "int", "(TInt I16)"},
	{"int32", int32(0), "int", "(TInt I32)"},
	{"int64", int64(0), "int", "(TInt I64)"},
	{"int", int(0), "int", "(TInt I64)"},
	{"uint8", uint8(0), "uint", "(TUint I8)"},
	{"uint16", uint16(0), "uint", "(TUint I16)"},
	{"uint32", uint32(0), "uint", "(TUint I32)"},
	{"uint64", uint64(0), "uint", "(TUint I64)"},
	{"uint", uint(0), "uint", "(TUint I64)"},
	{"float32", float32(0), "float32", "(TFloat F32)"},
	{"float64", float64(0), "float64", "(TFloat F64)"},
	{"big.Int", big.Int{}, "bigint", "TBigInt"},
	{"*big.Int", (*big.Int)(nil), "bigint", "TBigInt"},
	{"big.Float", big.Float{}, "bigfloat", "TBigFloat"},
	{"*big.Float", (*big.Float)(nil), "bigfloat", "TBigFloat"},
}

func c19DstByName(n string) *c19Dst {
	for i := range c19Dsts {
		if c19Dsts[i].name == n {
			return &c19Dsts[i]
		}
	}
	return nil
}

// ---------------------------------------------------------------------------
// mathematical values

type c19Val struct {
	nan  bool
	inf  int      // +1 / -1
	huge bool     // finite, but its exponent is too large to write down (never storable exactly in scope)
	r    *big.Rat // finite
}

func (v c19Val) String() string {
	switch {
	case v.nan:
		return "NaN"
	case v.inf > 0:
		return "+Inf"
	case v.inf < 0:
		return "-Inf"
	case v.huge:
		return "finite(huge exponent)"
	}
	if v.r.IsInt() {
		return v.r.Num().String()
	}
	return v.r.RatString()
}

func c19Same(a, b c19Val) bool {
	if a.nan || b.nan || a.huge || b.huge {
		return false
	}
	if a.inf != 0 || b.inf != 0 {
		return a.inf == b.inf
	}
	return a.r.Cmp(b.r) == 0
}

func c19_ratInt(i *big.Int) c19Val { return c19Val{r: new(big.Rat).SetInt(i)} }

func c19_ratFloat(f float64) c19Val {
	switch {
	case math.IsNaN(f):
		return c19Val{nan: true}
	case math.IsInf(f, 1):
		return c19Val{inf: 1}
	case math.IsInf(f, -1):
		return c19Val{inf: -1}
	}
	return c19Val{r: new(big.Rat).SetFloat64(f)}
}

func c19_ratBigFloat(f *big.Float) c19Val {
	if f.IsInf() {
		if f.Signbit() {
			return c19Val{inf: -1}
		}
		return c19Val{inf: 1}
	}
	r, _ := f.Rat(nil)
	return c19Val{r: r}
}

const c19MaxDecExp = 1200

func c19_ratDec(neg bool, coef *big.Int, exp int64) c19Val {
	if coef.Sign() == 0 {
		return c19Val{r: new(big.Rat)}
	}
	if exp > c19MaxDecExp || exp < -c19MaxDecExp {
		return c19Val{huge: true}
	}
	p := new(big.Int).Exp(big.NewInt(10), big.NewInt(c19_abs64(exp)), nil)
	r := new(big.Rat).SetInt(coef)
	if exp >= 0 {
		r.Mul(r, new(big.Rat).SetInt(p))
	} else {
		r.Quo(r, new(big.Rat).SetInt(p))
	}
	if neg {
		r.Neg(r)
	}
	return c19Val{r: r}
}

func c19_abs64(x int64) int64 {
	if x < 0 {
		return -x
	}
	return x
}

// value of a numeric event
func c19EvVal(e Ev) c19Val {
	switch e.K {
	case "pi":
		return c19_ratInt(new(big.Int).SetUint64(e.N))
	case "ni":
		return c19_ratInt(new(big.Int).Neg(new(big.Int).SetUint64(e.N)))
	case "i":
		return c19_ratInt(big.NewInt(e.I))
	case "bi":
		return c19_ratInt(e.Big)
	case "fl":
		return c19_ratFloat(e.F)
	case "nan":
		return c19Val{nan: true}
	case "bf":
		return c19_ratBigFloat(e.BF)
	case "df":
		d := e.DF
		switch {
		case d.IsNan():
			return c19Val{nan: true}
		case d.IsNegativeInfinity():
			return c19Val{inf: -1}
		case d.IsInfinity():
			return c19Val{inf: 1}
		case d.IsNegativeZero():
			return c19Val{r: new(big.Rat)}
		}
		c := big.NewInt(d.Coefficient)
		return c19_ratDec(c.Sign() < 0, new(big.Int).Abs(c), int64(d.Exponent))
	case "bdf":
		d := e.BDF
		switch d.Form {
		case apd.NaN, apd.NaNSignaling:
			return c19Val{nan: true}
		case apd.Infinite:
			if d.Negative {
				return c19Val{inf: -1}
			}
			return c19Val{inf: 1}
		}
		// (a coefficient with a sign of its own only occurs in values the library built, never in an event)
		return c19_ratDec(d.Negative != (d.Coeff.Sign() < 0), new(big.Int).Abs(&d.Coeff), int64(d.Exponent))
	}
	panic("c19EvVal: not a numeric event: " + e.K)
}

var c19KindName = map[string]string{"pi": "posint", "ni": "negint", "i": "int", "bi": "bigint", "fl": "float", "nan": "nan",
	"bf": "bigfloat", "df": "decimal", "bdf": "bigdecimal"}

func c19IsNumeric(k string) bool { _, ok := c19KindName[k]; return ok }
func c19IntegerForm(k string) bool {
	return k == "pi" || k == "ni" || k == "i" || k == "bi"
}

// the pairs the property speaks about
func c19InScope(srcKind string, d *c19Dst) bool {
	if d.kind == "float32" || d.kind == "float64" {
		return c19IntegerForm(srcKind)
	}
	return true
}

// ---------------------------------------------------------------------------
// sources as text (replay files) and as Coq terms

func c19SrcText(e Ev) string {
	switch e.K {
	case "pi", "ni":
		return fmt.Sprintf("%s:%d", e.K, e.N)
	case "i":
		return fmt.Sprintf("i:%d", e.I)
	case "bi":
		return "bi:" + e.Big.String()
	case "fl":
		return fmt.Sprintf("fl:%016x", math.Float64bits(e.F))
	case "nan":
		return fmt.Sprintf("nan:%v", e.B)
	case "bf":
		if e.BF.IsInf() {
			return fmt.Sprintf("bf:inf:%v", e.BF.Signbit())
		}
		neg, m, x := c19BigFloatParts(e.BF)
		return fmt.Sprintf("bf:%v:%s:%d:%d", neg, m.String(), x, e.BF.Prec())
	case "df":
		return fmt.Sprintf("df:%d:%d", e.DF.Coefficient, e.DF.Exponent)
	case "bdf":
		return fmt.Sprintf("bdf:%d:%v:%s:%d", e.BDF.Form, e.BDF.Negative, e.BDF.Coeff.String(), e.BDF.Exponent)
	}
	panic("c19SrcText " + e.K)
}

func c19ParseSrc(s string) (Ev, error) {
	p := strings.Split(s, ":")
	bad := fmt.Errorf("bad source %q", s)
	if len(p) < 2 {
		return Ev{}, bad
	}
	e := Ev{K: p[0]}
	switch p[0] {
	case "pi", "ni":
		v, err := strconv.ParseUint(p[1], 10, 64)
		if err != nil {
			return e, bad
		}
		e.N = v
	case "i":
		v, err := strconv.ParseInt(p[1], 10, 64)
		if err != nil {
			return e, bad
		}
		e.I = v
	case "bi":
		v, ok := new(big.Int).SetString(p[1], 10)
		if !ok {
			return e, bad
		}
		e.Big = v
	case "fl":
		v, err := strconv.ParseUint(p[1], 16, 64)
		if err != nil {
			return e, bad
		}
		e.F = math.Float64frombits(v)
	case "nan":
		e.B = p[1] == "true"
	case "bf":
		if p[1] == "inf" && len(p) == 3 {
			e.BF = new(big.Float).SetInf(p[2] == "true")
			return e, nil
		}
		if len(p) != 5 {
			return e, bad
		}
		m, ok := new(big.Int).SetString(p[2], 10)
		x, err1 := strconv.ParseInt(p[3], 10, 32)
		pr, err2 := strconv.ParseUint(p[4], 10, 32)
		if !ok || err1 != nil || err2 != nil {
			return e, bad
		}
		e.BF = c19MakeBigFloat(p[1] == "true", m, int(x), uint(pr))
	case "df":
		if len(p) != 3 {
			return e, bad
		}
		c, err1 := strconv.ParseInt(p[1], 10, 64)
		x, err2 := strconv.ParseInt(p[2], 10, 32)
		if err1 != nil || err2 != nil {
			return e, bad
		}
		e.DF = compact_float.DFloat{Coefficient: c, Exponent: int32(x)}
	case "bdf":
		if len(p) != 5 {
			return e, bad
		}
		f, err1 := strconv.ParseInt(p[1], 10, 8)
		c, ok := new(big.Int).SetString(p[3], 10)
		x, err2 := strconv.ParseInt(p[4], 10, 32)
		if err1 != nil || err2 != nil || !ok {
			return e, bad
		}
		d := &apd.Decimal{Form: apd.Form(f), Negative: p[2] == "true", Exponent: int32(x)}
		d.Coeff.Set(c)
		e.BDF = d
	default:
		return e, bad
	}
	return e, nil
}

// f = (-1)^neg * m * 2^x with m odd (or 0)
func c19BigFloatParts(f *big.Float) (neg bool, m *big.Int, x int) {
	neg = f.Signbit()
	if f.Sign() == 0 {
		return neg, new(big.Int), 0
	}
	mant := new(big.Float)
	exp := f.MantExp(mant)
	prec := int(f.MinPrec())
	mant.SetMantExp(mant, prec)
	mi, _ := mant.Int(nil)
	mi.Abs(mi)
	return neg, mi, exp - prec
}

func c19MakeBigFloat(neg bool, m *big.Int, x int, prec uint) *big.Float {
	f := new(big.Float).SetPrec(prec).SetInt(m)
	f.SetMantExp(f, x)
	if neg {
		f.Neg(f)
	}
	return f
}

func c19_cBfl(f *big.Float) string {
	if f.IsInf() {
		return cApp("BFInf", cBool(f.Signbit()))
	}
	neg, m, x := c19BigFloatParts(f)
	return cApp("BF", cBool(neg), cBigZ(m), cZ(int64(x)), cZ(int64(f.Prec())))
}

func c19_cDecDF(d compact_float.DFloat) string {
	switch {
	case d.IsSignalingNan():
		return "(DecNan true)"
	case d.IsNan():
		return "(DecNan false)"
	case d.IsNegativeInfinity():
		return "(DecInf true)"
	case d.IsInfinity():
		return "(DecInf false)"
	case d.IsNegativeZero():
		return "(Dec true 0%Z 0%Z)"
	}
	c := big.NewInt(d.Coefficient)
	return cApp("Dec", cBool(c.Sign() < 0), cBigZ(new(big.Int).Abs(c)), cZ(int64(d.Exponent)))
}

func c19_cDecAPD(d *apd.Decimal) string {
	switch d.Form {
	case apd.NaNSignaling:
		return "(DecNan true)"
	case apd.NaN:
		return "(DecNan false)"
	case apd.Infinite:
		return cApp("DecInf", cBool(d.Negative))
	}
	return cApp("Dec", cBool(d.Negative), cBigZ(new(big.Int).Abs(&d.Coeff)), cZ(int64(d.Exponent)))
}

func c19_cU64Z(v uint64) string { return cBigZ(new(big.Int).SetUint64(v)) }

func c19SrcCoq(e Ev) string {
	switch e.K {
	case "pi":
		return cApp("SPos", c19_cU64Z(e.N))
	case "ni":
		return cApp("SNeg", c19_cU64Z(e.N))
	case "i":
		return cApp("SInt", cZ(e.I))
	case "bi":
		return cApp("SBigInt", cBigZ(e.Big))
	case "fl":
		return cApp("SFloat", cN(math.Float64bits(e.F)))
	case "nan":
		return cApp("SNan", cBool(e.B))
	case "bf":
		return cApp("SBigFloat", c19_cBfl(e.BF))
	case "df":
		return cApp("SDec", c19_cDecDF(e.DF))
	case "bdf":
		return cApp("SBigDec", c19_cDecAPD(e.BDF))
	}
	panic("c19SrcCoq " + e.K)
}

// ---------------------------------------------------------------------------
// observations

type c19Obs struct {
	failed bool
	kind   string // int uint float32 float64 bigint bigfloat other
	I      *big.Int
	F32    float32
	F64    float64
	BF     *big.Float
	BD     *apd.Decimal         // kind "bigdecimal" (only in documents with several numbers)
	DF     compact_float.DFloat // kind "decimal" (interface{} slots)
	other  string
}

func (o c19Obs) String() string {
	if o.failed {
		return "error"
	}
	switch o.kind {
	case "int", "uint", "bigint":
		return o.kind + ":" + o.I.String()
	case "float32":
		return fmt.Sprintf("float32:%v(bits %08x)", o.F32, math.Float32bits(o.F32))
	case "float64":
		return fmt.Sprintf("float64:%v(bits %016x)", o.F64, math.Float64bits(o.F64))
	case "bigfloat":
		return fmt.Sprintf("bigfloat:%s(prec %d)", o.BF.Text('p', 0), o.BF.Prec())
	case "bigdecimal":
		return "bigdecimal:" + c19SrcText(Ev{K: "bdf", BDF: o.BD})
	case "decimal":
		return "decimal:" + c19SrcText(Ev{K: "df", DF: o.DF})
	}
	return "other:" + o.other
}

func (o c19Obs) val() c19Val {
	switch o.kind {
	case "int", "uint", "bigint":
		return c19_ratInt(o.I)
	case "float32":
		return c19_ratFloat(float64(o.F32))
	case "float64":
		return c19_ratFloat(o.F64)
	case "bigfloat":
		return c19_ratBigFloat(o.BF)
	case "bigdecimal":
		return c19EvVal(Ev{K: "bdf", BDF: o.BD})
	case "decimal":
		return c19EvVal(Ev{K: "df", DF: o.DF})
	}
	return c19Val{nan: true}
}

func (o c19Obs) coq() string {
	if o.failed {
		return "OFailed"
	}
	switch o.kind {
	case "int":
		return cApp("OInt", cBigZ(o.I))
	case "uint":
		return cApp("OUint", cBigZ(o.I))
	case "bigint":
		return cApp("OBigInt", cBigZ(o.I))
	case "float32":
		return cApp("OF32", cN(uint64(math.Float32bits(o.F32))))
	case "float64":
		return cApp("OF64", cN(math.Float64bits(o.F64)))
	case "bigfloat":
		return cApp("OBigFloat", c19_cBfl(o.BF))
	}
	return "OFailed (* unexpected: " + o.other + " *)"
}

func c19Observe(v interface{}) c19Obs {
	switch x := v.(type) {
	case int8:
		return c19Obs{kind: "int", I: big.NewInt(int64(x))}
	case int16:
		return c19Obs{kind: "int", I: big.NewInt(int64(x))}
	case int32:
		return c19Obs{kind: "int", I: big.NewInt(int64(x))}
	case int64:
		return c19Obs{kind: "int", I: big.NewInt(x)}
	case int:
		return c19Obs{kind: "int", I: big.NewInt(int64(x))}
	case uint8:
		return c19Obs{kind: "uint", I: new(big.Int).SetUint64(uint64(x))}
	case uint16:
		return c19Obs{kind: "uint", I: new(big.Int).SetUint64(uint64(x))}
	case uint32:
		return c19Obs{kind: "uint", I: new(big.Int).SetUint64(uint64(x))}
	case uint64:
		return c19Obs{kind: "uint", I: new(big.Int).SetUint64(x)}
	case uint:
		return c19Obs{kind: "uint", I: new(big.Int).SetUint64(uint64(x))}
	case float32:
		return c19Obs{kind: "float32", F32: x}
	case float64:
		return c19Obs{kind: "float64", F64: x}
	case *big.Int:
		if x == nil {
			return c19Obs{kind: "other", other: "nil *big.Int"}
		}
		return c19Obs{kind: "bigint", I: new(big.Int).Set(x)}
	case big.Int:
		return c19Obs{kind: "bigint", I: new(big.Int).Set(&x)}
	case *big.Float:
		if x == nil {
			return c19Obs{kind: "other", other: "nil *big.Float"}
		}
		return c19Obs{kind: "bigfloat", BF: new(big.Float).Copy(x)}
	case big.Float:
		return c19Obs{kind: "bigfloat", BF: new(big.Float).Copy(&x)}
	case *apd.Decimal:
		if x == nil {
			return c19Obs{kind: "other", other: "nil *apd.Decimal"}
		}
		return c19Obs{kind: "bigdecimal", BD: new(apd.Decimal).Set(x)}
	case apd.Decimal:
		return c19Obs{kind: "bigdecimal", BD: new(apd.Decimal).Set(&x)}
	case compact_float.DFloat:
		return c19Obs{kind: "decimal", DF: x}
	}
	return c19Obs{kind: "other", other: fmt.Sprintf("%T", v)}
}

// ---------------------------------------------------------------------------
// routes into the implementation

var c19Cfgs = map[bool]*configuration.Configuration{}
var c19Sessions = map[bool]*builder.Session{}

func c19Config(lossy bool) *configuration.Configuration {
	if cfg, ok := c19Cfgs[lossy]; ok {
		return cfg
	}
	cfg := configuration.New()
	cfg.Builder.AllowLossyFloatConversion = lossy
	c19Cfgs[lossy] = cfg
	c19Sessions[lossy] = builder.NewSession(nil, cfg)
	return cfg
}

func c19Session(cfg *configuration.Configuration) *builder.Session {
	return c19Sessions[cfg.Builder.AllowLossyFloatConversion]
}

// direct: the event is the whole document
func c19Direct(cfg *configuration.Configuration, d *c19Dst, e Ev) (o c19Obs) {
	defer func() {
		if r := recover(); r != nil {
			o = c19Obs{failed: true}
		}
	}()
	b := c19Session(cfg).NewBuilderFor(d.tmpl)
	b.OnBeginDocument()
	b.OnVersion(0)
	play(b, e)
	b.OnEndDocument()
	return c19Observe(b.GetBuiltObject())
}

// slice: the event is the only element of a list, built into []T
func c19Slice(cfg *configuration.Configuration, d *c19Dst, e Ev) (o c19Obs) {
	defer func() {
		if r := recover(); r != nil {
			o = c19Obs{failed: true}
		}
	}()
	st := reflect.SliceOf(reflect.TypeOf(d.tmpl))
	tmpl := reflect.MakeSlice(st, 0, 0).Interface()
	b := c19Session(cfg).NewBuilderFor(tmpl)
	b.OnBeginDocument()
	b.OnVersion(0)
	b.OnList()
	play(b, e)
	b.OnEndContainer()
	b.OnEndDocument()
	rv := reflect.ValueOf(b.GetBuiltObject())
	if rv.Kind() != reflect.Slice || rv.Len() != 1 {
		return c19Obs{kind: "other", other: fmt.Sprintf("slice route produced %v", rv)}
	}
	return c19Observe(rv.Index(0).Interface())
}

func c19EncodeCBE(cfg *configuration.Configuration, e Ev) (doc []byte, ok bool) {
	defer func() {
		if r := recover(); r != nil {
			ok = false
		}
	}()
	var buf bytes.Buffer
	enc := ce.NewCBEEncoder(cfg)
	enc.PrepareToEncode(&buf)
	enc.OnBeginDocument()
	enc.OnVersion(0)
	play(enc, e)
	enc.OnEndDocument()
	return buf.Bytes(), true
}

// exact CTE spelling of a source where one exists
func c19CTEText(e Ev) (string, bool) {
	switch e.K {
	case "pi":
		return "c0 " + strconv.FormatUint(e.N, 10), true
	case "ni":
		return "c0 -" + strconv.FormatUint(e.N, 10), true
	case "i":
		return "c0 " + strconv.FormatInt(e.I, 10), true
	case "bi":
		return "c0 " + e.Big.String(), true
	case "fl":
		if math.IsNaN(e.F) || math.IsInf(e.F, 0) || e.F == 0 {
			return "", false
		}
		return "c0 " + strconv.FormatFloat(e.F, 'x', -1, 64), true
	case "df":
		if e.DF.IsSpecial() {
			return "", false
		}
		return fmt.Sprintf("c0 %d.0e%d", e.DF.Coefficient, e.DF.Exponent), true
	case "bdf":
		if e.BDF.Form != apd.Finite {
			return "", false
		}
		s := e.BDF.Coeff.String() + ".0e" + strconv.FormatInt(int64(e.BDF.Exponent), 10)
		if e.BDF.Negative {
			s = "-" + s
		}
		return "c0 " + s, true
	}
	return "", false
}

// events a document decodes to (behind no validator), nil on a decode error
func c19DecodeDoc(format string, cfg *configuration.Configuration, doc []byte) (evs []Ev) {
	defer func() {
		if r := recover(); r != nil {
			evs = nil
		}
	}()
	rec := &Recorder{}
	var err error
	if format == "cte" {
		err = ce.NewCTEDecoder(cfg).DecodeDocument(doc, rec)
	} else {
		err = ce.NewCBEDecoder(cfg).DecodeDocument(doc, rec)
	}
	if err != nil {
		return nil
	}
	out := []Ev{}
	for _, e := range rec.Evs {
		if e.K == "bd" || e.K == "ed" || e.K == "v" || e.K == "pad" {
			continue
		}
		out = append(out, e)
	}
	return out
}

func c19Unmarshal(format string, cfg *configuration.Configuration, d *c19Dst, doc []byte) (o c19Obs) {
	defer func() {
		if r := recover(); r != nil {
			o = c19Obs{kind: "other", other: fmt.Sprintf("panic out of Unmarshal: %v", r)}
		}
	}()
	var v interface{}
	var err error
	v, err = c19Unmarshaler(format, cfg).UnmarshalFromDocument(doc, d.tmpl)
	if err != nil {
		return c19Obs{failed: true}
	}
	return c19Observe(v)
}

// one unmarshaler per (format, knob) is kept for the whole run, the way an application would
var c19Unmarshalers = map[string]ce.Unmarshaler{}

func c19Unmarshaler(format string, cfg *configuration.Configuration) ce.Unmarshaler {
	k := fmt.Sprintf("%s/%v", format, cfg.Builder.AllowLossyFloatConversion)
	if u, ok := c19Unmarshalers[k]; ok {
		return u
	}
	var u ce.Unmarshaler
	if format == "cte" {
		u = ce.NewCTEUnmarshaler(cfg)
	} else {
		u = ce.NewCBEUnmarshaler(cfg)
	}
	c19Unmarshalers[k] = u
	return u
}

// ---------------------------------------------------------------------------
// the oracle

type c19Verdict struct {
	ok      bool
	allowed bool   // inexact, but a loss the default knob permits
	key     string // failure class
	expect  string
}

// judge one observation against the value that was encoded.
func c19Judge(srcKind string, truth c19Val, d *c19Dst, lossy bool, o c19Obs) c19Verdict {
	if o.failed {
		return c19Verdict{ok: true}
	}
	src := c19KindName[srcKind]
	if o.kind != d.kind {
		return c19Verdict{key: fmt.Sprintf("C19/%s->%s/wrong-result-type", src, d.kind), expect: "a " + d.kind + " or an error"}
	}
	got := o.val()
	if c19Same(got, truth) {
		return c19Verdict{ok: true}
	}
	expect := "exactly " + truth.String() + " or an error"
	nature := "inexact"
	switch {
	case truth.nan:
		nature = "nan-stored-as-number"
	case truth.inf != 0:
		nature = "infinity-stored-as-number"
	case truth.huge:
		nature = "inexact"
	case d.kind == "uint" && truth.r.Sign() < 0:
		nature = "negative-into-unsigned"
	case got.nan || got.inf != 0:
		nature = "nonfinite"
		if got.inf*truth.r.Sign() < 0 {
			nature = "sign-lost"
		}
	case got.r.Sign()*truth.r.Sign() < 0:
		nature = "sign-lost"
	}
	// the one loss the knob covers: a decimal float rounded into a binary big.Float
	if d.kind == "bigfloat" && (srcKind == "df" || srcKind == "bdf") && nature == "inexact" {
		if lossy && truth.huge {
			// the exact value cannot be written down here; a finite result is an underflow/rounding of a float -> float conversion
			return c19Verdict{ok: true, allowed: true}
		}
		if lossy {
			// still has to be a rounding at the stored precision, not garbage
			diff := new(big.Rat).Sub(got.r, truth.r)
			diff.Abs(diff)
			bound := new(big.Rat).Abs(truth.r)
			p := int(o.BF.Prec()) - 1
			if p < 0 {
				p = 0
			}
			bound.Quo(bound, new(big.Rat).SetInt(new(big.Int).Lsh(big.NewInt(1), uint(p))))
			if diff.Cmp(bound) <= 0 {
				return c19Verdict{ok: true, allowed: true}
			}
			return c19Verdict{key: fmt.Sprintf("C19/%s->%s/not-a-rounding", src, d.kind), expect: expect}
		}
		return c19Verdict{key: fmt.Sprintf("C19/%s->%s/rounded-with-lossy-conversion-disallowed", src, d.kind), expect: expect}
	}
	return c19Verdict{key: fmt.Sprintf("C19/%s->%s/%s", src, d.kind, nature), expect: expect}
}

// run one (route, source, destination) through implementation and oracle
func c19Eval(route string, lossy bool, d *c19Dst, e Ev, doc []byte) (o c19Obs, v c19Verdict, srcKind string, note string) {
	return c19EvalK(route, lossy, d, e, doc, "")
}

// arrivedAs: for the document routes, the event form the decoder produced (looked up if empty)
func c19EvalK(route string, lossy bool, d *c19Dst, e Ev, doc []byte, arrivedAs string) (o c19Obs, v c19Verdict, srcKind string, note string) {
	cfg := c19Config(lossy)
	truth := c19EvVal(e)
	srcKind = e.K
	decoderChanged := false
	switch route {
	case "direct":
		o = c19Direct(cfg, d, e)
	case "slice":
		o = c19Slice(cfg, d, e)
	case "cbe", "cte":
		o = c19Unmarshal(route, cfg, d, doc)
		// classify by the event form the decoder actually produced
		if strings.HasPrefix(arrivedAs, "!") {
			srcKind = arrivedAs[1:]
			decoderChanged = true
		} else if arrivedAs != "" {
			srcKind = arrivedAs
		} else if evs := c19DecodeDoc(route, cfg, doc); len(evs) == 1 && c19IsNumeric(evs[0].K) {
			srcKind = evs[0].K
			if route == "cte" && !c19Same(c19EvVal(evs[0]), truth) && !(truth.nan && c19EvVal(evs[0]).nan) {
				decoderChanged = true
			}
		}
	default:
		return c19Obs{kind: "other", other: "unknown route"}, c19Verdict{}, srcKind, "unknown route " + route
	}
	if !c19InScope(srcKind, d) {
		return o, c19Verdict{ok: true}, srcKind, "out of scope"
	}
	v = c19Judge(srcKind, truth, d, lossy, o)
	if !v.ok && decoderChanged {
		// not a builder conversion: the CTE decoder delivered an event whose value differs from the text
		v.key = "C19/cte-decoder-changed-value/" + c19KindName[e.K] + "-text"
	}
	return o, v, srcKind, ""
}

func c19Replay(route string, lossy bool, d *c19Dst, e Ev, doc []byte, v c19Verdict, o c19Obs) Replay {
	in := map[string]string{"route": route, "src": c19SrcText(e), "dst": d.name, "lossy_knob": strconv.FormatBool(lossy)}
	if doc != nil {
		in["doc_hex"] = hex.EncodeToString(doc)
	}
	return Replay{Kind: "conv", Key: v.key, Input: in, Expect: v.expect, Got: o.String()}
}

// ---------------------------------------------------------------------------
// generators

func c19BoundaryU64() []uint64 {
	out := []uint64{0, 1, 2, 5, 100}
	for _, s := range []uint{7, 8, 15, 16, 24, 31, 32, 53, 63} {
		p := uint64(1) << s
		out = append(out, p-2, p-1, p, p+1, p+2)
	}
	out = append(out, 1<<63+1024, 1<<63+1025, 1<<63+2048, 1<<64-2049, 1<<64-2048, 1<<64-1025, 1<<64-1024, 1<<64-2, 1<<64-1,
		10000000000000000000, 9999999999999999999, 12000000000000000000, 1<<62, 3<<62)
	return out
}

func c19_pow2(n uint) *big.Int { return new(big.Int).Lsh(big.NewInt(1), n) }
func c19_bigOf(s string) *big.Int {
	v, ok := new(big.Int).SetString(s, 10)
	if !ok {
		panic(s)
	}
	return v
}

func c19BoundarySources() []Ev {
	out := []Ev{}
	us := c19BoundaryU64()
	for _, u := range us {
		out = append(out, Ev{K: "pi", N: u}, Ev{K: "ni", N: u})
		if u <= math.MaxInt64 {
			out = append(out, Ev{K: "i", I: int64(u)}, Ev{K: "i", I: -int64(u)})
		}
		b := new(big.Int).SetUint64(u)
		out = append(out, Ev{K: "bi", Big: b}, Ev{K: "bi", Big: new(big.Int).Neg(b)})
	}
	out = append(out, Ev{K: "i", I: math.MinInt64})
	// big integers around 2^64, the float32 / float64 limits and the big-int exponent limits
	bigs := []*big.Int{c19_pow2(64), new(big.Int).Add(c19_pow2(64), big.NewInt(1)), new(big.Int).Add(c19_pow2(100), c19_pow2(70)), c19_pow2(100),
		new(big.Int).Add(c19_pow2(100), big.NewInt(1)), c19_pow2(127), new(big.Int).Sub(c19_pow2(128), c19_pow2(104)), new(big.Int).Sub(c19_pow2(128), c19_pow2(103)),
		new(big.Int).Sub(new(big.Int).Sub(c19_pow2(128), c19_pow2(103)), big.NewInt(1)), c19_pow2(128), c19_pow2(165), c19_pow2(166), c19_pow2(200),
		new(big.Int).Add(c19_pow2(200), big.NewInt(1)), c19_pow2(1023), new(big.Int).Sub(c19_pow2(1024), c19_pow2(971)), new(big.Int).Sub(c19_pow2(1024), c19_pow2(970)),
		new(big.Int).Sub(new(big.Int).Sub(c19_pow2(1024), c19_pow2(970)), big.NewInt(1)), c19_pow2(1024), c19_pow2(1100),
		c19_bigOf("1000000000000000000000000000000"), c19_bigOf("340282366920938463463374607431768211456"), c19_bigOf("16777217"), c19_bigOf("9007199254740993")}
	for _, b := range bigs {
		out = append(out, Ev{K: "bi", Big: b}, Ev{K: "bi", Big: new(big.Int).Neg(b)})
	}
	// binary floats
	fs := []float64{0, math.Copysign(0, -1), 0.5, -0.5, 1.5, -1.5, 127.5, 255.5, 0.1, 4503599627370496.5, 4503599627370495.5,
		math.SmallestNonzeroFloat64, -math.SmallestNonzeroFloat64, math.MaxFloat64, -math.MaxFloat64, math.MaxFloat32, math.Inf(1), math.Inf(-1),
		math.NaN(), 1e30, -1e30, 1e19, 1e300, math.Ldexp(1, 165), math.Ldexp(1, 166), math.Ldexp(1, 167), -math.Ldexp(1, 166), math.Ldexp(1.5, 165),
		9223372036854774784, 9223372036854775808, 9223372036854777856, -9223372036854775808, -9223372036854777856, 18446744073709549568,
		18446744073709551616, 18446744073709555712, math.Ldexp(1, -1074+52), 2.2250738585072014e-308}
	for _, u := range us {
		f := float64(u)
		fs = append(fs, f, -f, f+0.5, math.Nextafter(f, math.Inf(1)), math.Nextafter(f, 0))
	}
	seen := map[uint64]bool{}
	for _, f := range fs {
		b := math.Float64bits(f)
		if !seen[b] {
			seen[b] = true
			out = append(out, Ev{K: "fl", F: f})
		}
	}
	out = append(out, Ev{K: "nan", B: false}, Ev{K: "nan", B: true},
		Ev{K: "fl", F: math.Float64frombits(0x7ff4000000000001)}, Ev{K: "fl", F: math.Float64frombits(0xfff8000000000000)})
	// big floats
	bf := func(neg bool, m *big.Int, x int, prec uint) Ev {
		return Ev{K: "bf", BF: c19MakeBigFloat(neg, m, x, prec)}
	}
	for _, u := range []uint64{0, 1, 5, 127, 128, 255, 256, 1<<31 - 1, 1 << 31, 1<<32 - 1, 1 << 32, 1<<53 - 1, 1 << 53, 1<<53 + 1, 1<<63 - 1, 1 << 63, 1<<63 + 1,
		1<<63 + 1024, 1<<64 - 2048, 1<<64 - 1024, 1<<64 - 1} {
		m := new(big.Int).SetUint64(u)
		out = append(out, bf(false, m, 0, 64), bf(true, m, 0, 64))
	}
	out = append(out, bf(false, big.NewInt(3), -1, 53), bf(true, big.NewInt(3), -1, 53), bf(false, big.NewInt(1), -1, 24), bf(false, big.NewInt(1), 64, 10),
		bf(false, new(big.Int).Add(c19_pow2(64), big.NewInt(1)), 0, 65), bf(true, big.NewInt(1), 63, 53), bf(true, new(big.Int).Add(c19_pow2(63), big.NewInt(1)), 0, 64),
		bf(false, big.NewInt(1), 164, 53), bf(false, big.NewInt(1), 165, 53), bf(false, big.NewInt(1), 166, 53), bf(false, big.NewInt(3), 164, 53),
		bf(false, big.NewInt(3), 165, 53), bf(true, big.NewInt(1), 166, 53), bf(false, new(big.Int).Add(c19_pow2(200), big.NewInt(1)), 0, 201),
		bf(false, new(big.Int).Add(c19_pow2(200), big.NewInt(1)), -100, 201), bf(false, big.NewInt(1), -1000, 53), bf(false, big.NewInt(1), 1000, 53),
		bf(false, c19_bigOf("123456789012345678901234567890"), -40, 100),
		Ev{K: "bf", BF: new(big.Float).SetInf(false)}, Ev{K: "bf", BF: new(big.Float).SetInf(true)})
	// decimal floats: coefficient x exponent, not minimised on purpose as well
	cs := []int64{0, 1, -1, 5, -5, 10, -10, 50, 127, 128, -128, -129, 255, 256, 65535, 65536, 1 << 24, 1<<24 + 1, 1<<53 + 1,
		922337203685477580, 922337203685477581, 1844674407370955161, 1844674407370955162, 1844674407370955170, math.MaxInt64, math.MaxInt64 - 1,
		math.MinInt64, math.MinInt64 + 1, 18446744073709551, 123456789, -123456789}
	xs := []int32{0, 1, 2, 3, 17, 18, 19, 20, 21, -1, -2, -3, -19, 49, 50, 51}
	for _, c := range cs {
		for _, x := range xs {
			out = append(out, Ev{K: "df", DF: compact_float.DFloat{Coefficient: c, Exponent: x}})
		}
	}
	out = append(out, Ev{K: "df", DF: compact_float.NegativeZero()}, Ev{K: "df", DF: compact_float.Infinity()}, Ev{K: "df", DF: compact_float.NegativeInfinity()},
		Ev{K: "df", DF: compact_float.QuietNaN()}, Ev{K: "df", DF: compact_float.SignalingNaN()},
		Ev{K: "df", DF: compact_float.DFloat{Coefficient: 1, Exponent: 1000}}, Ev{K: "df", DF: compact_float.DFloat{Coefficient: 1, Exponent: -1000}},
		Ev{K: "df", DF: compact_float.DFloat{Coefficient: 7, Exponent: math.MaxInt32}}, Ev{K: "df", DF: compact_float.DFloat{Coefficient: 7, Exponent: -math.MaxInt32}})
	// big decimal floats
	bd := func(neg bool, c *big.Int, x int32) Ev {
		d := &apd.Decimal{Negative: neg, Exponent: x}
		d.Coeff.Set(c)
		return Ev{K: "bdf", BDF: d}
	}
	bcs := []*big.Int{big.NewInt(0), big.NewInt(1), big.NewInt(5), big.NewInt(10), big.NewInt(12), big.NewInt(15), big.NewInt(255), big.NewInt(256), big.NewInt(1000),
		big.NewInt(math.MaxInt64), c19_pow2(63), new(big.Int).Add(c19_pow2(63), big.NewInt(1)), new(big.Int).Sub(c19_pow2(64), big.NewInt(1)), c19_pow2(64),
		new(big.Int).Sub(c19_pow2(64), big.NewInt(2048)), c19_bigOf("1844674407370955161"), c19_bigOf("1844674407370955162"), c19_bigOf("18446744073709551"),
		c19_bigOf("123456789012345678901234567890"), c19_bigOf("99999999999999999999"), c19_bigOf("16"), c19_bigOf("18"), c19_bigOf("9"), c19_bigOf("92233720368547758"),
		c19_bigOf("184467440737095516")}
	bxs := []int32{0, 1, 2, 3, 17, 18, 19, 20, -1, -2, -3, 30, 49, 50, 51, -30}
	for _, c := range bcs {
		for _, x := range bxs {
			out = append(out, bd(false, c, x), bd(true, c, x))
		}
	}
	for _, f := range []apd.Form{apd.Infinite, apd.NaN, apd.NaNSignaling} {
		out = append(out, Ev{K: "bdf", BDF: &apd.Decimal{Form: f}}, Ev{K: "bdf", BDF: &apd.Decimal{Form: f, Negative: true}})
	}
	out = append(out, bd(false, big.NewInt(1), 300), bd(false, big.NewInt(1), -300))
	return out
}

// (source, destination) pairs kept under watch, in the text form of replay files
func c19Pinned() [][2]string {
	out := [][2]string{}
	// OnNegativeInt at and above 2^63 used to lose its sign (repaired)
	for _, d := range []string{"uint64", "uint", "int64", "int8", "float32", "float64", "*big.Int", "big.Int", "*big.Float", "big.Float"} {
		out = append(out, [2]string{"ni:9223372036854775808", d}, [2]string{"ni:9223372036854775813", d}, [2]string{"ni:18446744073709551615", d})
	}
	// negative zero in every event form into every destination: OnNegativeInt(0) is delivered as the float -0
	for i := range c19Dsts {
		d := c19Dsts[i].name
		out = append(out, [2]string{"ni:0", d}, [2]string{"fl:8000000000000000", d}, [2]string{"bf:true:0:0:53", d},
			[2]string{"df:0:-2147483648", d}, [2]string{"bdf:0:true:0:0", d}, [2]string{"pi:0", d})
	}
	out = append(out,
		// UintToBigInt used to clear the low bit (repaired)
		[2]string{"pi:9223372036854775809", "*big.Int"}, [2]string{"pi:9223372036854775809", "big.Int"}, [2]string{"pi:18446744073709551615", "*big.Int"},
		// negative decimals into unsigned destinations used to wrap (repaired)
		[2]string{"df:-5:0", "uint64"}, [2]string{"df:-5:0", "uint"}, [2]string{"df:-9223372036854775808:0", "uint64"}, [2]string{"df:-1:0", "uint8"},
		[2]string{"bdf:0:true:5:0", "uint64"}, [2]string{"bdf:0:true:9223372036854775808:0", "uint64"}, [2]string{"bdf:0:true:50:-1", "uint64"}, [2]string{"bdf:0:true:0:0", "uint64"},
		// BigDecimalFloatToBigInt used to drop the sign (repaired)
		[2]string{"bdf:0:true:5:0", "*big.Int"}, [2]string{"bdf:0:true:5:3", "big.Int"}, [2]string{"bdf:0:true:0:0", "*big.Int"},
		// big integers used to be narrowed into float32 unchecked (repaired)
		[2]string{"bi:16777217", "float32"}, [2]string{"bi:-16777217", "float32"}, [2]string{"bi:340282366920938463463374607431768211456", "float32"},
		[2]string{"bi:340282356779733661637539395458142568448", "float32"}, [2]string{"bi:340282346638528859811704183484516925440", "float32"},
		[2]string{"bi:16777216", "float32"}, [2]string{"bi:1267650600228230582101135032320", "float32"}, [2]string{"bi:1267650600228230582101135032320", "float64"},
		// still open: a big decimal rounded to a few bits on its way into an unsigned integer
		[2]string{"bdf:0:false:1:19", "uint64"}, [2]string{"bdf:0:false:12:18", "uint64"}, [2]string{"bdf:0:false:1:19", "uint"},
	)
	return out
}

func (g *c19Gen) u64() uint64 {
	r := g.c.Rng
	switch r.Intn(6) {
	case 0:
		return uint64(r.Intn(300))
	case 1:
		return r.Uint64() >> uint(r.Intn(64))
	case 2: // near a power of two
		s := uint(r.Intn(64))
		return (uint64(1) << s) + uint64(r.Intn(5)) - 2
	case 3: // at most 53 significant bits, shifted
		m := r.Uint64() >> 11
		return m << uint(r.Intn(12))
	case 4: // at most 24 significant bits, shifted
		m := uint64(r.Uint32() >> 8)
		return m << uint(r.Intn(41))
	}
	return r.Uint64()
}

type c19Gen struct{ c *Ctx }

func (g *c19Gen) bigint() *big.Int {
	r := g.c.Rng
	var b *big.Int
	switch r.Intn(4) {
	case 0:
		b = new(big.Int).SetUint64(g.u64())
	case 1: // few significant bits, large shift
		b = new(big.Int).Lsh(new(big.Int).SetUint64(g.u64()>>uint(r.Intn(50))), uint(r.Intn(1000)))
	case 2:
		b = new(big.Int).Add(c19_pow2(uint(60+r.Intn(80))), big.NewInt(int64(r.Intn(5)-2)))
	default:
		b = new(big.Int).Rand(r, c19_pow2(uint(1+r.Intn(200))))
	}
	if r.Intn(2) == 0 {
		b.Neg(b)
	}
	return b
}

func (g *c19Gen) source() Ev {
	r := g.c.Rng
	switch r.Intn(9) {
	case 0:
		return Ev{K: "pi", N: g.u64()}
	case 1:
		return Ev{K: "ni", N: g.u64()}
	case 2:
		return Ev{K: "i", I: int64(g.u64())}
	case 3:
		return Ev{K: "bi", Big: g.bigint()}
	case 4:
		switch r.Intn(4) {
		case 0:
			return Ev{K: "fl", F: math.Float64frombits(r.Uint64())}
		case 1:
			f := float64(g.u64())
			if r.Intn(2) == 0 {
				f = -f
			}
			return Ev{K: "fl", F: f}
		case 2:
			return Ev{K: "fl", F: math.Ldexp(float64(r.Int63n(1<<53)), r.Intn(240)-70) * float64(1-2*r.Intn(2))}
		}
		return Ev{K: "fl", F: float64(int64(g.u64())) + float64(r.Intn(4))/4}
	case 5:
		m := g.bigint()
		neg := m.Sign() < 0
		m.Abs(m)
		prec := uint(m.BitLen() + r.Intn(3)*10)
		if prec == 0 {
			prec = 53
		}
		return Ev{K: "bf", BF: c19MakeBigFloat(neg, m, r.Intn(400)-250, prec)}
	case 6, 7:
		c := int64(g.u64())
		x := int32(r.Intn(24) - 3)
		if r.Intn(8) == 0 {
			x = int32(r.Intn(140) - 70)
		}
		if r.Intn(3) == 0 {
			return Ev{K: "df", DF: compact_float.DFloatValue(x, c)}
		}
		return Ev{K: "df", DF: compact_float.DFloat{Coefficient: c, Exponent: x}}
	}
	c := g.bigint()
	if r.Intn(2) == 0 {
		c = new(big.Int).SetUint64(g.u64())
		if r.Intn(2) == 0 {
			c.Neg(c)
		}
	}
	neg := c.Sign() < 0
	d := &apd.Decimal{Negative: neg, Exponent: int32(r.Intn(26) - 4)}
	if r.Intn(8) == 0 {
		d.Exponent = int32(r.Intn(140) - 70)
	}
	d.Coeff.Abs(c)
	return Ev{K: "bdf", BDF: d}
}

// ---------------------------------------------------------------------------
// micro-cases

//go:noinline
func c19ToInt64(f float64) int64 { return int64(f) }

//go:noinline
func c19ToUint64(f float64) uint64 { return uint64(f) }

//go:noinline
func c19FromInt64(v int64) (float64, float32) { f := float64(v); return f, float32(f) }

//go:noinline
func c19FromUint64(v uint64) (float64, float32) { f := float64(v); return f, float32(f) }

// what the library's decimal->binary parse returns for a decimal source (nil if it fails or does not apply)
func c19Ext(e Ev) (bf *big.Float) {
	defer func() {
		if r := recover(); r != nil {
			bf = nil
		}
	}()
	switch e.K {
	case "df":
		return e.DF.BigFloat()
	case "bdf":
		d := new(apd.Decimal)
		d.Set(e.BDF)
		f, err := conversions.BigDecimalFloatToBigFloat(d)
		if err != nil {
			return nil
		}
		return f
	}
	return nil
}

func c19_cOptBfl(f *big.Float) string {
	if f == nil {
		return "None"
	}
	return cSome(c19_cBfl(f))
}

// decimals on which the model has a concrete parse: integer valued, exponent 0..25 (5^25 < 2^59 fits any prec+64)
func c19ParseDomain(e Ev) bool {
	switch e.K {
	case "df":
		return !e.DF.IsSpecial() && e.DF.Coefficient != 0 && e.DF.Exponent >= 0 && e.DF.Exponent <= 25
	case "bdf":
		return e.BDF.Form == apd.Finite && e.BDF.Exponent >= 0 && e.BDF.Exponent <= 25
	}
	return false
}

// sources whose Coq evaluation stays cheap
func c19CoqFriendly(e Ev) bool {
	switch e.K {
	case "df":
		return e.DF.IsSpecial() || (e.DF.Exponent <= c19MaxDecExp && e.DF.Exponent >= -c19MaxDecExp)
	case "bdf":
		return e.BDF.Exponent <= c19MaxDecExp && e.BDF.Exponent >= -c19MaxDecExp
	}
	return true
}

// ---------------------------------------------------------------------------

func runC19(c *Ctx) {
	c.Rep.Rule = "sources: every numeric event form (positive/negative/signed/big integers, binary/big/decimal/big-decimal floats, NaN) at boundary magnitudes around every destination width, 2^24, 2^53, 2^63, 2^64, float32/float64 limits and the big-int exponent limits, plus PRNG-drawn values; " +
		"destinations: int8..int64,int,uint8..uint64,uint,float32,float64,big.Int,*big.Int,big.Float,*big.Float; routes: event straight into a builder, as the single element of a list into []T, through a CBE document and through a CTE document with ce.UnmarshalFrom*Document; " +
		"a case is non-trivial when something was stored (an exactness comparison took place) rather than an error returned; distinct = distinct (route, knob, source, destination)"
	cf := c.Cases("numconv", "CE.Model.NumConv", "numconv_case", "numconv_case_ok")
	cfgDefault := configuration.New()
	max2, max10 := int64(cfgDefault.Builder.FloatToBigIntMaxBase2Exponent), int64(cfgDefault.Builder.FloatToBigIntMaxBase10Exponent)
	c.Rep.Extra["float_to_bigint_max_base2_exponent"] = max2
	c.Rep.Extra["float_to_bigint_max_base10_exponent"] = max10
	c.Rep.Extra["allow_lossy_float_conversion_default"] = cfgDefault.Builder.AllowLossyFloatConversion

	g := &c19Gen{c: c}
	boundary := c19BoundarySources()
	sources := append([]Ev{}, boundary...)
	for i := 0; i < c.Pick(300, 6000); i++ {
		sources = append(sources, g.source())
	}
	nBoundary := len(boundary)

	coqBudget := c.Pick(900, 15000)
	coqCases := 0
	addConvCase := func(e Ev, d *c19Dst, o c19Obs, tag string) {
		ext := c19Ext(e)
		cf.Add(cApp("ConvCase", cZ(max2), cZ(max10), c19SrcCoq(e), d.coq, c19_cOptBfl(ext), o.coq()),
			fmt.Sprintf("%s %s -> %s : %s", tag, c19SrcText(e), d.name, o.String()))
		coqCases++
	}

	record := func(route string, lossy bool, d *c19Dst, e Ev, doc []byte, o c19Obs, v c19Verdict, srcKind string) {
		key := fmt.Sprintf("%s|%v|%s|%s", route, lossy, c19SrcText(e), d.name)
		c.Count(key, !o.failed)
		outcome := "stored-exact"
		switch {
		case o.failed:
			outcome = "error"
		case v.allowed:
			outcome = "stored-rounded(decimal->big.Float, permitted by AllowLossyFloatConversion)"
			if tv := c19EvVal(e); !tv.huge && tv.r != nil && new(big.Int).And(tv.r.Denom(), new(big.Int).Sub(tv.r.Denom(), big.NewInt(1))).Sign() == 0 {
				// the value is a dyadic rational: a big.Float could have held it; the loss comes from the precision the library chose
				outcome = "stored-rounded-although-representable(decimal->big.Float, permitted by AllowLossyFloatConversion)"
			}
		case !v.ok:
			outcome = "VIOLATION"
		}
		c.Dist(fmt.Sprintf("%s/%s->%s/%s", route, c19KindName[srcKind], d.kind, outcome))
		if !v.ok {
			c.Fail(c19Replay(route, lossy, d, e, doc, v, o))
		}
	}

	// 0. pinned witnesses: the inputs on which earlier versions of the library violated the property
	//    (repaired since) and the ones on which it still does. Always in the oracle and always compared with the model.
	for _, pw := range c19Pinned() {
		e, err := c19ParseSrc(pw[0])
		if err != nil {
			panic(err)
		}
		d := c19DstByName(pw[1])
		if !c19InScope(e.K, d) {
			continue
		}
		o, v, sk, _ := c19Eval("direct", true, d, e, nil)
		record("direct", true, d, e, nil, o, v, sk)
		addConvCase(e, d, o, "pinned")
		c.Dist("pinned/" + pw[0] + "->" + pw[1] + "/" + map[bool]string{true: "ok", false: "VIOLATION"}[v.ok])
	}

	// 1. direct and slice routes, default knob; correspondence cases from the direct route
	for si, e := range sources {
		isBoundary := si < nBoundary
		for di := range c19Dsts {
			d := &c19Dsts[di]
			if !c19InScope(e.K, d) {
				continue
			}
			o, v, sk, _ := c19Eval("direct", true, d, e, nil)
			record("direct", true, d, e, nil, o, v, sk)
			if len(c.Rep.Samples) < 8 && !o.failed && (si*7+di)%41 == 0 {
				c.Sample(map[string]string{"route": "direct", "src": c19SrcText(e), "dst": d.name, "stored": o.String()})
			}
			// model/implementation comparison: all violations, a share of the rest
			if c19CoqFriendly(e) && coqCases < coqBudget && o.kind != "other" {
				take := !v.ok
				if !take {
					n := c.Rng.Intn(100)
					switch {
					case c.Thorough():
						take = true
					case isBoundary && !o.failed:
						take = n < 22
					case isBoundary:
						take = n < 5
					case !o.failed:
						take = n < 30
					default:
						take = n < 8
					}
				}
				if take && !(d.name == "int" || d.name == "uint" || d.name == "big.Int" || d.name == "big.Float") {
					addConvCase(e, d, o, "direct")
				}
			}
			if (si+di)%3 == 0 || !v.ok {
				o2, v2, sk2, _ := c19Eval("slice", true, d, e, nil)
				record("slice", true, d, e, nil, o2, v2, sk2)
			}
		}
	}

	// 2. knob switched off: decimal sources into big.Float
	for _, e := range sources {
		if e.K != "df" && e.K != "bdf" {
			continue
		}
		for _, n := range []string{"big.Float", "*big.Float"} {
			d := c19DstByName(n)
			o, v, sk, _ := c19Eval("direct", false, d, e, nil)
			record("direct", false, d, e, nil, o, v, sk)
		}
	}

	// 3. end to end: CBE documents produced by the library's encoder, CTE documents spelled by hand
	e2e := 0
	for si, e := range sources {
		if si >= nBoundary && si%c.Pick(3, 1) != 0 {
			continue
		}
		// negative zero ("-0" in CTE, the negative-integer-zero / float -0 encodings in CBE) is watched on every destination
		pinned := si < nBoundary && (e.K == "ni" && e.N == 0 || e.K == "fl" && e.F == 0 && math.Signbit(e.F))
		for _, format := range []string{"cbe", "cte"} {
			var doc []byte
			if format == "cbe" {
				d, ok := c19EncodeCBE(cfgDefault, e)
				if !ok {
					c.Dist("e2e/cbe/not-encodable")
					continue
				}
				doc = d
			} else {
				s, ok := c19CTEText(e)
				if !ok {
					continue
				}
				doc = []byte(s)
			}
			evs := c19DecodeDoc(format, cfgDefault, doc)
			if len(evs) != 1 || !c19IsNumeric(evs[0].K) {
				c.Dist("e2e/" + format + "/document-not-decodable-to-one-number")
				continue
			}
			arrived := evs[0].K
			if !c19Same(c19EvVal(evs[0]), c19EvVal(e)) && !(c19EvVal(e).nan && c19EvVal(evs[0]).nan) {
				c.Dist("e2e/" + format + "/codec-changed-value(" + c19KindName[e.K] + ")")
				if format == "cbe" || c19EvVal(e).huge {
					// the document came out of the library's own encoder: what it encodes is the encoder's
					// business (marshalling), not a conversion made while unmarshalling
					continue
				}
				// a CTE document spelled by hand: its value is known; the decoder handed something else to the builder
				arrived = "!" + arrived
			}
			c.Dist(fmt.Sprintf("e2e/%s/%s-arrives-as-%s", format, c19KindName[e.K], c19KindName[evs[0].K]))
			for di := range c19Dsts {
				d := &c19Dsts[di]
				if (si+di)%c.Pick(4, 1) != 0 && !pinned {
					continue
				}
				o, v, sk, note := c19EvalK(format, true, d, e, doc, arrived)
				if note != "" {
					continue
				}
				record(format, true, d, e, doc, o, v, sk)
				e2e++
				// tie the pipeline to the model as well: the decoded event through conv must give what Unmarshal gave
				if coqCases < coqBudget+c.Pick(200, 3000) && c19CoqFriendly(evs[0]) && o.kind != "other" && c19InScope(evs[0].K, d) &&
					(c.Thorough() || c.Rng.Intn(100) < 6 || !v.ok && c.Rng.Intn(100) < 30) {
					addConvCase(evs[0], d, o, format)
				} else if pinned && c19InScope(evs[0].K, d) && o.kind != "other" {
					addConvCase(evs[0], d, o, format+"-pinned")
				}
			}
		}
	}
	c.Rep.Extra["e2e_evaluations"] = e2e

	// 4. several numbers in one document
	runC19Multi(c, g, cf, max2, max10, c.Pick(260, 6000))

	// 5. micro-cases
	for _, e := range sources {
		switch e.K {
		case "fl":
			if c.Thorough() || c.Rng.Intn(100) < 40 {
				i, u := c19ToInt64(e.F), c19ToUint64(e.F)
				cf.Add(cApp("CvtCase", cN(math.Float64bits(e.F)), cZ(i), c19_cU64Z(u)), fmt.Sprintf("int64(%v)=%d uint64(%v)=%d", e.F, i, e.F, u))
			}
		case "i":
			if !c.Thorough() && c.Rng.Intn(100) >= 60 {
				continue
			}
			f64, f32 := c19FromInt64(e.I)
			cf.Add(cApp("RoundCase", cZ(e.I), cN(math.Float64bits(f64)), cN(uint64(math.Float32bits(f32)))), fmt.Sprintf("float64(int64 %d), float32 of it", e.I))
		case "pi":
			if !c.Thorough() && c.Rng.Intn(100) >= 60 {
				continue
			}
			f64, f32 := c19FromUint64(e.N)
			cf.Add(cApp("RoundCase", c19_cU64Z(e.N), cN(math.Float64bits(f64)), cN(uint64(math.Float32bits(f32)))), fmt.Sprintf("float64(uint64 %d), float32 of it", e.N))
		case "df", "bdf":
			if c19ParseDomain(e) && (c.Thorough() || c.Rng.Intn(100) < 50) {
				ext := c19Ext(e)
				dterm := ""
				if e.K == "df" {
					dterm = c19_cDecDF(e.DF)
				} else {
					dterm = c19_cDecAPD(e.BDF)
				}
				cf.Add(cApp("ParseCase", cBool(e.K == "bdf"), dterm, c19_cOptBfl(ext)), "parse "+c19SrcText(e))
			}
		}
	}
}

func replayC19(r *Replay) (bool, string) {
	if r.Kind == "multi" {
		return replayC19Multi(r)
	}
	if r.Kind != "conv" {
		return false, "unknown replay kind " + r.Kind
	}
	e, err := c19ParseSrc(r.Input["src"])
	if err != nil {
		return false, err.Error()
	}
	d := c19DstByName(r.Input["dst"])
	if d == nil {
		return false, "unknown destination " + r.Input["dst"]
	}
	lossy := r.Input["lossy_knob"] != "false"
	var doc []byte
	if h, ok := r.Input["doc_hex"]; ok {
		doc, err = hex.DecodeString(h)
		if err != nil {
			return false, "bad doc_hex"
		}
	}
	o, v, _, note := c19Eval(r.Input["route"], lossy, d, e, doc)
	if note != "" && note != "out of scope" {
		return false, note
	}
	detail := fmt.Sprintf("route %s, %s (value %s) into %s gave %s", r.Input["route"], r.Input["src"], c19EvVal(e).String(), d.name, o.String())
	if doc != nil {
		detail += fmt.Sprintf(" [document %q / hex %s]", string(doc), hex.EncodeToString(doc))
	}
	if !v.ok {
		detail += "; required: " + v.expect + " [" + v.key + "]"
	}
	return v.ok, detail
}

// ---------------------------------------------------------------------------
// several numbers in one document
//
// Every number of a document must end up in its own slot with its own value: a slot of a
// list / array / struct / map that holds anything other than what the same number gives when it
// is alone in the same kind of document (and other than the number itself) has been disturbed
// by another number of the document - key C19/aliasing/<source-form>-><destination-kind>.

type c19Elem struct {
	name string
	typ  reflect.Type
	kind string // as c19Dst.kind, plus bigdecimal, any
	coq  string // model destination, "" if the model has none
}

func c19Elems() []c19Elem {
	out := []c19Elem{}
	for _, d := range c19Dsts {
		out = append(out, c19Elem{d.name, reflect.TypeOf(d.tmpl), d.kind, d.coq})
	}
	out = append(out,
		c19Elem{"apd.Decimal", reflect.TypeOf(apd.Decimal{}), "bigdecimal", ""},
		c19Elem{"*apd.Decimal", reflect.TypeOf((*apd.Decimal)(nil)), "bigdecimal", ""},
		c19Elem{"interface{}", reflect.TypeOf((*interface{})(nil)).Elem(), "any", ""})
	return out
}

func c19ElemByName(n string) *c19Elem {
	for _, e := range c19Elems() {
		if e.name == n {
			e := e
			return &e
		}
	}
	return nil
}

var c19Containers = []string{"slice", "array", "struct", "map"}

func c19ContainerTemplate(container string, elem reflect.Type, k int) interface{} {
	switch container {
	case "slice":
		return reflect.MakeSlice(reflect.SliceOf(elem), 0, 0).Interface()
	case "array":
		return reflect.New(reflect.ArrayOf(k, elem)).Elem().Interface()
	case "struct":
		fs := []reflect.StructField{}
		for i := 0; i < k; i++ {
			fs = append(fs, reflect.StructField{Name: fmt.Sprintf("F%d", i), Type: elem})
		}
		return reflect.New(reflect.StructOf(fs)).Elem().Interface()
	case "map":
		return reflect.MakeMap(reflect.MapOf(reflect.TypeOf(""), elem)).Interface()
	}
	panic("container " + container)
}

func c19Key(i int) Ev {
	return Ev{K: "sa", A: events.ArrayTypeString, Data: []byte(fmt.Sprintf("f%d", i))}
}

// the event sequence of the document body
func c19ContainerEvents(container string, elems []Ev) []Ev {
	out := []Ev{}
	switch container {
	case "slice", "array":
		out = append(out, Ev{K: "l"})
		out = append(out, elems...)
	default:
		out = append(out, Ev{K: "m"})
		for i, e := range elems {
			out = append(out, c19Key(i), e)
		}
	}
	return append(out, Ev{K: "e"})
}

func c19ContainerCTE(container string, elems []Ev) (string, bool) {
	parts := []string{}
	for i, e := range elems {
		t, ok := c19CTEText(e)
		if !ok {
			return "", false
		}
		t = strings.TrimPrefix(t, "c0 ")
		if container == "struct" || container == "map" {
			t = fmt.Sprintf("\"f%d\"=%s", i, t)
		}
		parts = append(parts, t)
	}
	if container == "struct" || container == "map" {
		return "c0 {" + strings.Join(parts, " ") + "}", true
	}
	return "c0 [" + strings.Join(parts, " ") + "]", true
}

// the slots of a built container, in document order
func c19ContainerSlots(container string, built interface{}, k int) ([]c19Obs, string) {
	rv := reflect.ValueOf(built)
	for rv.IsValid() && rv.Kind() == reflect.Ptr && !rv.IsNil() && (rv.Elem().Kind() == reflect.Struct && container == "struct" || rv.Elem().Kind() == reflect.Array) {
		rv = rv.Elem()
	}
	if !rv.IsValid() {
		return nil, "nothing built"
	}
	out := []c19Obs{}
	switch container {
	case "slice", "array":
		if (rv.Kind() != reflect.Slice && rv.Kind() != reflect.Array) || rv.Len() != k {
			return nil, fmt.Sprintf("built %v, expected %d elements", rv.Type(), k)
		}
		for i := 0; i < k; i++ {
			out = append(out, c19Observe(rv.Index(i).Interface()))
		}
	case "struct":
		if rv.Kind() != reflect.Struct || rv.NumField() != k {
			return nil, fmt.Sprintf("built %v", rv.Type())
		}
		for i := 0; i < k; i++ {
			out = append(out, c19Observe(rv.Field(i).Interface()))
		}
	case "map":
		if rv.Kind() != reflect.Map || rv.Len() != k {
			return nil, fmt.Sprintf("built %v with %d entries, expected %d", rv.Type(), rv.Len(), k)
		}
		for i := 0; i < k; i++ {
			v := rv.MapIndex(reflect.ValueOf(fmt.Sprintf("f%d", i)))
			if !v.IsValid() {
				return nil, fmt.Sprintf("map entry f%d missing", i)
			}
			out = append(out, c19Observe(v.Interface()))
		}
	}
	return out, ""
}

// one document with the given numbers through one route. failed: an error was reported.
func c19MultiRun(route, container string, elem *c19Elem, elems []Ev) (slots []c19Obs, failed bool, doc []byte, note string) {
	defer func() {
		if r := recover(); r != nil {
			if route == "direct" {
				slots, failed = nil, true // the builder reports errors by panicking
			} else {
				slots, note = nil, fmt.Sprintf("panic out of %s: %v", route, r)
			}
		}
	}()
	cfg := c19Config(true)
	k := len(elems)
	tmpl := c19ContainerTemplate(container, elem.typ, k)
	body := c19ContainerEvents(container, elems)
	var built interface{}
	switch route {
	case "direct":
		b := c19Session(cfg).NewBuilderFor(tmpl)
		b.OnBeginDocument()
		b.OnVersion(0)
		for _, e := range body {
			play(b, e)
		}
		b.OnEndDocument()
		built = b.GetBuiltObject()
	case "cbe":
		var buf bytes.Buffer
		enc := ce.NewCBEEncoder(cfg)
		enc.PrepareToEncode(&buf)
		enc.OnBeginDocument()
		enc.OnVersion(0)
		for _, e := range body {
			play(enc, e)
		}
		enc.OnEndDocument()
		doc = append([]byte{}, buf.Bytes()...)
		v, err := c19Unmarshaler("cbe", cfg).UnmarshalFromDocument(doc, tmpl)
		if err != nil {
			return nil, true, doc, ""
		}
		built = v
	case "cte":
		text, ok := c19ContainerCTE(container, elems)
		if !ok {
			return nil, false, nil, "no CTE spelling"
		}
		doc = []byte(text)
		v, err := c19Unmarshaler("cte", cfg).UnmarshalFromDocument(doc, tmpl)
		if err != nil {
			return nil, true, doc, ""
		}
		built = v
	default:
		return nil, false, nil, "unknown route " + route
	}
	slots, note = c19ContainerSlots(container, built, k)
	return slots, false, doc, note
}

func c19ObsSame(a, b c19Obs) bool {
	if a.failed || b.failed || a.kind != b.kind {
		return a.failed == b.failed && a.kind == b.kind
	}
	switch a.kind {
	case "float32":
		return math.Float32bits(a.F32) == math.Float32bits(b.F32)
	case "float64":
		return math.Float64bits(a.F64) == math.Float64bits(b.F64)
	case "bigfloat":
		return a.BF.Cmp(b.BF) == 0 && a.BF.Signbit() == b.BF.Signbit() && a.BF.Prec() == b.BF.Prec()
	case "other":
		return a.other == b.other
	}
	av, bv := a.val(), b.val()
	return c19Same(av, bv) || av.nan && bv.nan || av.huge && bv.huge
}

type c19MultiFinding struct {
	slot          int
	key, exp, got string
}

// judge a document of several numbers: alone[i] is what number i gives as the only number of the
// same kind of document through the same route
func c19MultiJudge(elem *c19Elem, elems []Ev, alone, slots []c19Obs) []c19MultiFinding {
	out := []c19MultiFinding{}
	for i, e := range elems {
		if c19ObsSame(slots[i], alone[i]) {
			continue
		}
		if c19Same(slots[i].val(), c19EvVal(e)) {
			continue // different representation, still the number itself
		}
		out = append(out, c19MultiFinding{slot: i,
			key: fmt.Sprintf("C19/aliasing/%s->%s", c19KindName[e.K], elem.kind),
			exp: fmt.Sprintf("slot %d holds what %s gives on its own: %s", i, c19SrcText(e), alone[i].String()),
			got: fmt.Sprintf("slot %d holds %s", i, slots[i].String())})
	}
	return out
}

func c19SrcsText(es []Ev) string {
	ss := []string{}
	for _, e := range es {
		ss = append(ss, c19SrcText(e))
	}
	return strings.Join(ss, " ")
}

// the numbers of a group that convert on their own (a document with a refused number is refused as a whole)
func c19MultiAlone(route, container string, elem *c19Elem, group []Ev) (kept []Ev, alone []c19Obs) {
	for _, e := range group {
		s, failed, _, note := c19MultiRun(route, container, elem, []Ev{e})
		if failed || note != "" || len(s) != 1 || s[0].kind == "other" {
			continue
		}
		kept = append(kept, e)
		alone = append(alone, s[0])
	}
	return
}

// groups of 2-4 distinct numbers of one source form
func c19MultiGroups(g *c19Gen, random int) [][]Ev {
	ni := func(v uint64) Ev { return Ev{K: "ni", N: v} }
	pi := func(v uint64) Ev { return Ev{K: "pi", N: v} }
	bi := func(s string) Ev { return Ev{K: "bi", Big: c19_bigOf(s)} }
	bd := func(neg bool, c string, x int32) Ev {
		d := &apd.Decimal{Negative: neg, Exponent: x}
		d.Coeff.Set(c19_bigOf(c))
		return Ev{K: "bdf", BDF: d}
	}
	bf := func(neg bool, m string, x int, prec uint) Ev {
		return Ev{K: "bf", BF: c19MakeBigFloat(neg, c19_bigOf(m), x, prec)}
	}
	df := func(c int64, x int32) Ev { return Ev{K: "df", DF: compact_float.DFloat{Coefficient: c, Exponent: x}} }
	groups := [][]Ev{
		// wide negative integers: below -2^63, delivered as OnNegativeInt(uint64)
		{ni(1<<63 + 1), ni(1<<64 - 1), ni(12345678901234567890)},
		{ni(1<<63 + 5), ni(1 << 63)},
		{ni(1<<64 - 1), ni(1<<63 + 1), ni(1<<63 + 2), ni(9999999999999999999)},
		// wide negative integers delivered as big integers
		{bi("-9223372036854775809"), bi("-18446744073709551615"), bi("-18446744073709551616"), bi("-1267650600228229401496703205376")},
		// wide positive integers: above 2^64-1, and the top of the uint64 range
		{bi("18446744073709551616"), bi("18446744073709551617"), bi("340282366920938463463374607431768211456")},
		{bi("1180591620717411303424"), bi("18446744073709551616")},
		{pi(1<<64 - 1), pi(1<<63 + 1), pi(1 << 63)},
		// big decimals
		{bd(false, "123456789012345678901234567890", 0), bd(true, "987654321098765432109876543210", -3), bd(false, "5", 30)},
		{bd(false, "18446744073709551616", 0), bd(false, "18446744073709551617", 0), bd(true, "18446744073709551616", 2), bd(false, "15", -1)},
		// big floats
		{bf(false, "1267650600228229401496703205377", 0, 128), bf(true, "3", -1, 64), bf(false, "1267650600228229401496703205379", -20, 128)},
		{bf(false, "18446744073709551617", 0, 65), bf(true, "18446744073709551619", 0, 65)},
		// the narrower forms
		{df(15, -1), df(-5, 3), df(12345, -2), df(7, 0)},
		{Ev{K: "i", I: -5}, Ev{K: "i", I: math.MinInt64}, Ev{K: "i", I: 77}},
		{pi(5), pi(200), pi(70000)},
		{ni(5), ni(200), ni(1<<63 - 1)},
		{Ev{K: "fl", F: 1.5}, Ev{K: "fl", F: -2.25}, Ev{K: "fl", F: 1e30}},
	}
	for i := 0; i < random; i++ {
		first := g.source()
		grp := []Ev{first}
		for tries := 0; len(grp) < 2+g.c.Rng.Intn(3) && tries < 60; tries++ {
			e := g.source()
			if e.K == first.K {
				grp = append(grp, e)
			}
		}
		if len(grp) >= 2 {
			groups = append(groups, grp)
		}
	}
	return groups
}

// runC19Multi: documents carrying several numbers. budget: how many slots may become Coq cases.
func runC19Multi(c *Ctx, g *c19Gen, cf *caseFile, max2, max10 int64, budget int) {
	groups := c19MultiGroups(g, c.Pick(12, 300))
	nFixed := len(groups) - 0
	elems := c19Elems()
	coq := 0
	docs := 0
	for gi, group := range groups {
		wide := gi < 11 // the fixed groups of wide values: every container, every destination, every route
		for ei := range elems {
			elem := &elems[ei]
			if elem.coq != "" && !c19InScope(group[0].K, c19DstByName(elem.name)) {
				continue
			}
			for ci, container := range c19Containers {
				for ri, route := range []string{"direct", "cbe", "cte"} {
					if !wide && !c.Thorough() && (gi+ei+ci+ri)%3 != 0 {
						continue
					}
					kept, alone := c19MultiAlone(route, container, elem, group)
					if len(kept) < 2 {
						c.Dist(fmt.Sprintf("multi/%s/%s->%s/fewer-than-two-numbers-convert", route, c19KindName[group[0].K], elem.kind))
						continue
					}
					slots, failed, doc, note := c19MultiRun(route, container, elem, kept)
					docs++
					key := fmt.Sprintf("multi|%s|%s|%s|%s", route, container, elem.name, c19SrcsText(kept))
					c.Count(key, !failed)
					in := map[string]string{"route": route, "container": container, "dst": elem.name, "srcs": c19SrcsText(kept)}
					if doc != nil {
						in["doc_hex"] = hex.EncodeToString(doc)
					}
					switch {
					case note != "":
						c.Dist(fmt.Sprintf("multi/%s/%s/%s->%s/unexpected-shape", route, container, c19KindName[group[0].K], elem.kind))
						c.Fail(Replay{Kind: "multi", Key: fmt.Sprintf("C19/aliasing/%s->%s", c19KindName[group[0].K], elem.kind), Input: in,
							Expect: fmt.Sprintf("%d slots, each with its own number (every number converts on its own)", len(kept)), Got: note})
						continue
					case failed:
						c.Dist(fmt.Sprintf("multi/%s/%s/%s->%s/error", route, container, c19KindName[group[0].K], elem.kind))
						continue
					}
					fs := c19MultiJudge(elem, kept, alone, slots)
					if len(fs) == 0 {
						c.Dist(fmt.Sprintf("multi/%s/%s/%s->%s/every-slot-own-number", route, container, c19KindName[group[0].K], elem.kind))
					} else {
						c.Dist(fmt.Sprintf("multi/%s/%s/%s->%s/VIOLATION", route, container, c19KindName[group[0].K], elem.kind))
					}
					for _, f := range fs {
						c.Fail(Replay{Kind: "multi", Key: f.key, Input: in, Expect: f.exp, Got: f.got})
					}
					if len(c.Rep.Samples) < 8 && wide && route == "cbe" && ei%5 == 0 {
						c.Sample(map[string]string{"route": route, "container": container, "dst": elem.name, "numbers": c19SrcsText(kept), "doc_hex": hex.EncodeToString(doc)})
					}
					// correspondence: the model converts every number on its own. The document routes are tied through the
					// events the decoder delivers, which the direct route feeds as they are.
					if elem.coq != "" && route == "direct" && coq < budget && (len(fs) > 0 || c.Thorough() || wide && (ci+ei)%2 == 0 || c.Rng.Intn(100) < 10) {
						d := c19DstByName(elem.name)
						for i, e := range kept {
							if !c19CoqFriendly(e) || slots[i].kind == "other" {
								continue
							}
							cf.Add(cApp("ConvCase", cZ(max2), cZ(max10), c19SrcCoq(e), d.coq, c19_cOptBfl(c19Ext(e)), slots[i].coq()),
								fmt.Sprintf("multi direct %s slot %d of [%s] -> %s : %s", container, i, c19SrcsText(kept), d.name, slots[i].String()))
							coq++
						}
					}
				}
			}
		}
	}
	_ = nFixed
	c.Rep.Extra["multi_number_documents"] = docs
}

func replayC19Multi(r *Replay) (bool, string) {
	elem := c19ElemByName(r.Input["dst"])
	if elem == nil {
		return false, "unknown destination " + r.Input["dst"]
	}
	es := []Ev{}
	for _, t := range strings.Fields(r.Input["srcs"]) {
		e, err := c19ParseSrc(t)
		if err != nil {
			return false, err.Error()
		}
		es = append(es, e)
	}
	route, container := r.Input["route"], r.Input["container"]
	kept, alone := c19MultiAlone(route, container, elem, es)
	if len(kept) != len(es) {
		return true, "not every number converts on its own any more; the document may be refused"
	}
	slots, failed, doc, note := c19MultiRun(route, container, elem, kept)
	detail := fmt.Sprintf("route %s, %s of %s with the numbers [%s]", route, container, elem.name, c19SrcsText(kept))
	if doc != nil {
		detail += " [document hex " + hex.EncodeToString(doc) + "]"
	}
	if note != "" {
		return false, detail + ": " + note
	}
	if failed {
		return true, detail + ": error reported"
	}
	fs := c19MultiJudge(elem, kept, alone, slots)
	if len(fs) == 0 {
		return true, detail + ": every slot holds its own number"
	}
	return false, fmt.Sprintf("%s: %s; required: %s [%s]", detail, fs[0].got, fs[0].exp, fs[0].key)
}
