package main

import (
	"fmt"
	"math"
	"math/big"
	"strings"

	"github.com/cockroachdb/apd/v2"
	"github.com/kstenerud/go-concise-encoding/ce/events"
)

// denGo is the Go twin of Model/Denote.v `den`: every element is rendered as the Coq term of type dev,
// so that two denotations are equal iff their renderings are, and so that the two implementations can be
// compared with each other on every run (den_case).

var ten = big.NewInt(10)

func dnum(neg bool, c *big.Int, e int64) string {
	c = new(big.Int).Set(c)
	if c.Sign() == 0 {
		return cApp("DNum", cBool(neg), "0", "0%Z")
	}
	q, r := new(big.Int), new(big.Int)
	for {
		q.QuoRem(c, ten, r)
		if r.Sign() != 0 {
			break
		}
		c.Set(q)
		e++
	}
	return cApp("DNum", cBool(neg), c.String(), cZ(e))
}

func f64Den(v float64) string {
	bits := math.Float64bits(v)
	switch {
	case math.IsNaN(v):
		return cApp("DNan", cBool(bits&(1<<51) == 0))
	case math.IsInf(v, 0):
		return cApp("DInfinity", cBool(v < 0))
	case v == 0:
		return cApp("DNum", cBool(bits>>63 == 1), "0", "0%Z")
	}
	return cApp("DBin", cN(bits))
}

func bigFloatDen(f *big.Float) string {
	if f.IsInf() {
		return cApp("DInfinity", cBool(f.Signbit()))
	}
	if f.Sign() == 0 {
		return cApp("DNum", cBool(f.Signbit()), "0", "0%Z")
	}
	if v, acc := f.Float64(); acc == big.Exact && !math.IsInf(v, 0) && v != 0 {
		return cApp("DBin", cN(math.Float64bits(v)))
	}
	mant := new(big.Float)
	exp := f.MantExp(mant)
	prec := int(f.MinPrec())
	mant.SetMantExp(mant, prec)
	mi, _ := mant.Int(nil)
	mi.Abs(mi)
	e := int64(exp - prec)
	for mi.Bit(0) == 0 {
		mi.Rsh(mi, 1)
		e++
	}
	return cApp("DBigBin", cBool(f.Signbit()), mi.String(), cZ(e))
}

func apdDen(d *apd.Decimal) string {
	switch d.Form {
	case apd.NaNSignaling:
		return "(DNan true)"
	case apd.NaN:
		return "(DNan false)"
	case apd.Infinite:
		return cApp("DInfinity", cBool(d.Negative))
	}
	return dnum(d.Negative, new(big.Int).Abs(&d.Coeff), int64(d.Exponent))
}

type denArr struct {
	kind      string // arr media custom
	t         events.ArrayType
	mt        string
	text      bool
	ct        uint64
	count     uint64
	data      []byte
	remaining uint64
	last      bool
	inChunk   bool
}

func (a *denArr) finish() string {
	switch a.kind {
	case "media":
		return cApp("DMedia", cBytes([]byte(a.mt)), cBytes(a.data))
	case "custom":
		return cApp("DCustom", cBool(a.text), cN(a.ct), cBytes(a.data))
	}
	return cApp("DArr", cN(uint64(a.t)), cN(a.count), cBytes(a.data))
}

func (a *denArr) chunkBytes(n uint64) uint64 {
	if a.kind == "arr" {
		return byteCountFor(a.t, n)
	}
	return n
}

func denGo(es []Ev) []string {
	out := []string{}
	var a *denArr
	for _, e := range es {
		if a != nil {
			switch e.K {
			case "ac":
				if a.inChunk {
					out = append(out, "DMalformed")
					a = nil
				} else if e.N == 0 {
					if !e.B {
						out = append(out, a.finish())
						a = nil
					}
				} else {
					a.count += e.N
					a.remaining, a.last, a.inChunk = a.chunkBytes(e.N), !e.B, true
				}
			case "ad":
				if !a.inChunk || uint64(len(e.Data)) > a.remaining {
					out = append(out, "DMalformed")
					a = nil
				} else {
					a.data = append(a.data, e.Data...)
					a.remaining -= uint64(len(e.Data))
					a.inChunk = a.remaining != 0
					if a.remaining == 0 && a.last {
						out = append(out, a.finish())
						a = nil
					}
				}
			case "cm":
				out = append(out, cApp("DComment", cBool(e.B), cBytes(e.Data)))
			default:
				out = append(out, "DMalformed")
				a = nil
			}
			continue
		}
		switch e.K {
		case "bd":
			out = append(out, "DBeginDoc")
		case "ed":
			out = append(out, "DEndDoc")
		case "v":
			out = append(out, cApp("DVersion", cN(e.N)))
		case "pad":
			out = append(out, "DPadding")
		case "cm":
			out = append(out, cApp("DComment", cBool(e.B), cBytes(e.Data)))
		case "null":
			out = append(out, "DNull")
		case "b":
			out = append(out, cApp("DBool", cBool(e.B)))
		case "t":
			out = append(out, "(DBool true)")
		case "f":
			out = append(out, "(DBool false)")
		case "pi":
			out = append(out, dnum(false, new(big.Int).SetUint64(e.N), 0))
		case "ni":
			out = append(out, dnum(true, new(big.Int).SetUint64(e.N), 0))
		case "i":
			out = append(out, dnum(e.I < 0, new(big.Int).Abs(big.NewInt(e.I)), 0))
		case "bi":
			if e.Big == nil {
				out = append(out, "DNull")
			} else {
				out = append(out, dnum(e.Big.Sign() < 0, new(big.Int).Abs(e.Big), 0))
			}
		case "fl":
			out = append(out, f64Den(e.F))
		case "bf":
			if e.BF == nil {
				out = append(out, "DNull")
			} else {
				out = append(out, bigFloatDen(e.BF))
			}
		case "df":
			d := e.DF
			switch {
			case d.IsSignalingNan():
				out = append(out, "(DNan true)")
			case d.IsNan():
				out = append(out, "(DNan false)")
			case d.IsNegativeInfinity():
				out = append(out, "(DInfinity true)")
			case d.IsInfinity():
				out = append(out, "(DInfinity false)")
			case d.IsNegativeZero():
				out = append(out, "(DNum true 0 0%Z)")
			default:
				out = append(out, dnum(d.Coefficient < 0, new(big.Int).Abs(big.NewInt(d.Coefficient)), int64(d.Exponent)))
			}
		case "bdf":
			if e.BDF == nil {
				out = append(out, "DNull")
			} else {
				out = append(out, apdDen(e.BDF))
			}
		case "nan":
			out = append(out, cApp("DNan", cBool(e.B)))
		case "uid":
			out = append(out, cApp("DUid", cBytes(e.Data)))
		case "tm":
			out = append(out, cApp("DTime", cBytes([]byte(e.T.String()))))
		case "l":
			out = append(out, "DList")
		case "m":
			out = append(out, "DMap")
		case "rt":
			out = append(out, cApp("DRecordType", cBytes(e.Data)))
		case "rec":
			out = append(out, cApp("DRecord", cBytes(e.Data)))
		case "edge":
			out = append(out, "DEdge")
		case "node":
			out = append(out, "DNode")
		case "e":
			out = append(out, "DEnd")
		case "mk":
			out = append(out, cApp("DMarker", cBytes(e.Data)))
		case "ref":
			out = append(out, cApp("DRef", cBytes(e.Data)))
		case "a":
			cnt := e.N
			if e.A.ElementSize() == 8 {
				cnt = uint64(len(e.Data))
			}
			out = append(out, cApp("DArr", cN(uint64(e.A)), cN(cnt), cBytes(e.Data)))
		case "sa":
			out = append(out, cApp("DArr", cN(uint64(e.A)), cN(uint64(len(e.Data))), cBytes(e.Data)))
		case "media":
			out = append(out, cApp("DMedia", cBytes([]byte(e.S)), cBytes(e.Data)))
		case "cb":
			out = append(out, cApp("DCustom", "false", cN(e.N), cBytes(e.Data)))
		case "ct":
			out = append(out, cApp("DCustom", "true", cN(e.N), cBytes(e.Data)))
		case "ab":
			a = &denArr{kind: "arr", t: e.A}
		case "mb":
			a = &denArr{kind: "media", mt: e.S}
		case "cbeg":
			a = &denArr{kind: "custom", text: e.A == events.ArrayTypeCustomText, ct: e.N}
		default:
			out = append(out, "DMalformed")
		}
	}
	if a != nil {
		out = append(out, "DMalformed")
	}
	return out
}

func denFilter(d []string, dropComments, dropPadding bool) []string {
	out := []string{}
	for _, x := range d {
		if dropComments && strings.HasPrefix(x, "(DComment ") {
			continue
		}
		if dropPadding && x == "DPadding" {
			continue
		}
		out = append(out, x)
	}
	return out
}

func denString(d []string) string { return strings.Join(d, " ") }

// addDenCase records one event list for the Go-vs-Coq comparison of the denotation function itself.
func (c *Ctx) addDenCase(es []Ev) {
	cf := c.Cases("den", "CE.Model.Denote", "den_case", "den_case_ok")
	cf.perFile = 200
	cf.Add(cPair(cEvs(es), cList(denGo(es))), fmt.Sprintf("den of %s", evsString(es)))
}
