package main

// C03 - CBE and CTE are 1:1 convertible.
//
// Search oracle on the implementation, both directions, through the public API only:
//
//	CBE document -> ce.NewCBEDecoder -> ce.NewRules -> ce.NewCTEEncoder -> text
//	             -> ce.NewCTEDecoder -> ce.NewRules -> Recorder        (must be accepted, same data up to padding)
//	             -> ce.NewCBEEncoder -> document -> ce.NewCBEDecoder -> ce.NewRules -> Recorder   (same data again)
//	CTE document -> ce.NewCTEDecoder -> ce.NewRules -> ce.NewCBEEncoder -> document (unless it holds custom text)
//	             -> ce.NewCBEDecoder -> ce.NewRules -> Recorder        (must be accepted, same data up to comments)
//
// "same data" is equality of denotations (den.go, the Go twin of Model/Denote.v).  Two time zones that
// compact_time itself identifies (an area/location spelling of UTC such as "C/UTC") count as the same data.
// CBE documents that did not come out of the library's own encoder are decoded in a child process
// (DecodeInChild): the CBE reader allocates from announced lengths.
//
// Correspondence (family convert, CE.Model.Convert): every stage of both pipelines against the composed
// models (CvCbe, CvEvents, CvCte), times as the CBE reader builds them against [time_string] / [time_valid] /
// [zone_lexable] and the reader model (CvTime), byte strings as identifiers and media types against the
// validator's and the lexer's character classes (CvIdent, CvMedia).

import (
	"bytes"
	"encoding/hex"
	"fmt"
	"math/rand"
	"strings"
	"unicode/utf8"

	compact_time "github.com/kstenerud/go-compact-time"
	"github.com/kstenerud/go-concise-encoding/ce"
	"github.com/kstenerud/go-concise-encoding/ce/events"
	"github.com/kstenerud/go-concise-encoding/configuration"
	"github.com/kstenerud/go-concise-encoding/verifhooks"
)

func init() { register("C03", runC03, replayC03) }

// ---------------------------------------------------------------------------
// Go twins of the model's class predicates (Model/Convert.v); used only to NAME the failure class of an
// input (the verdict itself comes from the pipeline), and compared with the model by CvMedia / CvTime.

func c03Alpha(b byte) bool { return (b >= 'a' && b <= 'z') || (b >= 'A' && b <= 'Z') }
func c03Digit(b byte) bool { return b >= '0' && b <= '9' }
func c03MediaNext(b byte) bool {
	return c03Alpha(b) || c03Digit(b) || strings.IndexByte("!#$%&'*+.^_`|~{}-", b) >= 0
}

// CTELexer.g4 MEDIA_TYPE: [a-zA-Z] NEXT* '/' NEXT+
func c03MediaLexable(mt string) bool {
	if len(mt) == 0 || !c03Alpha(mt[0]) {
		return false
	}
	i := 1
	for i < len(mt) && c03MediaNext(mt[i]) {
		i++
	}
	if i >= len(mt) || mt[i] != '/' {
		return false
	}
	j := i + 1
	for j < len(mt) && c03MediaNext(mt[j]) {
		j++
	}
	return j > i+1 && j == len(mt)
}

// CTELexer.g4 TZ_AREALOC without the slash: [A-Z] [a-zA-Z0-9_-./+]*
func c03AreaLexable(long string) bool {
	if len(long) == 0 || long[0] < 'A' || long[0] > 'Z' {
		return false
	}
	for i := 1; i < len(long); i++ {
		b := long[i]
		if !(c03Alpha(b) || c03Digit(b) || strings.IndexByte("_-./+", b) >= 0) {
			return false
		}
	}
	return true
}

var c03DayMax = []int{0, 31, 29, 31, 30, 31, 30, 31, 31, 30, 31, 30, 31}

// c03TimeProblem names what the text side cannot take over from a time value the binary side accepts ("" = nothing).
func c03TimeProblem(t compact_time.Time) string {
	if t.IsZeroValue() {
		return "zero-time-as-null"
	}
	if t.Type == compact_time.TimeTypeDate || t.Type == compact_time.TimeTypeTimestamp {
		switch {
		case t.Year == 0:
			return "time-year-zero"
		case t.Month < 1 || t.Month > 12:
			return "time-month-out-of-range"
		case t.Day < 1 || int(t.Day) > c03DayMax[t.Month]:
			return "time-day-out-of-range"
		}
	}
	if t.Type == compact_time.TimeTypeTime || t.Type == compact_time.TimeTypeTimestamp {
		switch {
		case t.Hour > 23:
			return "time-hour-out-of-range"
		case t.Minute > 59:
			return "time-minute-out-of-range"
		case t.Second > 60:
			return "time-second-out-of-range"
		case t.Nanosecond > 999999999:
			return "time-nanosecond-out-of-range"
		}
		z := t.Timezone
		switch z.Type {
		case compact_time.TimezoneTypeAreaLocation:
			if !c03AreaLexable(z.LongAreaLocation) {
				return "area-location-not-spellable"
			}
			if len(z.LongAreaLocation) > 127 {
				return "area-location-expands-over-127-bytes"
			}
		case compact_time.TimezoneTypeLatitudeLongitude:
			if z.LatitudeHundredths < -9000 || z.LatitudeHundredths > 9000 || z.LongitudeHundredths < -18000 || z.LongitudeHundredths > 18000 {
				return "time-latitude-longitude-out-of-range"
			}
		case compact_time.TimezoneTypeUTCOffset:
			if z.MinutesOffsetFromUTC < -1439 || z.MinutesOffsetFromUTC > 1439 {
				return "time-utc-offset-out-of-range"
			}
		}
	}
	return ""
}

var c03TypedArrayNames = map[string]bool{"b": true, "uid": true}

func init() {
	for _, k := range []string{"i", "u"} {
		for _, w := range []string{"8", "16", "32", "64"} {
			for _, s := range []string{"", "b", "o", "x"} {
				c03TypedArrayNames[k+w+s] = true
			}
		}
	}
	for _, w := range []string{"16", "32", "64"} {
		c03TypedArrayNames["f"+w] = true
		c03TypedArrayNames["f"+w+"x"] = true
	}
}

// c03Construct names the construct of an accepted binary-side stream that the text side is known not to
// take over ("" when none); the first one in stream order wins.
func c03Construct(es []Ev) string {
	for _, e := range es {
		switch e.K {
		case "mb", "media":
			if !c03MediaLexable(e.S) {
				if c03TypedArrayNames[strings.ToLower(e.S)] {
					return "media-type-is-an-array-type-name"
				}
				if isAllDigits(e.S) {
					return "media-type-is-a-custom-type-number"
				}
				return "media-type-not-spellable"
			}
		case "tm":
			if p := c03TimeProblem(e.T); p != "" {
				return p
			}
		}
	}
	return c02Construct(es)
}

func isAllDigits(s string) bool {
	if s == "" {
		return false
	}
	for i := 0; i < len(s); i++ {
		if !c03Digit(s[i]) {
			return false
		}
	}
	return true
}

// ---------------------------------------------------------------------------
// the implementation's pipelines

// events straight into an encoder: es is what the validator forwarded, the encoder is its next receiver
func c03CteEncode(es []Ev) (text []byte, rej int, msg string) {
	cfg := configuration.New()
	var buf bytes.Buffer
	enc := ce.NewCTEEncoder(cfg)
	enc.PrepareToEncode(&buf)
	rej, msg = playAll(enc, es)
	return buf.Bytes(), rej, msg
}

func c03CbeEncode(es []Ev) (doc []byte, rej int, msg string) {
	cfg := configuration.New()
	var buf bytes.Buffer
	enc := ce.NewCBEEncoder(cfg)
	enc.PrepareToEncode(&buf)
	rej, msg = playAll(enc, es)
	return buf.Bytes(), rej, msg
}

// in-process CBE decode with validator: only for documents the library's encoder wrote
func c03CbeDecodeRules(doc []byte) (evs []Ev, err error) {
	defer func() {
		if r := recover(); r != nil {
			err = fmt.Errorf("panic: %v", r)
		}
	}()
	cfg := configuration.New()
	rec := &Recorder{}
	err = ce.NewCBEDecoder(cfg).DecodeDocument(doc, ce.NewRules(rec, cfg))
	return rec.Evs, err
}

// area/location zones re-initialised from their long name: "C/UTC" (long "Etc/UTC") and UTC are the same zone
func c03NormTimes(es []Ev) []Ev {
	out := append([]Ev{}, es...)
	for i, e := range out {
		if e.K == "tm" && e.T.Timezone.Type == compact_time.TimezoneTypeAreaLocation {
			e.T.Timezone = compact_time.TZAtAreaLocation(e.T.Timezone.LongAreaLocation)
			out[i] = e
		}
	}
	return out
}

// bit arrays as bit sequences: a chunked bit array whose chunks do not end on byte boundaries (or whose last
// byte carries bits beyond the element count) denotes, byte-wise, something else than the same bits delivered
// in one piece; the data is the bit sequence.  Every bit array becomes one whole-array event with the bits
// packed from the low end and the unused bits cleared.
func c03NormBits(es []Ev) []Ev {
	pack := func(bits []bool) []byte {
		out := make([]byte, (len(bits)+7)/8)
		for i, b := range bits {
			if b {
				out[i/8] |= 1 << uint(i%8)
			}
		}
		return out
	}
	take := func(bits []bool, data []byte, n uint64) []bool {
		for i := uint64(0); i < n && i/8 < uint64(len(data)); i++ {
			bits = append(bits, data[i/8]&(1<<uint(i%8)) != 0)
		}
		return bits
	}
	out := []Ev{}
	for i := 0; i < len(es); i++ {
		e := es[i]
		switch {
		case e.K == "a" && e.A == events.ArrayTypeBit:
			bits := take(nil, e.Data, e.N)
			out = append(out, Ev{K: "a", A: events.ArrayTypeBit, N: uint64(len(bits)), Data: pack(bits)})
		case e.K == "ab" && e.A == events.ArrayTypeBit:
			bits := []bool{}
			j := i + 1
			done := false
			for j < len(es) && es[j].K == "ac" && !done {
				n, more := es[j].N, es[j].B
				j++
				data := []byte{}
				for j < len(es) && es[j].K == "ad" {
					data = append(data, es[j].Data...)
					j++
				}
				bits = take(bits, data, n)
				done = !more
			}
			if !done {
				out = append(out, e) // not a complete delivery: leave it alone
				continue
			}
			out = append(out, Ev{K: "a", A: events.ArrayTypeBit, N: uint64(len(bits)), Data: pack(bits)})
			i = j - 1
		default:
			out = append(out, e)
		}
	}
	return out
}

func c03Norm(es []Ev) []Ev { return c03NormBits(c03NormTimes(es)) }

type c03Fwd struct {
	Es1         []Ev
	Text        []byte
	TextOK      bool
	Es2         []Ev
	Reread      bool
	SameRaw     bool // den equality as the model computes it
	Same        bool // ... with equivalent zones identified (the oracle's verdict)
	Back        []byte
	BackOK      bool
	Es3         []Ev
	BackRead    bool
	SameBackRaw bool
	SameBack    bool
	Stage       string // first stage that violates the property, "" = none
	Want        string
	Got         string
}

// c03Forward: the first half of the property on the events an accepted CBE document delivered behind the validator.
func c03Forward(es1 []Ev) *c03Fwd {
	r := &c03Fwd{Es1: es1}
	fail := func(stage, want, got string) {
		if r.Stage == "" {
			r.Stage, r.Want, r.Got = stage, want, got
		}
	}
	want := denString(denFilter(denGo(es1), false, true))
	text, rej, msg := c03CteEncode(es1)
	r.Text = text
	if rej >= 0 {
		fail("cte-encode", want, fmt.Sprintf("the CTE encoder panics at event %d (%s): %s", rej, es1[rej], msg))
		return r
	}
	r.TextOK = true
	es2, err := c02Decode(text, true)
	if err != nil {
		fail("cte-decode", want, "the CTE decoder (with rules) rejects the encoder's text: "+err.Error())
		return r
	}
	r.Reread, r.Es2 = true, es2
	got := denString(denGo(es2))
	r.SameRaw = got == want
	r.Same = r.SameRaw || denString(denGo(c03Norm(es2))) == denString(denFilter(denGo(c03Norm(es1)), false, true))
	if !r.Same {
		fail("data", want, got)
	}
	back, rej, msg := c03CbeEncode(es2)
	r.Back = back
	want2 := denString(denFilter(denGo(es2), true, false))
	if rej >= 0 {
		fail("cbe-encode-back", want2, fmt.Sprintf("the CBE encoder panics at event %d (%s): %s", rej, es2[rej], msg))
		return r
	}
	r.BackOK = true
	es3, err := c03CbeDecodeRules(back)
	if err != nil {
		fail("cbe-decode-back", want2, "the CBE decoder (with rules) rejects the re-encoded document: "+err.Error())
		return r
	}
	r.BackRead, r.Es3 = true, es3
	got3 := denString(denGo(es3))
	r.SameBackRaw = got3 == want2
	r.SameBack = r.SameBackRaw || denString(denGo(c03Norm(es3))) == denString(denFilter(denGo(c03Norm(es2)), true, false))
	if !r.SameBack {
		fail("data-back", want2, got3)
	}
	return r
}

type c03Rev struct {
	Accepted   bool
	Es         []Ev
	CustomText bool
	Doc        []byte
	DocOK      bool
	Es2        []Ev
	Read       bool
	SameRaw    bool // den equality as the model computes it
	Same       bool // ... with bit arrays compared as bit sequences (the oracle's verdict)
	Stage      string
	Want       string
	Got        string
}

// c03RevConstruct names the construct of an accepted text-side stream that the binary side is known not to take over
func c03RevConstruct(es []Ev) string {
	for _, e := range es {
		switch {
		case (e.K == "cb" || e.K == "cbeg") && e.N > 0xffffffff:
			return "custom-type-over-32-bits"
		case e.K == "tm" && e.T.Type != compact_time.TimeTypeTime && (e.T.Year > 2147483647+2000 || e.T.Year < -2147483648+2000):
			return "time-year-beyond-32-bits"
		}
	}
	return c01Construct(es)
}

func c03HasCustomText(es []Ev) bool {
	for _, e := range es {
		if e.K == "ct" || (e.K == "cbeg" && e.A == events.ArrayTypeCustomText) {
			return true
		}
	}
	return false
}

// c03Reverse: the second half of the property on a CTE document.
func c03Reverse(text []byte) *c03Rev {
	r := &c03Rev{}
	es, err := c02Decode(text, true)
	if err != nil {
		return r
	}
	r.Accepted, r.Es = true, es
	r.CustomText = c03HasCustomText(es)
	if r.CustomText {
		return r
	}
	want := denString(denFilter(denGo(es), true, false))
	doc, rej, msg := c03CbeEncode(es)
	r.Doc = doc
	if rej >= 0 {
		r.Stage, r.Want, r.Got = "cbe-encode", want, fmt.Sprintf("the CBE encoder panics at event %d (%s): %s", rej, es[rej], msg)
		return r
	}
	r.DocOK = true
	es2, err := c03CbeDecodeRules(doc)
	if err != nil {
		r.Stage, r.Want, r.Got = "cbe-decode", want, "the CBE decoder (with rules) rejects the converted document: "+err.Error()
		return r
	}
	r.Read, r.Es2 = true, es2
	got := denString(denGo(es2))
	r.SameRaw = got == want
	r.Same = r.SameRaw || denString(denGo(c03Norm(es2))) == denString(denFilter(denGo(c03Norm(es)), true, false))
	if !r.Same {
		r.Stage, r.Want, r.Got = "data", want, got
	}
	return r
}

// ---------------------------------------------------------------------------
// Coq terms

func c03OptBytes(b []byte, ok bool) string {
	if !ok {
		return "None"
	}
	return cSome(cBytes(b))
}

func c03OptEvs(es []Ev, ok bool) string {
	if !ok {
		return "None"
	}
	return cSome(cEvs(es))
}

// times the models can carry: not the zero value, nanoseconds below 10^9 (String() and WriteTime differ above)
func c03TimesModelled(es []Ev) bool {
	for _, e := range es {
		if e.K == "tm" && (e.T.IsZeroValue() || e.T.Nanosecond > 999999999) {
			return false
		}
	}
	return true
}

func c03ZoneTerm(z compact_time.Timezone) string {
	switch z.Type {
	case compact_time.TimezoneTypeUTC:
		return "TzUTC"
	case compact_time.TimezoneTypeLocal:
		return cApp("TzArea", cBytes([]byte("L")))
	case compact_time.TimezoneTypeAreaLocation:
		return cApp("TzArea", cBytes([]byte(z.ShortAreaLocation)))
	case compact_time.TimezoneTypeLatitudeLongitude:
		return cApp("TzLatLong", cZ(int64(z.LatitudeHundredths)), cZ(int64(z.LongitudeHundredths)))
	case compact_time.TimezoneTypeUTCOffset:
		return cApp("TzOffset", cZ(int64(z.MinutesOffsetFromUTC)))
	}
	panic("zone type")
}

func c03TimeTerm(t compact_time.Time) string {
	ty := map[compact_time.TimeType]string{compact_time.TimeTypeDate: "TDate", compact_time.TimeTypeTime: "TTime", compact_time.TimeTypeTimestamp: "TTimestamp"}[t.Type]
	return fmt.Sprintf("{| t_type := %s; t_year := %s; t_month := %d; t_day := %d; t_hour := %d; t_minute := %d; t_second := %d; t_nano := %d; t_zone := %s |}",
		ty, cZ(int64(t.Year)), t.Month, t.Day, t.Hour, t.Minute, t.Second, t.Nanosecond, c03ZoneTerm(t.Timezone))
}

type c03Corr struct {
	c     *Ctx
	cf    *caseFile
	quota map[string]int // cases still allowed per family
}

func (k *c03Corr) room(family string) bool { return k.quota[family] > 0 }
func (k *c03Corr) add(family, term, human string) {
	k.quota[family]--
	k.cf.Add(term, human)
}

// a CBE document and every stage (documents without times: Model/Cbe.v stops at the time type codes)
func (k *c03Corr) addCbe(doc []byte, accepted bool, f *c03Fwd, what string) {
	if !k.room("cbe") || len(doc) > 400 {
		return
	}
	if !accepted {
		k.add("cbe", rleTerm(cApp("CvCbe", cBytes(doc), "false", "None", "None", "false", "None", "false")), fmt.Sprintf("%s doc=%x not accepted", what, doc))
		k.c.Dist("corr/cbe/" + what + "/not-accepted")
		return
	}
	if hasTime(f.Es1) || !inCbeModel(f.Es2) {
		k.addEvents(f, what)
		return
	}
	k.add("cbe", rleTerm(cApp("CvCbe", cBytes(doc), "true", c03OptBytes(f.Text, f.TextOK), c03OptEvs(f.Es2, f.Reread), cBool(f.SameRaw),
		c03OptBytes(f.Back, f.BackOK), cBool(f.SameBackRaw))),
		fmt.Sprintf("%s doc=%x text=%q stage=%s", what, doc, f.Text, f.Stage))
	k.c.Dist(fmt.Sprintf("corr/cbe/%s/accepted/stage=%s", what, f.Stage))
}

// the text side only, on the forwarded events (times allowed)
func (k *c03Corr) addEvents(f *c03Fwd, what string) {
	if !k.room("cbe") || !c03TimesModelled(f.Es1) {
		return
	}
	k.add("cbe", rleTerm(cApp("CvEvents", cEvs(f.Es1), c03OptBytes(f.Text, f.TextOK), c03OptEvs(f.Es2, f.Reread), cBool(f.SameRaw))),
		fmt.Sprintf("%s events=%s text=%q stage=%s", what, evsString(f.Es1), f.Text, f.Stage))
	k.c.Dist(fmt.Sprintf("corr/events/%s/stage=%s", what, f.Stage))
}

func (k *c03Corr) addCte(text []byte, r *c03Rev, what string) {
	if !k.room("cte") || len(text) > 500 {
		return
	}
	if r.Accepted && !r.CustomText && !inCbeModel(r.Es) {
		return
	}
	k.add("cte", rleTerm(cApp("CvCte", cBytes(text), cBool(r.Accepted), cBool(r.CustomText), c03OptBytes(r.Doc, r.DocOK), cBool(r.SameRaw))),
		fmt.Sprintf("%s text=%q accepted=%v custom-text=%v stage=%s", what, text, r.Accepted, r.CustomText, r.Stage))
	k.c.Dist(fmt.Sprintf("corr/cte/%s/accepted=%v", what, r.Accepted))
}

// a time value as compact_time builds it from the CBE fields: String(), whether cbe.Decoder accepted the document
// holding it (validateTime), and what the text side reads from the CTE encoder's spelling of the value
func (k *c03Corr) addTime(t compact_time.Time, cbeAccepts bool) {
	if t.IsZeroValue() || t.Nanosecond > 999999999 {
		k.c.Dist(fmt.Sprintf("corr/time/outside-model/cbe-accepts=%v", cbeAccepts))
		return
	}
	es := []Ev{{K: "bd"}, {K: "v", N: 0}, {K: "tm", T: t}, {K: "ed"}}
	text, rej, _ := c03CteEncode(es)
	reread := "None"
	note := "rejected"
	if rej < 0 {
		if out, err := c02Decode(text, true); err == nil && len(out) == 4 && out[2].K == "tm" {
			reread = cSome(cBytes([]byte(out[2].T.String())))
			note = out[2].T.String()
		}
	}
	k.c.Dist(fmt.Sprintf("corr/time/problem=%s/cbe-accepts=%v/reread=%v", c03TimeProblem(t), cbeAccepts, reread != "None"))
	if (c03TimeProblem(t) == "") != cbeAccepts {
		k.c.Fail(Replay{Kind: "tie", Key: "C03/harness-tie/time-problem", Input: map[string]string{"time": t.String()},
			Expect: fmt.Sprint(c03TimeProblem(t) == ""), Got: fmt.Sprint(cbeAccepts)})
	}
	if !k.room("time") {
		return
	}
	k.add("time", cApp("CvTime", c03TimeTerm(t), cBytes([]byte(t.String())), cBool(cbeAccepts), reread),
		fmt.Sprintf("time %s cbe-accepts=%v text=%q reread=%s", t.String(), cbeAccepts, text, note))
}

func (k *c03Corr) addIdent(id []byte) {
	rulesOK, _, _ := runRules(defaultRulesCfg(), []Ev{{K: "bd"}, {K: "v", N: 0}, {K: "mk", Data: id}, {K: "null"}, {K: "ed"}})
	out, err := c02Decode(append(append([]byte("c0\n&"), id...), []byte(":null")...), false)
	lexed := err == nil && len(out) == 5 && out[2].K == "mk" && bytes.Equal(out[2].Data, id) && out[3].K == "null"
	k.c.Dist(fmt.Sprintf("corr/ident/rules=%v/lexed=%v", rulesOK < 0, lexed))
	if rulesOK < 0 && !lexed {
		k.c.Fail(Replay{Kind: "ident", Key: "C03/identifier/valid-but-not-lexable", Input: map[string]string{"id_hex": hex.EncodeToString(id)},
			Expect: "an identifier the validator admits can be spelled in CTE", Got: fmt.Sprintf("&%s:null is not read back as that marker", id)})
	}
	if !k.room("ident") {
		return
	}
	k.add("ident", cApp("CvIdent", cBytes(id), cBool(rulesOK < 0), cBool(lexed)), fmt.Sprintf("identifier %q rules=%v lexed=%v", id, rulesOK < 0, lexed))
}

func (k *c03Corr) addMedia(mt string) {
	rulesOK, _, _ := runRules(defaultRulesCfg(), []Ev{{K: "bd"}, {K: "v", N: 0}, {K: "media", S: mt, Data: []byte{1}}, {K: "ed"}})
	out, err := c02Decode([]byte("c0\n@"+mt+"[01]"), false)
	lexed := err == nil && len(out) == 4 && out[2].K == "media" && out[2].S == mt && bytes.Equal(out[2].Data, []byte{1})
	k.c.Dist(fmt.Sprintf("corr/media/rules=%v/lexed=%v", rulesOK < 0, lexed))
	if rulesOK < 0 && !lexed {
		k.c.Fail(Replay{Kind: "media", Key: "C03/cbe-cte/" + c03Construct([]Ev{{K: "media", S: mt}}), Input: map[string]string{"mt_hex": hex.EncodeToString([]byte(mt))},
			Expect: "a media type the validator admits can be spelled in CTE", Got: fmt.Sprintf("@%s[01] is not read back as that media", mt)})
	}
	if c03MediaLexable(mt) != lexed {
		k.c.Fail(Replay{Kind: "tie", Key: "C03/harness-tie/media-lexable", Input: map[string]string{"mt_hex": hex.EncodeToString([]byte(mt))},
			Expect: fmt.Sprint(c03MediaLexable(mt)), Got: fmt.Sprint(lexed)})
	}
	if !k.room("media") {
		return
	}
	k.add("media", cApp("CvMedia", cBytes([]byte(mt)), cBool(rulesOK < 0), cBool(lexed)), fmt.Sprintf("media type %q rules=%v lexed=%v", mt, rulesOK < 0, lexed))
}

// ---------------------------------------------------------------------------
// inputs

var c03MediaTypes = []string{"a/b", "text/plain", "application/x-www-form-urlencoded", "x{}/y", "A-Z.9!#$%&'*+^_`|~/x9", "u8x/y", "i8/i8", "Z/-",
	"i8", "u16x", "uid", "b", "f32x", "i64b", "U8", "f16", "u64o",
	"a", "", "1/2", "7", "a/", "/b", "a b/c", "text/plain; charset=utf-8", "é/x", "a/é", "a/b/c", "a\"/b", "a/b[", "a/b\n", "a/b c", "a(b)/c", "a,b/c", "a:b/c", "a/b=c", "a@b/c", "[", "a/b]"}

var c03AreaNames = []string{"Europe/Berlin", "E/Berlin", "America/Argentina/Buenos_Aires", "M/New_York", "Q", "Q/x", "F/", "Z/x", "L/x", "A+b-c_d.e/F9", "Etc/GMT-14", "C/GMT-14",
	"C/UTC", "C/GMT", "Local", "L", "Z", "UTC", "Etc/GMT+0", "Zero", "Factory",
	"x", "europe/berlin", "1abc", "A b", "A\"b", "Ä", "/", "A/é", "A\nB", "a", "A]", "A,B", "A:B", "A=B", "_A", "-1", "+1", ".A",
	"F/" + strings.Repeat("x", 125), "Q/" + strings.Repeat("x", 125), "N/" + strings.Repeat("y", 118), "E/" + strings.Repeat("z", 122)}

// time values with fields up to the widths of the CBE bit fields
func c03Times(r *rand.Rand, n int) []compact_time.Time {
	zone := func() compact_time.Timezone {
		switch r.Intn(6) {
		case 0:
			return compact_time.TZAtUTC()
		case 1, 2:
			return compact_time.TZAtAreaLocation(c03AreaNames[r.Intn(len(c03AreaNames))])
		case 3:
			if r.Intn(2) == 0 {
				return compact_time.TZAtLatLong(r.Intn(18001)-9000, r.Intn(36001)-18000)
			}
			return compact_time.TZAtLatLong(r.Intn(32768)-16384, r.Intn(65536)-32768)
		case 4:
			if r.Intn(2) == 0 {
				return compact_time.TZWithMiutesOffsetFromUTC(r.Intn(2879) - 1439)
			}
			return compact_time.TZWithMiutesOffsetFromUTC(r.Intn(4096) - 2048)
		}
		return compact_time.TZLocal()
	}
	field := func(valid, width int) int {
		if r.Intn(4) == 0 {
			return r.Intn(width)
		}
		return r.Intn(valid)
	}
	year := func() int {
		switch r.Intn(6) {
		case 0:
			return 0
		case 1:
			return r.Intn(2000000) - 1000000
		case 2:
			return -r.Intn(3000) - 1
		}
		return 1 + r.Intn(3000)
	}
	nano := func() int {
		switch r.Intn(6) {
		case 0:
			return r.Intn(1000) * 1000000
		case 1:
			return r.Intn(1000000) * 1000
		case 2:
			return r.Intn(1000000000)
		case 3:
			return 999999999
		}
		return 0
	}
	out := []compact_time.Time{}
	for i := 0; i < n; i++ {
		switch r.Intn(3) {
		case 0:
			out = append(out, compact_time.NewDate(year(), field(13, 16), field(29, 32)))
		case 1:
			out = append(out, compact_time.NewTime(field(24, 32), field(60, 64), field(61, 64), nano(), zone()))
		default:
			out = append(out, compact_time.NewTimestamp(year(), 1+field(12, 15), 1+field(28, 31), field(24, 32), field(60, 64), field(61, 64), nano(), zone()))
		}
	}
	return out
}

// every boundary of the hour / minute / second / month / day / zone ranges, one field off at a time
func c03DirectedTimes() []compact_time.Time {
	utc := compact_time.TZAtUTC()
	out := []compact_time.Time{}
	out = append(out, compact_time.ZeroDate(), compact_time.ZeroTime(), compact_time.ZeroTimestamp())
	for _, h := range []int{0, 23, 24, 31} {
		out = append(out, compact_time.NewTime(h, 0, 0, 0, utc))
	}
	for _, m := range []int{59, 60, 63} {
		out = append(out, compact_time.NewTime(1, m, 0, 0, utc))
	}
	for _, s := range []int{59, 60, 61, 63} {
		out = append(out, compact_time.NewTime(1, 2, s, 0, utc))
	}
	for _, ns := range []int{1, 999999999, 500000000, 1000000, 1000, 123456789, 1073741823} {
		out = append(out, compact_time.NewTime(1, 2, 3, ns, utc))
	}
	for mo := 0; mo <= 15; mo++ {
		for _, d := range []int{0, 1, 28, 29, 30, 31} {
			out = append(out, compact_time.NewDate(2020, mo, d))
		}
	}
	for _, y := range []int{0, 1, -1, 2000, 1999, -2000, 99999, 2147483647, -2147483648 + 2000} {
		out = append(out, compact_time.NewDate(y, 1, 1), compact_time.NewTimestamp(y, 12, 31, 23, 59, 60, 0, utc))
	}
	for _, ll := range [][2]int{{0, 0}, {9000, 18000}, {-9000, -18000}, {9001, 0}, {0, 18001}, {-9001, 0}, {0, -18001}, {16383, 32767}, {-16384, -32768}, {-5, 5}, {-99, 99}, {100, -100}} {
		out = append(out, compact_time.NewTime(1, 2, 3, 0, compact_time.TZAtLatLong(ll[0], ll[1])))
	}
	for _, off := range []int{1, -1, 59, 60, 1439, -1439, 1440, -1440, 2047, -2048} {
		out = append(out, compact_time.NewTime(1, 2, 3, 0, compact_time.TZWithMiutesOffsetFromUTC(off)))
	}
	for _, a := range c03AreaNames {
		out = append(out, compact_time.NewTime(1, 2, 3, 0, compact_time.TZAtAreaLocation(a)), compact_time.NewTimestamp(2020, 2, 29, 1, 2, 3, 5000, compact_time.TZAtAreaLocation(a)))
	}
	return out
}

// an identifier-safe code point that is not the last one of the ASCII block, from the class boundaries
func c03IdentRunes() []rune {
	out := []rune{}
	for _, r := range c02BoundaryRunes() {
		if verifhooks.IsRuneValidIdentifier(r) {
			out = append(out, r)
		}
	}
	return out
}

// c03Adversarial swaps the strings the binary side does not examine for ones from the adversarial sets and
// pushes time fields out of their ranges; identifiers are renamed consistently.
func c03Adversarial(r *rand.Rand, es []Ev, idRunes []rune) []Ev {
	out := append([]Ev{}, es...)
	rename := map[string][]byte{}
	for i, e := range out {
		switch e.K {
		case "mb", "media":
			if r.Intn(2) == 0 {
				e.S = c03MediaTypes[r.Intn(len(c03MediaTypes))]
			}
		case "tm":
			if r.Intn(2) == 0 {
				e.T = c03Times(r, 1)[0]
			}
		case "mk", "ref", "rt", "rec":
			k := string(e.Data)
			if _, ok := rename[k]; !ok {
				rename[k] = e.Data
				if r.Intn(3) == 0 {
					rename[k] = append(append([]byte{}, e.Data...), []byte(string(idRunes[r.Intn(len(idRunes))]))...)
				}
			}
			e.Data = rename[k]
		}
		out[i] = e
	}
	return out
}

// byte-level damage to a CBE document, biased towards the bytes that matter here
func c03MutateBytes(r *rand.Rand, doc []byte) []byte {
	out := append([]byte{}, doc...)
	interesting := []byte{0x7a, 0x7b, 0x7c, 0x7f, 0xf3, 0x00, 0x01, 0x02, 0x80, 0xff, '/', 'A', 'a', 0x7d, 0x7e, 0x96, 0x97, 0x99, 0x9a, 0x9b, 0x81, 0x91, 0x92, 0x93, 0x94, 0x95}
	n := 1 + r.Intn(2)
	for i := 0; i < n && len(out) > 2; i++ {
		p := 2 + r.Intn(len(out)-2)
		switch r.Intn(6) {
		case 0:
			out[p] ^= 1 << uint(r.Intn(8))
		case 1:
			out[p] = interesting[r.Intn(len(interesting))]
		case 2:
			out[p] = byte(r.Intn(256))
		case 3:
			out = append(out[:p], out[p+1:]...)
		case 4:
			out = append(out[:p], append([]byte{interesting[r.Intn(len(interesting))]}, out[p:]...)...)
		default:
			out[p]++
		}
	}
	return out
}

// the first witnesses of the defect classes repaired by 40e3af2 (cbe validateTime) and afaa1e5 (rules ValidateMediaType / ValidateCustomType)
var c03RepairedCBE = []struct{ key, docHex string }{
	{"C03/cbe-cte/media-type-not-spellable", "81007ff300040102"},
	{"C03/cbe-cte/media-type-not-spellable", "81007ff30161040102"},
	{"C03/cbe-cte/media-type-is-an-array-type-name", "81007ff3026938040102"},
	{"C03/cbe-cte/media-type-is-a-custom-type-number", "81007ff30137040102"},
	{"C03/cbe-cte/area-location-not-spellable", "81007b1984f00278"},
	{"C03/cbe-cte/area-location-expands-over-127-bytes", "81007b1984f0f04e2f" + strings.Repeat("79", 118)},
	{"C03/cbe-cte/time-hour-out-of-range", "81007b0000fc"},
	{"C03/cbe-cte/time-minute-out-of-range", "81007b00f8f0"},
	{"C03/cbe-cte/time-second-out-of-range", "81007be885f0"},
	{"C03/cbe-cte/time-month-out-of-range", "81007a005000"},
	{"C03/cbe-cte/time-day-out-of-range", "81007a205000"},
	{"C03/cbe-cte/time-year-zero", "81007a213e1f"},
	{"C03/cbe-cte/time-utc-offset-out-of-range", "81007b1984f000a005"},
	{"C03/cbe-cte/time-latitude-longitude-out-of-range", "81007b1984f053460000"},
	{"C03/cbe-cte/time-nanosecond-out-of-range", "81007bfeffffff0721fc"},
}
var c03RepairedCTE = []struct{ key, text string }{
	{"C03/cte-cbe/custom-type-over-32-bits", "c0 @4294967296[01]"},
	{"C03/cte-cbe/custom-type-over-32-bits", "c0 @18446744073709551615[]"},
	{"C03/cte-cbe/custom-type-over-32-bits", "c0 @4294967296\"x\""},
}

func (x *c03Runner) regressions() {
	docs := [][]byte{}
	for _, w := range c03RepairedCBE {
		d, err := hex.DecodeString(w.docHex)
		if err != nil {
			panic(err)
		}
		docs = append(docs, d)
	}
	for i, r := range DecodeInChild(docs, ChildDecodeOpts{Rules: true}) {
		w := c03RepairedCBE[i]
		x.c.Count("repaired|"+w.docHex, true)
		switch {
		case r.Killed:
			x.c.Dist("repaired/" + w.key + "/decoder-process-died")
		case r.Err:
			x.c.Dist("repaired/" + w.key + "/refused-by-the-binary-side")
		default:
			f := c03Forward(r.Evs)
			x.c.Dist(fmt.Sprintf("repaired/%s/accepted/stage=%s", w.key, f.Stage))
			if f.Stage != "" {
				x.c.Fail(Replay{Kind: "from-cbe", Key: w.key, Input: map[string]string{"doc_hex": w.docHex, "text": string(f.Text), "stage": f.Stage},
					Expect: f.Want, Got: f.Got})
			}
		}
	}
	for _, w := range c03RepairedCTE {
		r := c03Reverse([]byte(w.text))
		x.c.Count("repaired|"+w.text, true)
		switch {
		case !r.Accepted:
			x.c.Dist("repaired/" + w.key + "/refused-by-the-text-side")
		case r.CustomText:
			x.c.Dist("repaired/" + w.key + "/custom-text-excluded")
		default:
			x.c.Dist(fmt.Sprintf("repaired/%s/accepted/stage=%s", w.key, r.Stage))
			if r.Stage != "" {
				x.c.Fail(Replay{Kind: "from-cte", Key: w.key, Input: map[string]string{"text_hex": hex.EncodeToString([]byte(w.text)), "text": w.text, "stage": r.Stage},
					Expect: r.Want, Got: r.Got})
			}
		}
	}
}

func c03DocOf(body ...Ev) []Ev {
	return append(append([]Ev{{K: "bd"}, {K: "v", N: 0}}, body...), Ev{K: "ed"})
}

// ---------------------------------------------------------------------------

type c03Runner struct {
	c *Ctx
	k *c03Corr
}

// c03Key: the failure class of a forward run
func c03FwdKey(f *c03Fwd) string {
	construct := c03Construct(f.Es1)
	switch f.Stage {
	case "cte-encode", "cte-decode", "data":
		if construct != "" {
			return "C03/cbe-cte/" + construct
		}
		if f.Stage == "data" {
			return "C03/cbe-cte/other/data/" + c01FirstDiff(f.Want, f.Got)
		}
		return "C03/cbe-cte/other/" + f.Stage
	default: // the way back
		construct = c03RevConstruct(f.Es2)
		if construct != "" {
			return "C03/cbe-cte-cbe/" + construct
		}
		if f.Stage == "data-back" {
			return "C03/cbe-cte-cbe/other/data/" + c01FirstDiff(f.Want, f.Got)
		}
		return "C03/cbe-cte-cbe/other/" + f.Stage
	}
}

// check the first half on a batch of CBE documents
func (x *c03Runner) fromCBE(docs [][]byte, class string, corrEvery int) (accepted [][]byte) {
	res := DecodeInChild(docs, ChildDecodeOpts{Rules: true})
	for i, r := range res {
		doc := docs[i]
		if r.Killed {
			x.c.Dist("oracle/cbe/" + class + "/decoder-process-died")
			continue
		}
		if r.Err {
			x.c.Count("cbe|"+string(doc), false)
			x.c.Dist("oracle/cbe/" + class + "/not-accepted")
			if corrEvery > 0 && i%(corrEvery*3) == 0 && !hasTime(r.Evs) {
				x.k.addCbe(doc, false, nil, class)
			}
			continue
		}
		accepted = append(accepted, doc)
		f := c03Forward(r.Evs)
		x.c.Count("cbe|"+string(doc), len(r.Evs) > 4)
		construct := c03Construct(r.Evs)
		x.c.Dist(fmt.Sprintf("oracle/cbe/%s/construct=%s/stage=%s", class, construct, f.Stage))
		if len(x.c.Rep.Samples) < 3 && len(r.Evs) > 6 {
			x.c.Sample(map[string]string{"cbe_hex": hex.EncodeToString(doc), "events": evsString(r.Evs), "text": string(f.Text), "stage": f.Stage})
		}
		if f.Stage != "" {
			x.c.Fail(Replay{Kind: "from-cbe", Key: c03FwdKey(f),
				Input:  map[string]string{"doc_hex": hex.EncodeToString(doc), "text": string(f.Text), "stage": f.Stage},
				Expect: f.Want, Got: f.Got})
		}
		if corrEvery > 0 && i%corrEvery == 0 {
			x.k.addCbe(doc, true, f, class)
		}
	}
	return accepted
}

func (x *c03Runner) fromCTE(text []byte, class string, corr bool) bool {
	r := c03Reverse(text)
	if !r.Accepted {
		x.c.Count("cte|"+string(text), false)
		x.c.Dist("oracle/cte/" + class + "/not-accepted")
		if corr {
			x.k.addCte(text, r, class)
		}
		return false
	}
	x.c.Count("cte|"+string(text), len(r.Es) > 4)
	if r.CustomText {
		x.c.Dist("oracle/cte/" + class + "/custom-text-excluded")
		if corr {
			x.k.addCte(text, r, class)
		}
		return true
	}
	construct := c03RevConstruct(r.Es)
	x.c.Dist(fmt.Sprintf("oracle/cte/%s/construct=%s/stage=%s", class, construct, r.Stage))
	if len(x.c.Rep.Samples) < 6 && len(r.Es) > 6 {
		x.c.Sample(map[string]string{"cte": string(text), "events": evsString(r.Es), "cbe_hex": hex.EncodeToString(r.Doc), "stage": r.Stage})
	}
	if r.Stage != "" {
		key := "C03/cte-cbe/" + construct
		if construct == "" {
			key = "C03/cte-cbe/other/" + r.Stage
			if r.Stage == "data" {
				key += "/" + c01FirstDiff(r.Want, r.Got)
			}
		}
		x.c.Fail(Replay{Kind: "from-cte", Key: key, Input: map[string]string{"text_hex": hex.EncodeToString(text), "text": string(text), "stage": r.Stage},
			Expect: r.Want, Got: r.Got})
	}
	if corr {
		x.k.addCte(text, r, class)
	}
	return true
}

// events -> validator -> CBE encoder; nil when the stream is not accepted
func c03EncodeValid(es []Ev) []byte {
	cfg := configuration.New()
	var buf bytes.Buffer
	enc := ce.NewCBEEncoder(cfg)
	enc.PrepareToEncode(&buf)
	if rej, _ := playAll(ce.NewRules(enc, cfg), es); rej >= 0 {
		return nil
	}
	return buf.Bytes()
}

func runC03(c *Ctx) {
	c.Rep.Rule = "first half: CBE documents written by the library's encoder from rules-valid streams of the tree generator (every option on except custom text), the same streams with media types / area-location names / time fields / identifiers swapped for adversarial ones (media types without a slash, named like array types, with characters outside the token; zone names not starting with a capital, with other characters, expanding beyond 127 bytes, aliases of UTC; time fields up to the widths of the CBE bit fields; identifiers over every class-boundary code point), one-value documents for every adversarial string and every field boundary, and byte mutations of accepted documents (decoded in a child process); second half: CTE text written by the library's encoder for generated streams (comments included), grammar-driven documents using every spelling of CTELexer.g4 / CTEParser.g4, and byte mutations of both; non-trivial = accepted by decoder+rules with more than 4 events; distinct by document"
	k := &c03Corr{c: c, cf: c.Cases("convert", "CE.Model.Convert", "convert_case", "convert_case_ok"),
		quota: map[string]int{"ident": c.Pick(260, 3000), "media": c.Pick(150, 700), "time": c.Pick(230, 3000), "cbe": c.Pick(560, 7000), "cte": c.Pick(420, 6000)}}
	k.cf.perFile = 125
	x := &c03Runner{c: c, k: k}
	idRunes := c03IdentRunes()

	// ---- 0. the witnesses of the repaired defects, under their old keys: the binary side (the validator, for the
	// custom type) has to refuse them now; should one be accepted and fail to convert it is reported under its old key
	x.regressions()

	// ---- 1. the string classes on their own: identifiers, media types
	cl := c02GetClasses()
	ids := [][]byte{[]byte("a"), []byte("a b"), []byte("a:b"), []byte(""), []byte("\xff"), []byte("a\xc3"), []byte("1"), []byte("-"), []byte("."), []byte("_"), []byte("a/b"), []byte("‍"), []byte("a�"),
		[]byte("i8"), []byte("uid"), []byte("null"), []byte("true"), []byte("0x10"), []byte("1e5"), []byte("a{"), []byte("a<"), []byte("a\"")}
	brunes := c02BoundaryRunes()
	stepI := c.Pick(6, 1)
	for i := 0; i < len(brunes); i += stepI {
		r := brunes[i]
		ids = append(ids, []byte(string(r)))
		if i%(stepI*4) == 0 {
			ids = append(ids, []byte("x"+string(r)+"y"))
		}
		if verifhooks.IsRuneValidIdentifier(r) != c02InClass(cl.ident, r) {
			c.Dist(fmt.Sprintf("ident-class/validator=%v/lexer=%v", verifhooks.IsRuneValidIdentifier(r), c02InClass(cl.ident, r)))
		}
	}
	for _, id := range ids {
		k.addIdent(id)
		c.Count("ident|"+string(id), utf8.Valid(id) && len(id) > 0)
	}
	// every code point: the validator's class against the lexer's (the proof does this on the generated tables)
	diff := 0
	for r := rune(0); r <= 0x10ffff; r++ {
		if r >= 0xd800 && r <= 0xdfff {
			continue
		}
		if verifhooks.IsRuneValidIdentifier(r) && !c02InClass(cl.ident, r) {
			diff++
			if diff <= 3 {
				c.Fail(Replay{Kind: "ident", Key: "C03/identifier/valid-but-not-lexable", Input: map[string]string{"id_hex": hex.EncodeToString([]byte(string(r)))},
					Expect: "CHAR_IDENTIFIER contains every identifier-safe code point", Got: fmt.Sprintf("U+%04X is identifier-safe and not in CHAR_IDENTIFIER", r)})
			}
		}
	}
	c.Rep.Extra["identifier_safe_code_points_outside_lexer_class"] = diff
	for _, mt := range c03MediaTypes {
		k.addMedia(mt)
		c.Count("media|"+mt, true)
	}
	for b := 0; b < 256; b += c.Pick(3, 1) {
		k.addMedia("a" + string([]byte{byte(b)}) + "/b")
		k.addMedia(string([]byte{byte(b)}) + "/b" + string([]byte{byte(b)}))
	}

	// ---- 2. times as compact_time builds them from the CBE fields (through the real CBE encoder and decoder)
	times := append(c03DirectedTimes(), c03Times(c.Rng, c.Pick(150, 3000))...)
	tdocs := [][]byte{}
	tvals := []compact_time.Time{}
	for _, t := range times {
		if t.IsZeroValue() {
			continue
		}
		if d, rej, _ := c03CbeEncode(c03DocOf(Ev{K: "tm", T: t})); rej < 0 {
			tdocs = append(tdocs, d)
			tvals = append(tvals, t)
		}
	}
	tres := DecodeInChild(tdocs, ChildDecodeOpts{Rules: true})
	for i, r := range tres {
		if r.Killed {
			c.Dist("times/decoder-process-died")
			continue
		}
		accepted := !r.Err
		if accepted && (len(r.Evs) != 4 || r.Evs[2].K != "tm" || r.Evs[2].T.String() != tvals[i].String()) {
			// the fields were chosen inside the widths of the bit fields: what is decoded is what was encoded
			c.Fail(Replay{Kind: "tie", Key: "C03/harness-tie/time-encoding", Input: map[string]string{"doc_hex": hex.EncodeToString(tdocs[i])},
				Expect: tvals[i].String(), Got: evsString(r.Evs)})
			continue
		}
		c.Dist(fmt.Sprintf("times/cbe-accepts=%v", accepted))
		if i%c.Pick(2, 1) == 0 || i < 260 {
			k.addTime(tvals[i], accepted)
		}
	}
	// the three zero values as the CBE reader recognises them (the library's encoder writes them the same way)
	tdocs = append(tdocs, cbeDoc(0x7a, 0, 0, 0), cbeDoc(0x7b, 0, 0, 0), cbeDoc(0x7c, 0, 0, 0, 0, 0))
	x.fromCBE(tdocs, "one-time", 0)

	// ---- 3. one-value documents for the adversarial media types
	mdocs := [][]byte{}
	for _, mt := range c03MediaTypes {
		if !utf8.ValidString(mt) {
			continue
		}
		for _, es := range [][]Ev{c03DocOf(Ev{K: "media", S: mt, Data: []byte{1, 2}}),
			c03DocOf(Ev{K: "l"}, Ev{K: "mb", S: mt}, Ev{K: "ac", N: 1, B: true}, Ev{K: "ad", Data: []byte{0xab}}, Ev{K: "ac", N: 0, B: false}, Ev{K: "pi", N: 7}, Ev{K: "e"})} {
			// straight into the encoder: the verdict on the media type is the decoding side's
			if d, rej, _ := c03CbeEncode(es); rej < 0 {
				mdocs = append(mdocs, d)
			}
		}
	}
	x.fromCBE(mdocs, "one-media", 1)

	// ---- 3a. the witness of the open finding the model refutes the property with (Props/C03.v C03_refuted_nan_payload)
	x.fromCBE([][]byte{cbeDoc(0x7f, 0x91, 1, 0, 0xc0, 0x7f)}, "open-finding-witness", 1)

	// ---- 3b. identifiers over the class-boundary code points, in all four positions
	idocs := [][]byte{}
	stepR := c.Pick(3, 1)
	for i := 0; i < len(idRunes); i += 10 * stepR {
		es := []Ev{{K: "bd"}, {K: "v", N: 0}}
		body := []Ev{{K: "l"}}
		for j := i; j < i+10*stepR && j < len(idRunes); j += stepR {
			r := string(idRunes[j])
			es = append(es, Ev{K: "rt", Data: []byte(r + "r")}, Ev{K: "e"})
			body = append(body, Ev{K: "rec", Data: []byte(r + "r")}, Ev{K: "e"}, Ev{K: "mk", Data: []byte("m" + r)}, Ev{K: "null"}, Ev{K: "ref", Data: []byte("m" + r)})
		}
		es = append(append(es, body...), Ev{K: "e"}, Ev{K: "ed"})
		if d := c03EncodeValid(es); d != nil {
			idocs = append(idocs, d)
		} else {
			c.Dist("one-ident/not-rules-valid")
		}
	}
	x.fromCBE(idocs, "identifiers", c.Pick(4, 4))

	// ---- 3c. strings, resource ids and remote references over every class-boundary code point (the characters
	// the text side has to escape), whole and chunked
	sdocs := [][]byte{}
	stepS := c.Pick(60, 10)
	for i := 0; i < len(brunes); i += stepS {
		j := i + stepS
		if j > len(brunes) {
			j = len(brunes)
		}
		chunk := string(brunes[i:j])
		h := len(chunk) / 2
		for h > 0 && !utf8.RuneStart(chunk[h]) {
			h--
		}
		es := c03DocOf(Ev{K: "l"}, Ev{K: "a", A: events.ArrayTypeString, N: uint64(len(chunk)), Data: []byte(chunk)},
			Ev{K: "sa", A: events.ArrayTypeResourceID, Data: []byte("x:" + chunk)}, Ev{K: "sa", A: events.ArrayTypeReferenceRemote, Data: []byte("y:" + chunk)},
			Ev{K: "ab", A: events.ArrayTypeString}, Ev{K: "ac", N: uint64(h), B: true}, Ev{K: "ad", Data: []byte(chunk[:h])},
			Ev{K: "ac", N: uint64(len(chunk) - h), B: false}, Ev{K: "ad", Data: []byte(chunk[h:])}, Ev{K: "e"})
		if d := c03EncodeValid(es); d != nil {
			sdocs = append(sdocs, d)
		} else {
			c.Dist("codepoints/not-rules-valid")
		}
	}
	x.fromCBE(sdocs, "codepoints", c.Pick(6, 6))

	// ---- 4. generated documents, plain and adversarial
	opts := DefaultGenOpts()
	opts.CustomText = false
	g := NewEvGen(c.Rng, opts)
	gdocs := [][]byte{}
	adocs := [][]byte{}
	texts := [][]byte{}
	n := c.Pick(220, 6000)
	for i := 0; i < n; i++ {
		es := g.Document()
		if d := c03EncodeValid(es); d != nil {
			gdocs = append(gdocs, d)
		}
		adv := c03Adversarial(c.Rng, es, idRunes)
		if a := c03EncodeValid(adv); a != nil {
			adocs = append(adocs, a)
		} else if a, rej, _ := c03CbeEncode(adv); rej < 0 {
			// the validator refuses the swapped strings: the document is written without it and the decoding side has to refuse it too
			adocs = append(adocs, a)
		}
		// the text side's own documents for the second half (comments survive here)
		if t, rej, _ := c02Encode(c02RepresentableComments(es)); rej < 0 {
			texts = append(texts, t)
		}
	}
	acc := x.fromCBE(gdocs, "generated", c.Pick(3, 4))
	acc = append(acc, x.fromCBE(adocs, "generated-adversarial", c.Pick(3, 4))...)

	// ---- 5. byte mutations of accepted documents
	muts := [][]byte{}
	for i := 0; i < c.Pick(500, 15000) && len(acc) > 0; i++ {
		base := acc[c.Rng.Intn(len(acc))]
		if len(base) > 600 {
			continue
		}
		muts = append(muts, c03MutateBytes(c.Rng, base))
	}
	x.fromCBE(muts, "mutated", c.Pick(2, 3))

	// ---- 6. second half: CTE documents
	for _, t := range []string{"c0 2147485647-01-01", "c0 2147485648-01-01", "c0 -2147481648-01-01", "c0 -2147481649-01-01", "c0 99999999999-01-01/01:02:03",
		"c0 @4294967295[01]", "c0 @4294967296[01]", "c0 @18446744073709551615[]", "c0 @a/b[01 02]", "c0 @a/b\"text\"", "c0 @x{}/y[]",
		"c0 01:02:03/Europe/Berlin", "c0 01:02:03/E/Berlin", "c0 01:02:03/Etc/UTC", "c0 01:02:03/Q/" + strings.Repeat("x", 125), "c0 2020-02-29/23:59:60.999999999/-90/180.00",
		"c0 1.5", "c0 0x1.8p1", "c0 0x1.0000000000000000001p0", "c0 [&a:1 $a]", "c0 @rt<1 2> @rt{1 2}", "c0 \"a\\[0]b\"", "c0 @\"http://x\"", "c0 $\"r\"",
		"c0 /* c */ [1 // d\n 2]", "c0 @u8[1 2 3]", "c0 @f16[1.5 nan]", "c0 @b[1011]", "c0 @uid[01234567-89ab-cdef-0123-456789abcdef]", "c0 {1=2 \"a\"=(1 2) 3=@(1 2 3)}",
		"c0 1e400", "c0 -0", "c0 -0.0", "c0 0x1p-1100", "c0 100000000000000000000000000", "c0 nan", "c0 snan", "c0 -inf"} {
		x.fromCTE([]byte(t), "directed", true)
	}
	for i, t := range texts {
		x.fromCTE(t, "encoder-output", i%c.Pick(4, 4) == 0)
	}
	o := DefaultGenOpts()
	gct := NewEvGen(c.Rng, o)
	for i := 0; i < c.Pick(40, 600); i++ {
		if t, rej, _ := c02Encode(c02RepresentableComments(gct.Document())); rej < 0 {
			x.fromCTE(t, "encoder-output-custom-text", i%4 == 0)
		}
	}
	tg := &c02Text{r: c.Rng, kinds: map[string]int{}}
	gtexts := [][]byte{}
	for i := 0; i < c.Pick(450, 12000); i++ {
		tg.bad = i%8 == 7
		doc := []byte(tg.document())
		gtexts = append(gtexts, doc)
		x.fromCTE(doc, "grammar", i%c.Pick(4, 4) == 0)
	}
	for i := 0; i < c.Pick(300, 6000); i++ {
		tg.bad = false
		x.fromCTE([]byte("c0 "+tg.scalar()), "grammar-scalar", i%c.Pick(4, 4) == 0)
	}
	for i := 0; i < c.Pick(300, 8000); i++ {
		var base []byte
		if i%2 == 0 && len(texts) > 0 {
			base = texts[c.Rng.Intn(len(texts))]
		} else {
			base = gtexts[c.Rng.Intn(len(gtexts))]
		}
		if len(base) > 400 {
			continue
		}
		x.fromCTE(c02Mutate(c.Rng, base), "mutated", i%c.Pick(6, 6) == 0)
	}
	for kind, v := range tg.kinds {
		c.Rep.Distribution["text-kind:"+kind] += v
	}
	for kind, v := range g.Kinds {
		c.Rep.Distribution["kind:"+kind] += v
	}
}

func replayC03(r *Replay) (bool, string) {
	switch r.Kind {
	case "from-cbe":
		doc, err := hex.DecodeString(r.Input["doc_hex"])
		if err != nil {
			return false, "bad replay input"
		}
		res := DecodeInChild([][]byte{doc}, ChildDecodeOpts{Rules: true})[0]
		if res.Killed {
			return false, "the decoder process died: " + res.Note
		}
		if res.Err {
			return true, "decoder+rules do not accept this CBE document; it is outside the property"
		}
		f := c03Forward(res.Evs)
		return f.Stage == "", fmt.Sprintf("events %s; CTE text %q; stage %q: expected %q, got %q", evsString(res.Evs), f.Text, f.Stage, f.Want, f.Got)
	case "from-cte":
		text, err := hex.DecodeString(r.Input["text_hex"])
		if err != nil {
			return false, "bad replay input"
		}
		v := c03Reverse(text)
		if !v.Accepted {
			return true, "decoder+rules do not accept this CTE document; it is outside the property"
		}
		if v.CustomText {
			return true, "the document holds custom text, which CBE cannot carry; it is outside the property"
		}
		return v.Stage == "", fmt.Sprintf("events %s; CBE document %x; stage %q: expected %q, got %q", evsString(v.Es), v.Doc, v.Stage, v.Want, v.Got)
	case "ident":
		id, err := hex.DecodeString(r.Input["id_hex"])
		if err != nil {
			return false, "bad replay input"
		}
		rulesOK, _, _ := runRules(defaultRulesCfg(), []Ev{{K: "bd"}, {K: "v", N: 0}, {K: "mk", Data: id}, {K: "null"}, {K: "ed"}})
		out, derr := c02Decode(append(append([]byte("c0\n&"), id...), []byte(":null")...), false)
		lexed := derr == nil && len(out) == 5 && out[2].K == "mk" && bytes.Equal(out[2].Data, id)
		return rulesOK >= 0 || lexed, fmt.Sprintf("identifier %q: validator accepts=%v, CTE reads it back=%v", id, rulesOK < 0, lexed)
	case "media":
		b, err := hex.DecodeString(r.Input["mt_hex"])
		if err != nil {
			return false, "bad replay input"
		}
		mt := string(b)
		rulesOK, _, _ := runRules(defaultRulesCfg(), []Ev{{K: "bd"}, {K: "v", N: 0}, {K: "media", S: mt, Data: []byte{1}}, {K: "ed"}})
		out, derr := c02Decode([]byte("c0\n@"+mt+"[01]"), false)
		lexed := derr == nil && len(out) == 4 && out[2].K == "media" && out[2].S == mt
		return rulesOK >= 0 || lexed, fmt.Sprintf("media type %q: validator accepts=%v, CTE reads it back=%v", mt, rulesOK < 0, lexed)
	case "tie":
		return false, "consistency check between the harness's naming predicates and the implementation; re-run the check"
	}
	return false, "unknown replay kind " + r.Kind
}
