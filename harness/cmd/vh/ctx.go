package main

import (
	"time"
	"encoding/json"
	"fmt"
	"io/ioutil"
	"math/rand"
	"os"
	"path/filepath"
	"sort"
	"strings"
)

// Replay is the on-disk form of one recorded input (also used for known-finding witnesses).
type Replay struct {
	Property string            `json:"property"`
	Kind     string            `json:"kind"`            // property-specific sub-check name
	Key      string            `json:"key"`             // finding-class key (matches known_findings.json)
	Input    map[string]string `json:"input"`           // named textual inputs
	Expect   string            `json:"expect,omitempty"` // what the property requires
	Got      string            `json:"got,omitempty"`    // what the implementation did
	Note     string            `json:"note,omitempty"`
}

// Failure is a violation of the property observed on the implementation (search stage).
type Failure struct {
	Replay
}

// Report is what `vh run` leaves for bin/check.
type Report struct {
	Property     string                 `json:"property"`
	Tier         string                 `json:"tier"`
	Seed         int64                  `json:"seed"`
	Evaluations  int                    `json:"evaluations"`
	Distinct     int                    `json:"distinct_nontrivial"`
	Rule         string                 `json:"rule"`
	Samples      []interface{}          `json:"samples"`
	Distribution map[string]int         `json:"distribution"`
	Failures     []Failure              `json:"failures"`
	CaseFiles    []string               `json:"case_files"`
	CaseCount    int                    `json:"case_count"`
	Extra        map[string]interface{} `json:"extra,omitempty"`
}

// Ctx carries the PRNG, the report and the Coq case writers of one run.
type Ctx struct {
	ID     string
	Tier   string
	Seed   int64
	Out    string
	Rng    *rand.Rand
	Rep    Report
	seen   map[string]bool
	cases  map[string]*caseFile
	failed map[string]int
}

func newCtx(id, tier string, seed int64, out string) *Ctx {
	if tier != "quick" && tier != "thorough" {
		usage()
	}
	os.MkdirAll(out, 0o755)
	c := &Ctx{ID: id, Tier: tier, Seed: seed, Out: out, Rng: rand.New(rand.NewSource(seed))}
	c.Rep = Report{Property: id, Tier: tier, Seed: seed, Distribution: map[string]int{}, Extra: map[string]interface{}{}}
	c.seen = map[string]bool{}
	c.cases = map[string]*caseFile{}
	c.failed = map[string]int{}
	return c
}

func (c *Ctx) Thorough() bool { return c.Tier == "thorough" }

// Pick returns q for the quick tier and t for the thorough tier.
func (c *Ctx) Pick(q, t int) int {
	if c.Thorough() {
		return t
	}
	return q
}

// Count records one evaluated input; key identifies it for the distinct count; nontrivial by the caller's rule.
func (c *Ctx) Count(key string, nontrivial bool) {
	c.Rep.Evaluations++
	if nontrivial && !c.seen[key] {
		c.seen[key] = true
		c.Rep.Distinct++
	}
}

func (c *Ctx) Dist(bucket string) { c.Rep.Distribution[bucket]++ }

func (c *Ctx) Sample(s interface{}) {
	if len(c.Rep.Samples) < 8 {
		c.Rep.Samples = append(c.Rep.Samples, s)
	}
}

// Fail records a property violation seen on the implementation. At most 5 per key are kept.
func (c *Ctx) Fail(r Replay) {
	r.Property = c.ID
	c.failed[r.Key]++
	if c.failed[r.Key] > 5 {
		return
	}
	c.Rep.Failures = append(c.Rep.Failures, Failure{r})
}

func (c *Ctx) finish() {
	for _, name := range sortedKeys(c.cases) {
		cf := c.cases[name]
		cf.close()
		c.Rep.CaseFiles = append(c.Rep.CaseFiles, cf.files...)
		c.Rep.CaseCount += cf.n
	}
	if c.Rep.Samples == nil {
		c.Rep.Samples = []interface{}{}
	}
	if c.Rep.Failures == nil {
		c.Rep.Failures = []Failure{}
	}
	for k, n := range c.failed {
		c.Rep.Distribution["fail:"+k] = n
	}
	b, _ := json.MarshalIndent(&c.Rep, "", " ")
	if err := ioutil.WriteFile(filepath.Join(c.Out, "report.json"), b, 0o644); err != nil {
		panic(err)
	}
}

func sortedKeys(m map[string]*caseFile) []string {
	ks := []string{}
	for k := range m {
		ks = append(ks, k)
	}
	sort.Strings(ks)
	return ks
}

// ---------------------------------------------------------------------------
// Coq case files. Each family `name` becomes one or more files
// <name>_<shard>.v, each of the form
//
//	Require Import <imports>.
//	Definition cases : list <ty> := [ c0 ; c1 ; ... ].
//	Definition M := Eval vm_compute in mismatches <chk> cases.
//	Print M.
//
// and a side file <name>_<shard>.txt with one human-readable line per case, so
// that a mismatch index can be turned back into an input.

type caseFile struct {
	c       *Ctx
	name    string
	imports string
	ty      string
	chk     string
	shard   int
	perFile int
	preamble string
	n       int
	inFile  int
	w       *os.File
	txt     *os.File
	files   []string
}

func (c *Ctx) Cases(name, imports, ty, chk string) *caseFile {
	if cf, ok := c.cases[name]; ok {
		return cf
	}
	cf := &caseFile{c: c, name: name, imports: imports, ty: ty, chk: chk, perFile: 400}
	c.cases[name] = cf
	return cf
}

func (cf *caseFile) open() {
	base := fmt.Sprintf("%s_%d", cf.name, cf.shard)
	var err error
	cf.w, err = os.Create(filepath.Join(cf.c.Out, base+".v"))
	if err != nil {
		panic(err)
	}
	cf.txt, _ = os.Create(filepath.Join(cf.c.Out, base+".txt"))
	cf.files = append(cf.files, base+".v")
	fmt.Fprintf(cf.w, "Require Import %s.\nOpen Scope N_scope.\n%s\nDefinition cases : list (%s) := [\n", cf.imports, cf.preamble, cf.ty)
	cf.inFile = 0
}

// Add appends one case: term is a Coq term of the family's type, human a one-line description.
func (cf *caseFile) Add(term, human string) {
	if cf.w == nil {
		cf.open()
	}
	if cf.inFile > 0 {
		fmt.Fprint(cf.w, ";\n")
	}
	fmt.Fprint(cf.w, term)
	fmt.Fprintln(cf.txt, strings.ReplaceAll(human, "\n", " "))
	cf.inFile++
	cf.n++
	if cf.inFile >= cf.perFile {
		cf.closeShard()
	}
}

func (cf *caseFile) closeShard() {
	if cf.w == nil {
		return
	}
	fmt.Fprintf(cf.w, "\n].\nDefinition M := Eval vm_compute in mismatches (%s) cases.\nPrint M.\n", cf.chk)
	cf.w.Close()
	cf.txt.Close()
	cf.w = nil
	cf.shard++
}

func (cf *caseFile) close() { cf.closeShard() }

// ---------------------------------------------------------------------------

func doReplay(path string) int {
	b, err := ioutil.ReadFile(path)
	if err != nil {
		fmt.Println("cannot read", path, err)
		return 2
	}
	var r Replay
	if err := json.Unmarshal(b, &r); err != nil {
		fmt.Println("bad replay file:", err)
		return 2
	}
	p, ok := props[r.Property]
	if !ok || p.replay == nil {
		fmt.Printf("no replay procedure for property %q (kind %q): %s\n", r.Property, r.Kind, r.Note)
		return 2
	}
	okk, detail := p.replay(&r)
	if okk {
		fmt.Printf("REPLAY property=%s kind=%s: property holds on this input: %s\n", r.Property, r.Kind, detail)
		return 0
	}
	fmt.Printf("REPLAY property=%s kind=%s: property FAILS on this input: %s\n", r.Property, r.Kind, detail)
	return 1
}

// hangWait waits for done with a short deadline; when the deadline passes it keeps waiting up to a
// generous confirmation limit before the caller may call the behaviour a hang, so that a loaded
// machine does not turn a slow call into a false alarm. After a few confirmed hangs in one run the
// confirmation is skipped (the violation is established; only the run time would grow).
var confirmedHangs int

func hangWait(done <-chan string, short time.Duration) (string, bool) {
	select {
	case r := <-done:
		return r, true
	case <-time.After(short):
	}
	if confirmedHangs >= 3 {
		return "", false
	}
	select {
	case r := <-done:
		return r, true
	case <-time.After(10 * time.Second):
		confirmedHangs++
		return "", false
	}
}
