package main

import (
	"encoding/hex"
	"fmt"
	"math"
	"math/big"
	"strconv"
	"strings"

	"github.com/kstenerud/go-concise-encoding/ce/events"
	compact_float "github.com/kstenerud/go-compact-float"
)

// parseEvs reads back the text produced by evsString for the event kinds whose payload that text
// carries completely (everything except big floats, big decimals and times, which replay files avoid
// or which parse to a placeholder and make the replay report "not replayable").
func parseEvs(s string) ([]Ev, error) {
	out := []Ev{}
	for _, tok := range strings.Fields(s) {
		p := strings.Split(tok, ":")
		h := func(i int) []byte {
			if i >= len(p) {
				return []byte{}
			}
			b, _ := hex.DecodeString(p[i])
			return b
		}
		u := func(i int) uint64 { v, _ := strconv.ParseUint(p[i], 10, 64); return v }
		e := Ev{K: p[0]}
		switch p[0] {
		case "v", "pi", "ni":
			e.N = u(1)
		case "i":
			e.I, _ = strconv.ParseInt(p[1], 10, 64)
		case "b", "nan":
			e.B = p[1] == "true"
		case "cm":
			e.B = p[1] == "true"
			e.Data = h(2)
		case "bi":
			if p[1] != "nil" {
				e.Big, _ = new(big.Int).SetString(p[1], 10)
			}
		case "fl":
			bits, _ := strconv.ParseUint(p[1], 16, 64)
			e.F = math.Float64frombits(bits)
		case "df":
			c, _ := strconv.ParseInt(p[1], 10, 64)
			x, _ := strconv.ParseInt(p[2], 10, 32)
			e.DF = compact_float.DFloat{Coefficient: c, Exponent: int32(x)}
		case "bf", "bdf":
			if p[1] != "nil" {
				return nil, fmt.Errorf("event %q is not replayable from text", tok)
			}
		case "tm":
			return nil, fmt.Errorf("event %q is not replayable from text", tok)
		case "uid", "rt", "rec", "mk", "ref", "ad":
			e.Data = h(1)
		case "a":
			e.A = events.ArrayType(u(1))
			e.N = u(2)
			e.Data = h(3)
		case "sa":
			e.A = events.ArrayType(u(1))
			e.Data = h(2)
		case "media":
			e.S = string(h(1))
			e.Data = h(2)
		case "cb", "ct":
			e.N = u(1)
			e.Data = h(2)
		case "ab":
			e.A = events.ArrayType(u(1))
		case "mb":
			e.S = string(h(1))
		case "cbeg":
			e.A = events.ArrayType(u(1))
			e.N = u(2)
		case "ac":
			e.N = u(1)
			e.B = p[2] == "true"
		}
		out = append(out, e)
	}
	return out, nil
}

// replayEvents builds a replay procedure for checks whose inputs are event lists.
func replayEvents(id string, oracle func([]Ev) (bool, string, string)) func(r *Replay) (bool, string) {
	return func(r *Replay) (bool, string) {
		es, err := parseEvs(r.Input["events"])
		if err != nil {
			return false, "cannot replay: " + err.Error()
		}
		ok, want, got := oracle(es)
		return ok, fmt.Sprintf("expected %q got %q", want, got)
	}
}
