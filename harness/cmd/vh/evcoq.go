package main

import (
	"math"
	"math/big"

	"github.com/cockroachdb/apd/v2"
	compact_float "github.com/kstenerud/go-compact-float"
)

func cDFloat(d compact_float.DFloat) string {
	switch {
	case d.IsSignalingNan():
		return "DSNan"
	case d.IsNan():
		return "DQNan"
	case d.IsNegativeInfinity():
		return "(DInf true)"
	case d.IsInfinity():
		return "(DInf false)"
	case d.IsNegativeZero():
		return "(DFin true 0 0%Z)"
	}
	if d.Coefficient < 0 {
		m := new(big.Int).Neg(big.NewInt(d.Coefficient))
		return cApp("DFin", "true", cBigN(m), cZ(int64(d.Exponent)))
	}
	return cApp("DFin", "false", cN(uint64(d.Coefficient)), cZ(int64(d.Exponent)))
}

func cAPD(d *apd.Decimal) string {
	switch d.Form {
	case apd.NaNSignaling:
		return "DSNan"
	case apd.NaN:
		return "DQNan"
	case apd.Infinite:
		return cApp("DInf", cBool(d.Negative))
	}
	return cApp("DFin", cBool(d.Negative), cBigN(new(big.Int).Abs(&d.Coeff)), cZ(int64(d.Exponent)))
}

func cBigFloat(f *big.Float) string {
	if f.IsInf() {
		return cApp("BInf", cBool(f.Signbit()))
	}
	if f.Sign() == 0 {
		return cApp("BFin", cBool(f.Signbit()), "0", "0%Z", cN(uint64(f.Prec())))
	}
	mant := new(big.Float)
	exp := f.MantExp(mant) // f = mant * 2^exp, 0.5 <= |mant| < 1
	prec := int(f.MinPrec())
	mant.SetMantExp(mant, prec)
	mi, _ := mant.Int(nil)
	mi.Abs(mi)
	return cApp("BFin", cBool(f.Signbit()), cBigN(mi), cZ(int64(exp-prec)), cN(uint64(f.Prec())))
}

// cEv prints one event as a Coq term of type event.
func cEv(e Ev) string {
	switch e.K {
	case "bd":
		return "EBeginDoc"
	case "ed":
		return "EEndDoc"
	case "v":
		return cApp("EVersion", cN(e.N))
	case "pad":
		return "EPadding"
	case "cm":
		return cApp("EComment", cBool(e.B), cBytes(e.Data))
	case "null":
		return "ENull"
	case "b":
		return cApp("EBool", cBool(e.B))
	case "t":
		return "ETrue"
	case "f":
		return "EFalse"
	case "pi":
		return cApp("EPosInt", cN(e.N))
	case "ni":
		return cApp("ENegInt", cN(e.N))
	case "i":
		return cApp("EInt", cZ(e.I))
	case "bi":
		if e.Big == nil {
			return "(EBigInt None)"
		}
		return cApp("EBigInt", cSome(cBigZ(e.Big)))
	case "fl":
		return cApp("EFloat", cN(math.Float64bits(e.F)))
	case "bf":
		if e.BF == nil {
			return "(EBigFloat None)"
		}
		return cApp("EBigFloat", cSome(cBigFloat(e.BF)))
	case "df":
		return cApp("EDecimal", cDFloat(e.DF))
	case "bdf":
		if e.BDF == nil {
			return "(EBigDecimal None)"
		}
		return cApp("EBigDecimal", cSome(cAPD(e.BDF)))
	case "nan":
		return cApp("ENan", cBool(e.B))
	case "uid":
		return cApp("EUid", cBytes(e.Data))
	case "tm":
		// a value that compact_time's Validate rejects (zero value excepted) is tagged with a leading
		// NUL byte: see time_token_valid in Model/Rules.v
		tok := []byte(e.T.String())
		if !e.T.IsZeroValue() && e.T.Validate() != nil {
			tok = append([]byte{0}, tok...)
		}
		return cApp("ETime", cBytes(tok))
	case "l":
		return "EList"
	case "m":
		return "EMap"
	case "rt":
		return cApp("ERecordType", cBytes(e.Data))
	case "rec":
		return cApp("ERecord", cBytes(e.Data))
	case "edge":
		return "EEdge"
	case "node":
		return "ENode"
	case "e":
		return "EEnd"
	case "mk":
		return cApp("EMarker", cBytes(e.Data))
	case "ref":
		return cApp("ERefLocal", cBytes(e.Data))
	case "a":
		return cApp("EArray", cN(uint64(e.A)), cN(e.N), cBytes(e.Data))
	case "sa":
		return cApp("EStringArray", cN(uint64(e.A)), cBytes(e.Data))
	case "media":
		return cApp("EMedia", cBytes([]byte(e.S)), cBytes(e.Data))
	case "cb":
		return cApp("ECustomBin", cN(e.N), cBytes(e.Data))
	case "ct":
		return cApp("ECustomText", cN(e.N), cBytes(e.Data))
	case "ab":
		return cApp("EArrayBegin", cN(uint64(e.A)))
	case "mb":
		return cApp("EMediaBegin", cBytes([]byte(e.S)))
	case "cbeg":
		return cApp("ECustomBegin", cN(uint64(e.A)), cN(e.N))
	case "ac":
		return cApp("EArrayChunk", cN(e.N), cBool(e.B))
	case "ad":
		return cApp("EArrayData", cBytes(e.Data))
	}
	panic("cEv: unknown kind " + e.K)
}

func cEvs(es []Ev) string {
	items := make([]string, len(es))
	for i, e := range es {
		items[i] = cEv(e)
	}
	return cList(items)
}
