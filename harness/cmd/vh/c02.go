package main

// C02 - CTE encode/decode preserves every rules-valid event stream.
//
// Search oracle on the implementation: a rules-valid stream is played through ce.NewRules ->
// ce.NewCTEEncoder, the text is decoded by ce.NewCTEDecoder -> ce.NewRules -> Recorder; both stages
// must succeed and the denotation (den.go, the Go twin of Model/Denote.v) of the decoded stream must
// equal the denotation of the input without its padding (comments stay).
//
// Correspondence (family cteread, CE.Model.CteRead): the hand-written reader model against cte.Decoder
// (no validator in between, exact events) on (a) the encoder's text for generated rules-valid streams
// (together with the encoder model's text and the denotation check), (b) documents from a grammar-driven
// text generator that uses every spelling CTELexer.g4 / CTEParser.g4 allow, (c) byte-level mutations of
// (a) and (b).  The lexer's Unicode character classes are read off the generated lexer by `vh gen`
// (Gen/CteReadTables.v).

import (
	"bytes"
	"crypto/sha256"
	"encoding/binary"
	"encoding/hex"
	"fmt"
	"io/ioutil"
	"math"
	"math/big"
	"math/rand"
	"os"
	"path/filepath"
	"strconv"
	"strings"
	"unicode/utf8"

	antlr "github.com/antlr/antlr4/runtime/Go/antlr/v4"
	"github.com/cockroachdb/apd/v2"
	compact_time "github.com/kstenerud/go-compact-time"
	"github.com/kstenerud/go-concise-encoding/ce"
	"github.com/kstenerud/go-concise-encoding/ce/events"
	"github.com/kstenerud/go-concise-encoding/configuration"
	"github.com/kstenerud/go-concise-encoding/cte/parser"
)

func init() {
	register("C02", runC02, replayC02)
	generators = append(generators, genCteReadTables)
}

// ---------------------------------------------------------------------------
// Gen/CteReadTables.v: the three Unicode-category classes of CTELexer.g4, read off the generated lexer

type c02NoErr struct{ *antlr.DefaultErrorListener }

func (c02NoErr) SyntaxError(antlr.Recognizer, interface{}, int, int, string, antlr.RecognitionException) {
}

// every code point a Go string can hold (antlr.NewInputStream converts the document to []rune)
func c02AllRunes(skip func(r rune) bool) []rune {
	rs := make([]rune, 0, 0x110000)
	for r := rune(0); r <= 0x10ffff; r++ {
		if r >= 0xd800 && r <= 0xdfff {
			continue
		}
		if skip != nil && skip(r) {
			continue
		}
		rs = append(rs, r)
	}
	return rs
}

// c02LexClass runs the generated lexer over the runes rs, each placed in the frame pre+r+post, in mode `mode`
// (re-entered before every token) and reports the runes for which a token of type `want` covering exactly
// pre+r starts at the frame's first character.
func c02LexClass(rs []rune, mode int, pre, post string, want int) map[rune]bool {
	frame := len([]rune(pre)) + 1 + len([]rune(post))
	var sb strings.Builder
	for _, r := range rs {
		sb.WriteString(pre)
		sb.WriteRune(r)
		sb.WriteString(post)
	}
	lx := parser.NewContextualCTELexer(antlr.NewInputStream(sb.String()))
	lx.RemoveErrorListeners()
	lx.AddErrorListener(c02NoErr{})
	in := map[rune]bool{}
	for {
		lx.SetMode(mode)
		t := lx.NextToken()
		if t.GetTokenType() == antlr.TokenEOF {
			break
		}
		st, en := t.GetStart(), t.GetStop()
		if t.GetTokenType() == want && st%frame == 0 && en-st+1 == len([]rune(pre))+1 {
			in[rs[st/frame]] = true
		}
	}
	return in
}

func c02IntervalList(in map[rune]bool) [][2]rune {
	out := [][2]rune{}
	start := rune(-1)
	for r := rune(0); r <= 0x110000; r++ {
		if in[r] {
			if start < 0 {
				start = r
			}
		} else if start >= 0 {
			out = append(out, [2]rune{start, r - 1})
			start = -1
		}
	}
	return out
}

type c02Classes struct{ quoted, ident, sentinel [][2]rune }

var c02ClassCache *c02Classes

func c02InClass(iv [][2]rune, r rune) bool {
	lo, hi := 0, len(iv)
	for lo < hi {
		m := (lo + hi) / 2
		switch {
		case r < iv[m][0]:
			hi = m
		case r > iv[m][1]:
			lo = m + 1
		default:
			return true
		}
	}
	return false
}

// The tables are a function of the harness binary (it embeds the generated lexer and the ANTLR runtime);
// probing takes about ten seconds, so the result is kept in the temp directory under the binary's hash.
func c02GetClasses() *c02Classes {
	if c02ClassCache != nil {
		return c02ClassCache
	}
	cachePath := ""
	if exe, err := os.Executable(); err == nil {
		if b, err := ioutil.ReadFile(exe); err == nil {
			h := sha256.Sum256(b)
			cachePath = filepath.Join(os.TempDir(), "vh_c02_classes_"+hex.EncodeToString(h[:12]))
		}
	}
	parse := func(s string) [][2]rune {
		out := [][2]rune{}
		for _, f := range strings.Fields(s) {
			p := strings.Split(f, "-")
			a, _ := strconv.Atoi(p[0])
			b, _ := strconv.Atoi(p[1])
			out = append(out, [2]rune{rune(a), rune(b)})
		}
		return out
	}
	if cachePath != "" {
		if b, err := ioutil.ReadFile(cachePath); err == nil {
			lines := strings.Split(string(b), "\n")
			if len(lines) >= 4 && lines[3] == "end" {
				c02ClassCache = &c02Classes{parse(lines[0]), parse(lines[1]), parse(lines[2])}
				return c02ClassCache
			}
		}
	}
	// CHAR_QUOTED_STRING: one STRING_CONTENTS token per character in MODE_STRING (the double quote and the
	// backslash are taken by STRING_END / STRING_ESCAPE, which come first)
	quoted := c02LexClass(c02AllRunes(func(r rune) bool { return r == '"' || r == '\\' }), parser.CTELexerMODE_STRING, "", "", parser.CTELexerSTRING_CONTENTS)
	// CHAR_IDENTIFIER: "$x " is a REFERENCE token of two characters
	ident := c02LexClass(c02AllRunes(nil), parser.CTELexerMODE_NORMAL, "$", " ", parser.CTELexerREFERENCE)
	// CHAR_VERBATIM_SENTINEL: "x " in MODE_VERBATIM starts with a one-character VERBATIM_SENTINEL token
	sentinel := c02LexClass(c02AllRunes(nil), parser.CTELexerMODE_VERBATIM, "", " ", parser.CTELexerVERBATIM_SENTINEL)
	c02ClassCache = &c02Classes{c02IntervalList(quoted), c02IntervalList(ident), c02IntervalList(sentinel)}
	if cachePath != "" {
		ser := func(iv [][2]rune) string {
			p := make([]string, len(iv))
			for i, x := range iv {
				p[i] = fmt.Sprintf("%d-%d", x[0], x[1])
			}
			return strings.Join(p, " ")
		}
		tmp := cachePath + fmt.Sprintf(".%d", os.Getpid())
		if ioutil.WriteFile(tmp, []byte(ser(c02ClassCache.quoted)+"\n"+ser(c02ClassCache.ident)+"\n"+ser(c02ClassCache.sentinel)+"\nend\n"), 0o644) == nil {
			os.Rename(tmp, cachePath)
		}
	}
	return c02ClassCache
}

func genCteReadTables(dir string) {
	g := newGen("CteReadTables.v")
	fmt.Fprintf(g, "(* Character classes of /repo/codegen/cte/CTELexer.g4 as the generated lexer (/repo/cte/parser) implements them,\n   obtained by running that lexer on every code point a Go string can hold (surrogates cannot occur). *)\n\n")
	cl := c02GetClasses()
	coq := func(iv [][2]rune) string {
		items := make([]string, len(iv))
		for i, x := range iv {
			items[i] = fmt.Sprintf("(%d, %d)", x[0], x[1])
		}
		return "[" + joinLines(items, 6) + "]"
	}
	g.def("cte_quoted_intervals", "list (N * N)", coq(cl.quoted))
	g.def("cte_ident_intervals", "list (N * N)", coq(cl.ident))
	g.def("cte_sentinel_intervals", "list (N * N)", coq(cl.sentinel))
	g.write(dir)
}

// ---------------------------------------------------------------------------
// the implementation

// c02Encode: events -> validator -> CTE encoder.  rej >= 0: event rej made the validator or the encoder panic.
func c02Encode(es []Ev) (text []byte, rej int, msg string) {
	cfg := configuration.New()
	var buf bytes.Buffer
	enc := ce.NewCTEEncoder(cfg)
	enc.PrepareToEncode(&buf)
	rej, msg = playAll(ce.NewRules(enc, cfg), es)
	return buf.Bytes(), rej, msg
}

// c02Decode: text -> CTE decoder -> (validator ->) recorder.
func c02Decode(doc []byte, withRules bool) (evs []Ev, err error) {
	defer func() {
		if r := recover(); r != nil {
			err = fmt.Errorf("panic: %v", r)
		}
	}()
	cfg := configuration.New()
	rec := &Recorder{}
	if withRules {
		err = ce.NewCTEDecoder(cfg).DecodeDocument(doc, ce.NewRules(rec, cfg))
	} else {
		err = ce.NewCTEDecoder(cfg).DecodeDocument(doc, rec)
	}
	return rec.Evs, err
}

// c02Oracle: the property on one stream.  valid=false: the validator does not accept the stream (not in the
// property's domain).
func c02Oracle(es []Ev) (valid, ok bool, stage, expect, got string, text []byte) {
	if rej, _, _ := runRules(defaultRulesCfg(), es); rej >= 0 {
		return false, true, "", "", "", nil
	}
	want := denString(denFilter(denGo(es), false, true))
	text, rej, msg := c02Encode(es)
	if rej >= 0 {
		return true, false, "encode", want, fmt.Sprintf("the encoder rejects event %d (%s): %s", rej, es[rej], msg), text
	}
	out, err := c02Decode(text, true)
	if err != nil {
		return true, false, "decode", want, "the decoder (with rules) rejects the encoder's text: " + err.Error(), text
	}
	g := denString(denGo(out))
	return true, g == want, "data", want, g, text
}

// c02Construct names the construct of a stream that the recorded findings single out ("" when none).
func c02Construct(es []Ev) string {
	if c02HasNanPayload(es) {
		return "float-array-nan-payload"
	}
	for _, e := range es {
		switch {
		case e.K == "cm" && !utf8.Valid(e.Data):
			return "comment-invalid-utf8"
		case e.K == "cm" && !e.B && bytes.IndexByte(e.Data, '\n') >= 0:
			return "comment-line-feed"
		case e.K == "cm" && !e.B && len(e.Data) > 0 && e.Data[len(e.Data)-1] == '\r':
			return "comment-trailing-carriage-return"
		case e.K == "cm" && e.B && !c02BlockBalanced(e.Data):
			return "comment-block-delimiter"
		case e.K == "bf" && e.BF != nil && !e.BF.IsInf() && e.BF.Cmp(big.NewFloat(1)) == 0, e.K == "bf" && e.BF != nil && !e.BF.IsInf() && e.BF.Cmp(big.NewFloat(-1)) == 0:
			return "bigfloat-one-written-as-integer"
		case e.K == "bdf" && e.BDF != nil && e.BDF.Form == apd.Finite && e.BDF.Coeff.BitLen() > 64:
			return "bigdecimal-coefficient-over-64-bits"
		case inexactBigFloat(e):
			return "bigfloat-not-float64"
		}
	}
	return ""
}

// a float array element that is a NaN other than the two the text form can name ("nan", "snan")
func c02HasNanPayload(es []Ev) bool {
	check := func(t events.ArrayType, data []byte) bool {
		switch t {
		case events.ArrayTypeFloat16:
			for i := 0; i+2 <= len(data); i += 2 {
				v := uint16(data[i]) | uint16(data[i+1])<<8
				if v&0x7f80 == 0x7f80 && v&0x7f != 0 && v != 0x7fe0 && v != 0x7fa0 {
					return true
				}
			}
		case events.ArrayTypeFloat32:
			for i := 0; i+4 <= len(data); i += 4 {
				v := binary.LittleEndian.Uint32(data[i:])
				if v&0x7f800000 == 0x7f800000 && v&0x7fffff != 0 && v != 0x7fe00000 && v != 0x7fa00000 {
					return true
				}
			}
		case events.ArrayTypeFloat64:
			for i := 0; i+8 <= len(data); i += 8 {
				v := binary.LittleEndian.Uint64(data[i:])
				if v&0x7ff0000000000000 == 0x7ff0000000000000 && v&0xfffffffffffff != 0 && v != 0x7ffc000000000000 && v != 0x7ff4000000000000 {
					return true
				}
			}
		}
		return false
	}
	for i := 0; i < len(es); i++ {
		e := es[i]
		switch e.K {
		case "a":
			if check(e.A, e.Data) {
				return true
			}
		case "ab":
			data := []byte{}
			for j := i + 1; j < len(es) && (es[j].K == "ac" || es[j].K == "ad" || es[j].K == "cm" || es[j].K == "pad"); j++ {
				if es[j].K == "ad" {
					data = append(data, es[j].Data...)
				}
			}
			if check(e.A, data) {
				return true
			}
		}
	}
	return false
}

// a single-line comment (any text, also empty) standing before the value of a node: the position in which the
// encoder decides by Writer.Column whether a line feed follows the comment (finding comment-first-in-node)
func c02CommentFirstInNode(es []Ev) bool {
	for i := 0; i+1 < len(es); i++ {
		if es[i].K == "node" {
			for j := i + 1; j < len(es) && (es[j].K == "pad" || es[j].K == "cm"); j++ {
				if es[j].K == "cm" && !es[j].B {
					return true
				}
			}
		}
	}
	return false
}

// the symptom of that finding when the text still parses: the first difference is a single-line comment that
// has swallowed what followed it on its line (the decoded text extends the original text)
func c02CommentSwallowed(want, got string) bool {
	w, g := strings.Split(want, " (D"), strings.Split(got, " (D")
	for i := range w {
		if i >= len(g) {
			return false
		}
		if w[i] != g[i] {
			const pre = "Comment false ["
			if !strings.HasPrefix(w[i], pre) || !strings.HasPrefix(g[i], pre) {
				return false
			}
			wl := strings.TrimRight(strings.TrimSuffix(strings.TrimSpace(w[i][len(pre):]), ")"), "]")
			gl := strings.TrimRight(strings.TrimSuffix(strings.TrimSpace(g[i][len(pre):]), ")"), "]")
			return len(gl) > len(wl) && (wl == "" || strings.HasPrefix(gl, wl+";"))
		}
	}
	return false
}

// does the text of a multi-line comment read back as one comment? ("/*" nests, "*/" closes)
func c02BlockBalanced(t []byte) bool {
	s := append(append([]byte("/*"), t...), '*', '/')
	depth := 0
	for i := 0; i < len(s); {
		switch {
		case i+1 < len(s) && s[i] == '/' && s[i+1] == '*':
			depth++
			i += 2
		case i+1 < len(s) && s[i] == '*' && s[i+1] == '/':
			depth--
			i += 2
			if depth == 0 {
				return i == len(s)
			}
		default:
			i++
		}
	}
	return false
}

// The tree generator keeps "*/" and "/*" out of multi-line comments but not a final '/', which together with the
// closing delimiter reads as an opener; such comments have their own directed streams.
func c02RepresentableComments(es []Ev) []Ev {
	for i, e := range es {
		if e.K == "cm" && e.B && !c02BlockBalanced(e.Data) {
			es[i].Data = bytes.ReplaceAll(e.Data, []byte("/"), []byte("|"))
		}
	}
	return es
}

func c02Check(c *Ctx, es []Ev, class string) (text []byte, fine bool) {
	valid, ok, stage, want, got, text := c02Oracle(es)
	if !valid {
		c.Dist("oracle/" + class + "/not-rules-valid")
		return nil, false
	}
	c.Count(evsString(es), len(es) > 4)
	construct := c02Construct(es)
	c.Dist(fmt.Sprintf("oracle/%s/construct=%s/ok=%v", class, construct, ok))
	if ok {
		return text, true
	}
	key := "C02/roundtrip/" + construct
	if construct == "" {
		key = "C02/roundtrip/other/" + stage
		if c02CommentFirstInNode(es) && (stage == "decode" || (stage == "data" && c02CommentSwallowed(want, got))) {
			key = "C02/roundtrip/comment-first-in-node"
		} else if stage == "data" {
			key += "/" + c01FirstDiff(want, got)
		}
	}
	c.Fail(Replay{Kind: "roundtrip", Key: key,
		Input:  map[string]string{"events": evsString(es), "events_gob": evsToGob(es), "text": string(text)},
		Expect: want, Got: got})
	return text, false
}

// ---------------------------------------------------------------------------
// grammar-driven text generator: every spelling the two grammars allow

type c02Text struct {
	r     *rand.Rand
	kinds map[string]int
	bad   bool // deliberately leave the grammar now and then
}

func (g *c02Text) pick(xs ...string) string { return xs[g.r.Intn(len(xs))] }
func (g *c02Text) chance(n int) bool        { return g.r.Intn(n) == 0 }

func (g *c02Text) ws() string {
	n := 1 + g.r.Intn(3)
	var sb strings.Builder
	for i := 0; i < n; i++ {
		sb.WriteString(g.pick(" ", " ", " ", "\n", "\t", "\r\n", "\r", "    "))
	}
	return sb.String()
}

var c02CommentBits = []string{"a", "b", " ", "x y", "*", "/", "\u00e9", "\u65e5\u672c", "\U0001F600", "\t", "#", "\"", "\\", "\x01", "\u00a0", "**", "//", "* /", "\ue000"}

func (g *c02Text) commentText(multi bool) string {
	var sb strings.Builder
	for i := g.r.Intn(4); i > 0; i-- {
		sb.WriteString(c02CommentBits[g.r.Intn(len(c02CommentBits))])
	}
	s := sb.String()
	if multi {
		s = strings.NewReplacer("*/", "* ", "/*", "/ ").Replace(s)
		if strings.HasSuffix(s, "/") && g.chance(2) {
			s += " "
		}
	}
	return s
}

func (g *c02Text) comment() string {
	g.kinds["comment"]++
	if g.chance(2) {
		t := g.commentText(false)
		if g.bad && g.chance(30) {
			return "//" + t // no line end
		}
		return "//" + t + g.pick("\n", "\n", "\r\n")
	}
	t := g.commentText(true)
	if g.chance(4) {
		t += "/*" + g.commentText(true) + "*/" + g.commentText(true)
		g.kinds["comment-nested"]++
	}
	if g.bad && g.chance(30) {
		return "/*" + t + "/*"
	}
	return "/*" + t + g.pick("", "", "*", "**") + "*/"
}

// separator+
func (g *c02Text) sep() string {
	var sb strings.Builder
	n := 1 + g.r.Intn(2)
	for i := 0; i < n; i++ {
		if g.chance(5) {
			sb.WriteString(g.comment())
		} else {
			sb.WriteString(g.ws())
		}
	}
	return sb.String()
}

// separator*
func (g *c02Text) optsep() string {
	if g.chance(2) {
		return ""
	}
	return g.sep()
}

func (g *c02Text) digits(alphabet string, maxLen int) string {
	n := 1 + g.r.Intn(maxLen)
	var sb strings.Builder
	for i := 0; i < n; i++ {
		if i > 0 && g.chance(6) {
			sb.WriteString(g.pick("_", "_", "__"))
		}
		sb.WriteByte(alphabet[g.r.Intn(len(alphabet))])
	}
	return sb.String()
}

const c02Hex = "0123456789abcdefABCDEF"

func (g *c02Text) intLit(allowNeg bool) string {
	g.kinds["int"]++
	s := ""
	if allowNeg && g.chance(3) {
		s = "-"
	}
	maxLen := g.r.Intn(24) + 1
	switch g.r.Intn(6) {
	case 0:
		return s + g.pick("0b", "0B") + g.digits("01", maxLen*3)
	case 1:
		return s + g.pick("0o", "0O") + g.digits("01234567", maxLen)
	case 2:
		return s + g.pick("0x", "0X") + g.digits(c02Hex, maxLen)
	case 3:
		return s + g.pick("0", "1", "9223372036854775807", "9223372036854775808", "18446744073709551615", "18446744073709551616", "00", "010", "08")
	default:
		return s + g.digits("0123456789", maxLen)
	}
}

func (g *c02Text) exponent(letter string) string {
	return g.pick(letter, strings.ToUpper(letter)) + g.pick("", "+", "-") + g.digits("0123456789", 1+g.r.Intn(3))
}

func (g *c02Text) floatLit(hexNoPrefix, optionalTail bool) string {
	g.kinds["float"]++
	s := ""
	if g.chance(3) {
		s = "-"
	}
	hexa := hexNoPrefix || g.chance(3)
	alpha, letter := "0123456789", "e"
	if hexa {
		alpha, letter = c02Hex, "p"
		if !hexNoPrefix {
			s += g.pick("0x", "0X")
		}
	}
	s += g.digits(alpha, 1+g.r.Intn(18))
	switch g.r.Intn(4) {
	case 0:
		s += "." + g.digits(alpha, 1+g.r.Intn(18))
	case 1:
		s += g.exponent(letter)
	case 2:
		s += "." + g.digits(alpha, 1+g.r.Intn(12)) + g.exponent(letter)
	default:
		if !optionalTail {
			s += "." + g.digits(alpha, 3)
		}
	}
	return s
}

func (g *c02Text) uid() string {
	g.kinds["uid"]++
	h := func(n int) string {
		b := make([]byte, n)
		for i := range b {
			b[i] = c02Hex[g.r.Intn(len(c02Hex))]
		}
		return string(b)
	}
	return h(8) + "-" + h(4) + "-" + h(4) + "-" + h(4) + "-" + h(12)
}

func (g *c02Text) coord(maxInt int) string {
	s := ""
	if g.chance(3) {
		s = "-"
	}
	s += strconv.Itoa(g.r.Intn(maxInt + 1))
	switch g.r.Intn(3) {
	case 0:
		s += fmt.Sprintf(".%d", g.r.Intn(10))
	case 1:
		s += fmt.Sprintf(".%02d", g.r.Intn(100))
	}
	return s
}

var c02Areas = []string{"Europe/Berlin", "E/Berlin", "America/Argentina/Buenos_Aires", "M/New_York", "Etc/UTC", "Z", "Zero", "Local", "L", "UTC", "Etc/GMT+0",
	"Asia/Tokyo", "S/Tokyo", "X/Y", "Q", "Abc", "L/x", "Z/y", "C/UTC", "GMT-0", "Factory", "A", "Europe", "F/", "Etc/GMT-14", "U/Sydney", "P/Fiji.x+y_z-w"}

func (g *c02Text) tz() string {
	switch g.r.Intn(6) {
	case 0, 1:
		return ""
	case 2:
		return "/" + c02Areas[g.r.Intn(len(c02Areas))]
	case 3:
		if g.chance(6) {
			return "/" + g.coord(99) + "/" + g.coord(999)
		}
		return "/" + g.coord(90) + "/" + g.coord(180)
	default:
		if g.chance(6) {
			return g.pick("+", "-") + fmt.Sprintf("%04d", g.r.Intn(10000))
		}
		return g.pick("+", "-") + fmt.Sprintf("%02d%02d", g.r.Intn(24), g.r.Intn(60))
	}
}

func (g *c02Text) timePart() string {
	h := g.r.Intn(24)
	if g.chance(10) {
		h = g.r.Intn(100)
	}
	s := g.pick(fmt.Sprintf("%d", h), fmt.Sprintf("%02d", h)) + fmt.Sprintf(":%02d:%02d", g.r.Intn(60+g.r.Intn(3)*20), g.r.Intn(61+g.r.Intn(2)*39))
	if g.chance(2) {
		n := 1 + g.r.Intn(9)
		if g.bad && g.chance(20) {
			n = 10
		}
		s += "." + fmt.Sprintf("%0*d", n, g.r.Int63n(int64(math.Pow10(n))))
	}
	return s + g.tz()
}

func (g *c02Text) datePart() string {
	y := strconv.Itoa(g.r.Intn(3000))
	switch g.r.Intn(10) {
	case 0:
		y = "-" + y
	case 1:
		y = g.pick("0", "000", "1_999", "-2_0_0", "0_1", "123456789", "99999999999999999999", "-9223372036854775808", "9223372036854775807", "02000")
	}
	mo, d := 1+g.r.Intn(12), 1+g.r.Intn(28)
	if g.chance(8) {
		mo, d = g.r.Intn(15), g.r.Intn(33)
	}
	return y + "-" + g.pick(fmt.Sprintf("%d", mo), fmt.Sprintf("%02d", mo)) + "-" + g.pick(fmt.Sprintf("%d", d), fmt.Sprintf("%02d", d))
}

func (g *c02Text) timeLit() string {
	g.kinds["time"]++
	switch g.r.Intn(3) {
	case 0:
		return g.datePart()
	case 1:
		return g.timePart()
	default:
		return g.datePart() + "/" + g.timePart()
	}
}

var c02StrChars = []string{"a", "b", "z", "A", "0", "9", " ", "  ", "_", "-", ".", ",", ":", ";", "/", "*", "'", "=", "[", "]", "{", "}", "<", ">", "(", ")", "@", "&", "$", "#", "|", "~", "`", "^", "%", "!", "?", "+",
	"\n", "\t", "\r", "\r\n", "\u00e9", "\u00df", "\u20ac", "\u65e5\u672c", "\U0001D11E", "\u00a0", "\u00ad", "\u200b", "\u2028", "\ufeff", "\u03c0", "\U0001F600", "\u07ff", "\u0800", "\uffff", "\ufffd", "\U00010000", "\U0010ffff",
	"\u0378", "\ue000", "\x00", "\x01", "\x7f", "\u0085", "\u009f", "\U000e0001", "\U000f0000", "\x0b", "\x0c"}

var c02Sentinels = []string{"#", "@@", "abc", "\u00e9", "\u00e9\u65e5", "|", "x", "END", "-", "a.b", "\"", "\\", "\u65e5"}

// the inside of a quoted string, with the closing quote
func (g *c02Text) stringBody() string {
	var sb strings.Builder
	n := g.r.Intn(6)
	for i := 0; i < n; i++ {
		switch g.r.Intn(12) {
		case 0:
			sb.WriteString("\\" + g.pick("n", "N", "r", "R", "t", "T", "\"", "*", "/", "\\", "-", "_"))
			g.kinds["str-escape"]++
		case 1:
			sb.WriteString("\\[" + g.pick("41", "0", "a", "1F600", "1f600", "e9", "00e9", "d800", "dfff", "10ffff", "110000", "ffffffff", "100000000", "7f", "9", "A") + "]")
			g.kinds["str-codepoint"]++
		case 2:
			sb.WriteString("\\" + g.pick("\n", "\r\n", "\r") + g.pick("", " ", "  \t", "\n ", "\r\n  "))
			g.kinds["str-continuation"]++
		case 3:
			sent := c02Sentinels[g.r.Intn(len(c02Sentinels))]
			body := ""
			for j := g.r.Intn(4); j > 0; j-- {
				body += c02StrChars[g.r.Intn(len(c02StrChars))]
			}
			if g.chance(4) {
				body += sent[:1] // a partial sentinel inside the contents
			}
			sb.WriteString("\\." + sent + g.pick(" ", "\t", "\n", "\r\n") + body + sent)
			g.kinds["str-verbatim"]++
		case 4:
			if g.bad {
				sb.WriteString("\\" + g.pick("a", "x", "0", " ", "[", "[]", "[g]", "[41", ".", ". x", ".# "))
			}
		default:
			sb.WriteString(c02StrChars[g.r.Intn(len(c02StrChars))])
		}
	}
	sb.WriteString("\"")
	return sb.String()
}

func (g *c02Text) ident() string {
	const chars = "abcdefghijklmnopqrstuvwxyzABCDEFGHIJKLMNOPQRSTUVWXYZ0123456789_-."
	n := 1 + g.r.Intn(5)
	var sb strings.Builder
	for i := 0; i < n; i++ {
		if g.chance(8) {
			sb.WriteString(g.pick("\u00e9", "\u65e5", "\u200d", "\u0301", "\u0663", "\u00ad"))
		} else {
			sb.WriteByte(chars[g.r.Intn(len(chars))])
		}
	}
	if g.bad && g.chance(20) {
		sb.WriteString(g.pick("!", "+", "\u20ac", "\u2028"))
	}
	return sb.String()
}

func (g *c02Text) mediaType() string {
	const next = "abcdefghijklmnopqrstuvwxyzABCDEFGHIJKLMNOPQRSTUVWXYZ0123456789!#$%&'*+.^_`|~{}-"
	part := func(min int) string {
		n := min + g.r.Intn(5)
		b := make([]byte, n)
		for i := range b {
			b[i] = next[g.r.Intn(len(next))]
		}
		return string(b)
	}
	return g.pick("a", "x", "Z", "text", "application", "i8", "u16x", "uid", "b") + part(0) + "/" + part(1)
}

func (g *c02Text) hexBytes() string {
	n := g.r.Intn(5)
	p := []string{}
	for i := 0; i < n; i++ {
		p = append(p, string([]byte{c02Hex[g.r.Intn(len(c02Hex))], c02Hex[g.r.Intn(len(c02Hex))]}))
	}
	s := ""
	for i, x := range p {
		if i > 0 {
			s += g.ws()
		}
		s += x
	}
	if g.bad && g.chance(8) {
		return g.pick(" ", "") + s + g.pick(" ", "0", "g", "012", "")
	}
	return s
}

func (g *c02Text) caseMix(s string) string {
	b := []byte(s)
	for i := range b {
		if g.chance(4) && b[i] >= 'a' && b[i] <= 'z' {
			b[i] -= 32
		}
	}
	return string(b)
}

func (g *c02Text) array() string {
	g.kinds["array"]++
	elems := func(f func() string) string {
		n := g.r.Intn(5)
		s := ""
		if g.chance(3) {
			s = g.ws()
		}
		for i := 0; i < n; i++ {
			if i > 0 {
				s += g.ws()
			}
			s += f()
		}
		if n > 0 && g.chance(3) {
			s += g.ws()
		}
		return s
	}
	small := func(neg bool, alphabet string, prefix string, maxLen int) func() string {
		return func() string {
			s := ""
			if neg && g.chance(3) {
				s = "-"
			}
			return s + prefix + g.digits(alphabet, 1+g.r.Intn(maxLen))
		}
	}
	w := g.pick("8", "16", "32", "64")
	switch g.r.Intn(9) {
	case 0, 1: // integers, implicit base
		k := g.pick("i", "u")
		return "@" + g.caseMix(k+w) + "[" + elems(func() string {
			switch g.r.Intn(5) {
			case 0:
				return small(k == "i", "01", g.pick("0b", "0B"), 10)()
			case 1:
				return small(k == "i", "01234567", g.pick("0o", "0O"), 6)()
			case 2:
				return small(k == "i", c02Hex, g.pick("0x", "0X"), 5)()
			default:
				return small(k == "i", "0123456789", "", 5)()
			}
		}) + "]"
	case 2: // integers, explicit base
		k := g.pick("i", "u")
		m := g.pick("b", "o", "x")
		alpha := map[string]string{"b": "01", "o": "01234567", "x": c02Hex}[m]
		return "@" + g.caseMix(k+w+m) + "[" + elems(small(k == "i", alpha, "", 6)) + "]"
	case 3, 4: // floats
		w := g.pick("16", "32", "64")
		hexMode := g.chance(2)
		hdr := "f" + w
		if hexMode {
			hdr += "x"
		}
		return "@" + g.caseMix(hdr) + "[" + elems(func() string {
			if g.chance(5) {
				return g.caseMix(g.pick("nan", "snan", "inf", "-inf"))
			}
			if hexMode {
				return g.floatLit(true, true)
			}
			return g.floatLit(false, true)
		}) + "]"
	case 5:
		return "@" + g.caseMix("uid") + "[" + elems(g.uid) + "]"
	case 6:
		return "@" + g.caseMix("b") + "[" + elems(func() string { return g.digits("01", 12) }) + "]"
	case 7:
		if g.chance(2) {
			return "@" + g.mediaType() + "[" + g.hexBytes() + "]"
		}
		return "@" + g.mediaType() + "\"" + g.stringBody()
	default:
		ct := g.pick("0", "1", "99", "010", "08", "0x10", "18446744073709551615", "18446744073709551616", strconv.Itoa(g.r.Intn(100000)))
		if g.chance(2) {
			return "@" + ct + "[" + g.hexBytes() + "]"
		}
		return "@" + ct + "\"" + g.stringBody()
	}
}

func (g *c02Text) scalar() string {
	switch g.r.Intn(16) {
	case 0:
		return g.caseMix(g.pick("null", "true", "false"))
	case 1:
		return g.caseMix(g.pick("inf", "-inf", "nan", "snan"))
	case 2, 3:
		return g.intLit(true)
	case 4, 5:
		return g.floatLit(false, false)
	case 6:
		return g.uid()
	case 7, 8:
		return g.timeLit()
	case 9, 10, 11:
		g.kinds["string"]++
		return "\"" + g.stringBody()
	case 12:
		g.kinds["rid"]++
		return g.pick("@\"", "$\"") + g.stringBody()
	case 13:
		g.kinds["reference"]++
		return "$" + g.ident()
	default:
		return g.array()
	}
}

func (g *c02Text) items(depth int, min, max int) string {
	n := min
	if max > min {
		n += g.r.Intn(max - min + 1)
	}
	s := g.optsep()
	for i := 0; i < n; i++ {
		if i > 0 {
			if g.bad && g.chance(25) {
				// no separator between two values
			} else {
				s += g.sep()
			}
		}
		s += g.value(depth + 1)
	}
	return s + g.optsep()
}

func (g *c02Text) value(depth int) string {
	if g.chance(12) {
		g.kinds["marker"]++
		return "&" + g.ident() + ":" + g.value(depth)
	}
	if depth >= 3 || !g.chance(3) {
		return g.scalar()
	}
	switch g.r.Intn(6) {
	case 0, 1:
		g.kinds["list"]++
		return "[" + g.items(depth, 0, 4) + "]"
	case 2:
		g.kinds["map"]++
		n := g.r.Intn(4)
		s := g.optsep()
		for i := 0; i < n; i++ {
			if i > 0 {
				s += g.sep()
			}
			s += g.value(depth+1) + g.optsep() + "=" + g.optsep() + g.value(depth+1)
		}
		if g.bad && g.chance(10) {
			s += g.sep() + g.value(depth+1)
		}
		return "{" + s + g.optsep() + "}"
	case 3:
		g.kinds["record"]++
		return "@" + g.ident() + "{" + g.items(depth, 0, 3) + "}"
	case 4:
		g.kinds["node"]++
		if g.bad && g.chance(10) {
			return "(" + g.optsep() + ")"
		}
		return "(" + g.items(depth, 1, 4) + ")"
	default:
		g.kinds["edge"]++
		if g.bad && g.chance(6) {
			return "@(" + g.items(depth, 0, 4) + ")"
		}
		return "@(" + g.items(depth, 3, 3) + ")"
	}
}

func (g *c02Text) document() string {
	s := g.pick("c0", "c0", "c0", "C0", "c1", "C1")
	if g.bad && g.chance(30) {
		s = g.pick("c2", "c", "c00", " c0", "c0c0", "\ufeffc0", "d0")
	}
	s += g.ws()
	for g.chance(4) {
		if g.chance(2) {
			g.kinds["recordtype"]++
			s += "@" + g.ident() + "<" + g.items(1, 0, 3) + ">"
			if !g.chance(4) {
				s += g.sep()
			}
		} else {
			s += g.sep()
		}
	}
	s += g.value(0)
	if g.chance(3) {
		s += g.ws()
	}
	if g.bad && g.chance(15) {
		s += g.pick(g.comment(), " 1", "]", "x")
	}
	return s
}

// c02Mutate: byte-level damage
func c02Mutate(r *rand.Rand, doc []byte) []byte {
	out := append([]byte{}, doc...)
	ins := []string{" ", "\n", "\"", "\\", "/", "*", "[", "]", "{", "}", "(", ")", "<", ">", "=", "@", "&", "$", ":", "-", ".", "_", "0", "1", "9", "a", "f", "x", "e", "p", "n", "\t", "\r", "#", "\xc3", "\xa9", "\xff", "\x00", "//", "/*", "*/", "c0", "null", "0x", "\\n", "\\.", "\\["}
	n := 1 + r.Intn(2)
	for i := 0; i < n; i++ {
		if len(out) == 0 {
			break
		}
		p := r.Intn(len(out))
		switch r.Intn(5) {
		case 0: // delete
			q := p + 1 + r.Intn(2)
			if q > len(out) {
				q = len(out)
			}
			out = append(out[:p], out[q:]...)
		case 1: // insert
			s := ins[r.Intn(len(ins))]
			out = append(out[:p], append([]byte(s), out[p:]...)...)
		case 2: // replace
			s := ins[r.Intn(len(ins))]
			out = append(out[:p], append([]byte(s), out[p+1:]...)...)
		case 3: // duplicate a piece
			q := p + 1 + r.Intn(4)
			if q > len(out) {
				q = len(out)
			}
			piece := append([]byte{}, out[p:q]...)
			out = append(out[:q], append(piece, out[q:]...)...)
		default: // truncate
			if p > 3 {
				out = out[:p]
			}
		}
	}
	return out
}

// ---------------------------------------------------------------------------
// correspondence

type c02Corr struct {
	c   *Ctx
	cf  *caseFile
	max int
}

func cOptEvs(es []Ev, err error) string {
	if err != nil {
		return "None"
	}
	return cSome(cEvs(es))
}

// a document and what the decoder (no validator) delivered
func (k *c02Corr) addDoc(doc []byte, what string) {
	evs, err := c02Decode(doc, false)
	k.c.Dist(fmt.Sprintf("corr/%s/ok=%v", what, err == nil))
	if k.cf.n >= k.max {
		return
	}
	k.cf.Add(cApp("CRDoc", cBytes(doc), cOptEvs(evs, err)), fmt.Sprintf("%s doc=%q ok=%v :: %s", what, doc, err == nil, evsString(evs)))
}

// a rules-valid stream with the encoder's text and the decoder's reading of it
func (k *c02Corr) addRound(es []Ev, text []byte, what string) {
	evs, err := c02Decode(text, false)
	same := err == nil && denString(denGo(evs)) == denString(denFilter(denGo(es), false, true))
	k.c.Dist(fmt.Sprintf("corr/%s/ok=%v/same=%v", what, err == nil, same))
	if k.cf.n >= k.max {
		return
	}
	k.cf.Add(cApp("CRRound", cEvs(es), cBytes(text), cOptEvs(evs, err), cBool(same)),
		fmt.Sprintf("%s text=%q ok=%v same=%v :: %s", what, text, err == nil, same, evsString(es)))
}

// ---------------------------------------------------------------------------
// directed streams

func c02Doc(body ...Ev) []Ev {
	return append(append([]Ev{{K: "bd"}, {K: "v", N: 0}}, body...), Ev{K: "ed"})
}
func c02List(items ...Ev) []Ev {
	return c02Doc(append(append([]Ev{{K: "l"}}, items...), Ev{K: "e"})...)
}

func c02Directed() map[string][]Ev {
	str := func(s string) Ev { return Ev{K: "a", A: 1, N: uint64(len(s)), Data: []byte(s)} }
	_ = str
	ints := []Ev{}
	for _, m := range boundaryMagnitudes {
		ints = append(ints, Ev{K: "pi", N: m}, Ev{K: "ni", N: m})
		if m <= math.MaxInt64 {
			ints = append(ints, Ev{K: "i", I: int64(m)}, Ev{K: "i", I: -int64(m)})
		}
		b := new(big.Int).SetUint64(m)
		ints = append(ints, Ev{K: "bi", Big: b}, Ev{K: "bi", Big: new(big.Int).Neg(b)}, Ev{K: "bi", Big: new(big.Int).Lsh(b, 64)})
	}
	floats := []Ev{}
	for _, b := range []uint64{0, 1 << 63, 1, 1<<52 - 1, 1 << 52, 0x7fefffffffffffff, 0x3ff0000000000000, 0xbff8000000000000, 0x3fb999999999999a, 0x7ff0000000000000, 0xfff0000000000000,
		0x7ff8000000000000, 0x7ff4000000000000, 0x4340000000000000, 0x43e0000000000000, 0xc3e0000000000000, 0x0010000000000000, 0x000fffffffffffff, 0x4059000000000000} {
		floats = append(floats, Ev{K: "fl", F: math.Float64frombits(b)})
	}
	comments := func(multi bool, texts ...string) []Ev {
		out := []Ev{}
		for _, t := range texts {
			out = append(out, Ev{K: "cm", B: multi, Data: []byte(t)}, Ev{K: "pi", N: 1})
		}
		return out
	}
	return map[string][]Ev{
		"integers":                 c02List(ints...),
		"floats":                   c02List(floats...),
		"comments-single":          c02List(comments(false, "", " ", "x", " a b ", "//", "/*", "*/", "\u00e9\u65e5\u672c", "\t", "a\tb", "\"", "\\n", "\u2028")...),
		"comments-multi":           c02List(comments(true, "", " ", "x", "*", "**", "/", "//", "* /", "/ *", "a*", "/a", "\u00e9\u65e5\u672c", "a\nb", "\n", "\r\n", "/**/", "a/*b*/c", "/*/**/*/")...),
		"comment-line-feed":        c02List(comments(false, "a\nb")...),
		"comment-line-feed-end":    c02List(comments(false, "a\n")...),
		"comment-carriage-return":  c02List(comments(false, "a\r")...),
		"comment-cr-inside":        c02List(comments(false, "a\rb")...),
		"comment-block-close":      c02List(comments(true, "x*/y")...),
		"comment-block-open":       c02List(comments(true, "x/*y")...),
		"comment-block-slash-end":  c02List(comments(true, "x/")...),
		"comment-block-star-start": c02List(comments(true, "/x")...),
		"comment-invalid-utf8":     c02List(comments(false, "a\xffb")...),
		"comment-invalid-utf8-m":   c02List(comments(true, "a\xc3")...),
		"comment-top":              c02Doc(Ev{K: "cm", Data: []byte("top")}, Ev{K: "cm", B: true, Data: []byte("top2")}, Ev{K: "pi", N: 1}),
		"comment-in-map": c02Doc(Ev{K: "m"}, Ev{K: "cm", Data: []byte("k")}, Ev{K: "pi", N: 1}, Ev{K: "cm", Data: []byte("v")}, Ev{K: "cm", B: true, Data: []byte("v2")}, Ev{K: "pi", N: 2},
			Ev{K: "cm", B: true, Data: []byte("e")}, Ev{K: "e"}),
		"comment-in-node":              c02Doc(Ev{K: "node"}, Ev{K: "cm", Data: []byte("k")}, Ev{K: "pi", N: 1}, Ev{K: "cm", Data: []byte("v")}, Ev{K: "pi", N: 2}, Ev{K: "cm", B: true, Data: []byte("w")}, Ev{K: "e"}),
		"comment-in-edge":              c02Doc(Ev{K: "edge"}, Ev{K: "cm", Data: []byte("k")}, Ev{K: "pi", N: 1}, Ev{K: "cm", B: true, Data: []byte("v")}, Ev{K: "pi", N: 2}, Ev{K: "pi", N: 3}, Ev{K: "cm", Data: []byte("x")}, Ev{K: "e"}),
		"comment-first-in-nested-node": c02Doc(Ev{K: "node"}, Ev{K: "node"}, Ev{K: "cm", Data: []byte("")}, Ev{K: "null"}, Ev{K: "e"}, Ev{K: "null"}, Ev{K: "e"}),
		"float-array-nan-payload":      c02List(Ev{K: "a", A: events.ArrayTypeFloat32, N: 2, Data: []byte{0, 0, 0x80, 0x3f, 1, 0, 0xc0, 0x7f}}),
		"float-array-negative-nan":     c02List(Ev{K: "a", A: events.ArrayTypeFloat64, N: 1, Data: []byte{0, 0, 0, 0, 0, 0, 0xfc, 0xff}}),
		"bigfloat-one":                 c02List(Ev{K: "bf", BF: new(big.Float).SetPrec(53).SetInt64(1)}, Ev{K: "bf", BF: new(big.Float).SetPrec(10).SetInt64(-1)}),
		"bigfloat-others":              c02List(Ev{K: "bf", BF: new(big.Float).SetPrec(53).SetInt64(2)}, Ev{K: "bf", BF: new(big.Float).SetPrec(100).SetFloat64(1.5)}, Ev{K: "bf", BF: new(big.Float).SetPrec(100).SetInt(new(big.Int).Add(bigPow2(80), big.NewInt(1)))}, Ev{K: "bf", BF: new(big.Float).SetPrec(64).SetMantExp(big.NewFloat(0.75), -3000)}),
		"bigdecimal-wide":              c02List(Ev{K: "bdf", BDF: apdOf(true, new(big.Int).Add(bigPow2(64), big.NewInt(5)), -7)}, Ev{K: "bdf", BDF: apdOf(false, bigPow2(63), 3)}),
		// the shapes of the structure theorem's fragment (Props/C02.v C02_example_hypotheses), one stream
		"fragment-example": c02Doc(
			Ev{K: "rt", Data: []byte("pt")}, Ev{K: "a", A: 1, N: 1, Data: []byte("x")}, Ev{K: "sa", A: 1, Data: []byte("y")}, Ev{K: "e"},
			Ev{K: "l"},
			Ev{K: "cm", Data: []byte("hi")},
			Ev{K: "rec", Data: []byte("pt")}, Ev{K: "pi", N: 1}, Ev{K: "ni", N: 2}, Ev{K: "e"},
			Ev{K: "node"}, Ev{K: "a", A: 1, N: 1, Data: []byte("n")}, Ev{K: "null"},
			Ev{K: "edge"}, Ev{K: "pi", N: 1}, Ev{K: "cm", B: true, Data: []byte("*x")}, Ev{K: "sa", A: 2, Data: []byte("h:x")}, Ev{K: "pi", N: 2}, Ev{K: "e"}, Ev{K: "e"},
			Ev{K: "mk", Data: []byte("m1")}, Ev{K: "l"}, Ev{K: "b", B: true}, Ev{K: "f"}, Ev{K: "e"},
			Ev{K: "ref", Data: []byte("m1")},
			Ev{K: "media", S: "a/b", Data: []byte{1, 255}},
			Ev{K: "cb", N: 7, Data: []byte{16}}, Ev{K: "ct", N: 7, Data: []byte("t\u00e9")},
			Ev{K: "a", A: events.ArrayTypeInt16, N: 5, Data: []byte{1, 0, 255, 255, 0, 128, 255, 127, 0, 0}},
			Ev{K: "a", A: events.ArrayTypeUint64, N: 1, Data: []byte{255, 255, 255, 255, 255, 255, 255, 255}},
			Ev{K: "a", A: events.ArrayTypeInt8, N: 0, Data: []byte{}},
			Ev{K: "m"},
			Ev{K: "a", A: 1, N: 12, Data: []byte("k\u00e9\n\"\u20ac\U0001F600")},
			Ev{K: "l"}, Ev{K: "null"}, Ev{K: "a", A: 3, N: 4, Data: []byte("h:\u00e9")}, Ev{K: "bi", Big: new(big.Int).Lsh(big.NewInt(1), 64)}, Ev{K: "ni", N: 0}, Ev{K: "i", I: -5},
			Ev{K: "l"}, Ev{K: "e"}, Ev{K: "m"}, Ev{K: "e"}, Ev{K: "e"},
			Ev{K: "cm", B: true, Data: []byte("*x")},
			Ev{K: "ni", N: 7}, Ev{K: "mk", Data: []byte("z")}, Ev{K: "sa", A: 1, Data: []byte("")},
			Ev{K: "e"}, Ev{K: "e"}),
		"comment-first-in-node-swallows": c02Doc(Ev{K: "edge"}, Ev{K: "cm", Data: []byte("")}, Ev{K: "cm", B: true, Data: []byte(">")},
			Ev{K: "node"}, Ev{K: "node"}, Ev{K: "cm", Data: []byte("")}, Ev{K: "cb", N: 2, Data: []byte{0x6c, 0x83}}, Ev{K: "e"}, Ev{K: "null"}, Ev{K: "e"},
			Ev{K: "pi", N: 1}, Ev{K: "pi", N: 2}, Ev{K: "e"}),
		"fragment-int-arrays": c02List(c02IntArrays()...),
		"fragment-bit-arrays": c02List(Ev{K: "a", A: events.ArrayTypeBit, N: 0, Data: []byte{}}, Ev{K: "a", A: events.ArrayTypeBit, N: 1, Data: []byte{1}},
			Ev{K: "a", A: events.ArrayTypeBit, N: 7, Data: []byte{0x55}}, Ev{K: "a", A: events.ArrayTypeBit, N: 8, Data: []byte{0x80}},
			Ev{K: "a", A: events.ArrayTypeBit, N: 10, Data: []byte{0x0d, 0x03}}, Ev{K: "a", A: events.ArrayTypeBit, N: 17, Data: []byte{0xff, 0x00, 0x01}}),
		"fragment-uid-values": c02List(Ev{K: "uid", Data: []byte{0x12, 0x34, 0x56, 0x7e, 0x12, 0x34, 0x56, 0x78, 0x9a, 0xbc, 0xde, 0xf0, 1, 2, 3, 4}},
			Ev{K: "uid", Data: []byte{0x0b, 0x11, 0x01, 0x01, 0, 0, 0, 0, 0, 0, 0, 0, 0, 0, 0, 0}},
			Ev{K: "uid", Data: []byte{0xfa, 0x15, 0xe0, 0x00, 0xab, 0xcd, 0xef, 0x01, 0x23, 0x45, 0x67, 0x89, 0xff, 0xff, 0xff, 0xff}},
			Ev{K: "uid", Data: []byte{0x20, 0x24, 0x01, 0x01, 0x12, 0x01, 0x10, 0x00, 0, 0, 0, 0, 0, 0, 0, 0}},
			Ev{K: "uid", Data: []byte{0x1e, 0x55, 0x55, 0x55, 0x1e, 0x10, 0x0e, 0x01, 0xe1, 0x23, 0x00, 0x0e, 0x00, 0x00, 0x00, 0x0e}},
			Ev{K: "uid", Data: bytes.Repeat([]byte{0}, 16)}, Ev{K: "uid", Data: bytes.Repeat([]byte{0xaa}, 16)}),
		"fragment-uid-arrays": c02List(Ev{K: "a", A: events.ArrayTypeUID, N: 0, Data: []byte{}},
			Ev{K: "a", A: events.ArrayTypeUID, N: 1, Data: bytes.Repeat([]byte{255}, 16)},
			Ev{K: "a", A: events.ArrayTypeUID, N: 3, Data: append(append(bytes.Repeat([]byte{0}, 16), []byte{0, 0x11, 0x22, 0x33, 0x44, 0x55, 0x66, 0x77, 0x88, 0x99, 0xaa, 0xbb, 0xcc, 0xdd, 0xee, 0xff}...),
				[]byte{0x0a, 0xa0, 0x09, 0x90, 0x10, 0x01, 0x9f, 0xf9, 0xab, 0xcd, 0xef, 0xfe, 0xdc, 0xba, 0x7f, 0x80}...)}),
		"fragment-node-positions": c02Doc(Ev{K: "node"}, Ev{K: "pi", N: 1}, Ev{K: "node"}, Ev{K: "pi", N: 2}, Ev{K: "e"},
			Ev{K: "l"}, Ev{K: "node"}, Ev{K: "null"}, Ev{K: "e"}, Ev{K: "e"}, Ev{K: "e"}),
		"fragment-media-custom": c02List(Ev{K: "media", S: "application/x-sh", Data: []byte{}}, Ev{K: "media", S: "a{}/b!#$", Data: []byte{0, 16, 255, 170}},
			Ev{K: "cb", N: 0, Data: []byte{}}, Ev{K: "cb", N: 1<<32 - 1, Data: []byte{9, 10}}, Ev{K: "ct", N: 0, Data: []byte("")}, Ev{K: "ct", N: 99, Data: []byte("a\"\\\n")}),
		"comment-after-marker": c02Doc(Ev{K: "mk", Data: []byte("a")}, Ev{K: "cm", Data: []byte("k")}, Ev{K: "pi", N: 1}),
		"padding":              c02Doc(Ev{K: "pad"}, Ev{K: "l"}, Ev{K: "pad"}, Ev{K: "pi", N: 1}, Ev{K: "pad"}, Ev{K: "pad"}, Ev{K: "e"}),
		"empty-containers":     c02List(Ev{K: "l"}, Ev{K: "e"}, Ev{K: "m"}, Ev{K: "e"}, Ev{K: "node"}, Ev{K: "null"}, Ev{K: "e"}),
		"specials": c02List(Ev{K: "nan", B: true}, Ev{K: "nan"}, Ev{K: "null"}, Ev{K: "t"}, Ev{K: "f"}, Ev{K: "b", B: true}, Ev{K: "bi"}, Ev{K: "bf"}, Ev{K: "bdf"},
			Ev{K: "uid", Data: []byte{0, 1, 2, 3, 4, 5, 6, 7, 8, 9, 10, 11, 12, 13, 14, 255}}),
	}
}

// what the decoder (no validator) makes of a document: the events, or "error"
func c02ReadString(doc []byte) string {
	evs, err := c02Decode(doc, false)
	if err != nil {
		return "error"
	}
	return evsString(evs)
}

type c02DDoc struct{ doc, want, key string }

// the witnesses of the reader defects repaired in /repo (601f9e0, 6b24587, 9d7e9c8) with the repaired reading;
// want "" = correspondence case only
func c02DirectedDocs() []c02DDoc {
	lz := "C02/reader/decimal-leading-zero"
	cp := "C02/reader/codepoint-not-scalar"
	return []c02DDoc{
		{"c0 010", "bd v:0 i:10 ed", lz}, {"c0 -010", "bd v:0 i:-10 ed", lz}, {"c0 08", "bd v:0 i:8 ed", lz}, {"c0 09", "bd v:0 i:9 ed", lz},
		{"c0 0_8", "bd v:0 i:8 ed", lz}, {"c0 0_10", "bd v:0 i:10 ed", lz}, {"c0 -0_10", "bd v:0 i:-10 ed", lz},
		{"c0 00", "bd v:0 i:0 ed", lz}, {"c0 -00", "bd v:0 ni:0 ed", lz}, {"c0 0007", "bd v:0 i:7 ed", lz},
		{"c0 01__20_105", "bd v:0 i:120105 ed", lz}, {"c0 0o10", "bd v:0 i:8 ed", lz}, {"c0 0x10", "bd v:0 i:16 ed", lz}, {"c0 0b10", "bd v:0 i:2 ed", lz},
		{"c0 00018446744073709551616", "bd v:0 bi:18446744073709551616 ed", lz},
		{"c0 @i8[010]", "bd v:0 a:11:1:0a ed", lz},
		{"c0 @u32[0008]", "bd v:0 a:9:1:08000000 ed", lz},
		{"c0 @i16[-010 0x10 0o10 0b10 09]", "bd v:0 a:12:5:f6ff1000080002000900 ed", lz},
		{"c0 @u8[0_10]", "bd v:0 a:7:1:0a ed", lz}, {"c0 @u8[00_8]", "bd v:0 a:7:1:08 ed", lz}, {"c0 @i8[-0_8]", "bd v:0 a:11:1:f8 ed", lz},
		{"c0 @i16[-0__0_10 0_x10]", "error", lz},
		{"c0 @08[fa 9c]", "bd v:0 cb:8:fa9c ed", lz}, {"c0 @010[01]", "bd v:0 cb:10:01 ed", lz}, {"c0 @09\"a\"", "bd v:0 ct:9:61 ed", lz},
		{"c0 \"\\[d800]\"", "error", cp}, {"c0 \"\\[dfff]\"", "error", cp}, {"c0 \"\\[110000]\"", "error", cp}, {"c0 \"\\[ffffffff]\"", "error", cp},
		{"c0 \"\\[d7ff]\\[e000]\\[10ffff]\"", "bd v:0 a:1:10:ed9fbfee8080f48fbfbf ed", cp},
	}
}

// every integer array type with its boundary elements, and empty
func c02IntArrays() []Ev {
	out := []Ev{}
	for _, t := range []events.ArrayType{events.ArrayTypeUint8, events.ArrayTypeUint16, events.ArrayTypeUint32, events.ArrayTypeUint64,
		events.ArrayTypeInt8, events.ArrayTypeInt16, events.ArrayTypeInt32, events.ArrayTypeInt64} {
		w := t.ElementSize() / 8
		vals := [][]byte{bytes.Repeat([]byte{0}, w), bytes.Repeat([]byte{255}, w), append(bytes.Repeat([]byte{0}, w-1), 128), append(bytes.Repeat([]byte{255}, w-1), 127),
			append([]byte{1}, bytes.Repeat([]byte{0}, w-1)...)}
		data := []byte{}
		for _, v := range vals {
			data = append(data, v...)
		}
		out = append(out, Ev{K: "a", A: t, N: uint64(len(vals)), Data: data}, Ev{K: "a", A: t, N: 0, Data: []byte{}}, Ev{K: "a", A: t, N: 1, Data: vals[1]})
	}
	return out
}

// strings made of every interesting code point: each class boundary of the three generated tables and of the
// encoder's safety table is hit because the code points come from the interval ends
func c02BoundaryRunes() []rune {
	cl := c02GetClasses()
	seen := map[rune]bool{}
	out := []rune{}
	add := func(r rune) {
		if r < 0 || r > 0x10ffff || (r >= 0xd800 && r <= 0xdfff) || seen[r] {
			return
		}
		seen[r] = true
		out = append(out, r)
	}
	for r := rune(0); r < 0x100; r++ {
		add(r)
	}
	for _, iv := range [][][2]rune{cl.quoted, cl.ident, cl.sentinel} {
		for _, x := range iv {
			add(x[0] - 1)
			add(x[0])
			add(x[1])
			add(x[1] + 1)
		}
	}
	return out
}

func c02TimeEvents(r *rand.Rand, n int) []Ev {
	out := []Ev{}
	g := NewEvGen(r, DefaultGenOpts())
	for i := 0; i < n; i++ {
		out = append(out, Ev{K: "tm", T: g.time()})
	}
	return out
}

// ---------------------------------------------------------------------------

func runC02(c *Ctx) {
	c.Rep.Rule = "oracle (ce.NewRules -> ce.NewCTEEncoder -> text -> ce.NewCTEDecoder -> ce.NewRules -> recorder, denotations equal up to padding): rules-valid streams from the tree generator with every option on (comments, padding, markers/references, records, edges, nodes, media, custom binary and text, big numbers, times with every zone form, chunked arrays, Unicode text; multi-line comments made representable), the same with inexact big floats, directed streams (integer and float edges, comments with every delimiter-like content, one stream per known finding), strings / resource ids / custom text / comments / identifiers over every code point at a class boundary of the lexer's three tables (read off the generated lexer) and every code point below U+0100, every latitude and every longitude hundredth (thorough; every 37th in quick), random times; model assumption: the float computation of coordinate hundredths is exact on all 222,000 coordinate texts the grammar allows. correspondence (decoder without validator, exact events): encoder text of those streams together with the encoder model's text and the denotation comparison, directed documents for the reader conversions repaired in /repo (decimal leading zeros in values, array elements and custom type codes; code point escapes that are not scalar values; their expected reading is also an oracle check), grammar-driven documents using every spelling of CTELexer.g4 / CTEParser.g4 (a quarter of them deliberately damaged), single scalars, byte mutations of both; non-trivial = a stream of more than 4 events or a document the decoder accepts with more than 4 events; distinct by event text / document text"

	k := &c02Corr{c: c, cf: c.Cases("cteread", "CE.Model.CteRead", "cteread_case", "cteread_case_ok"), max: c.Pick(1900, 24000)}
	k.cf.perFile = 250
	texts := [][]byte{}

	// ---- 1. generated rules-valid streams
	g := NewEvGen(c.Rng, DefaultGenOpts())
	n := c.Pick(500, 10000)
	for i := 0; i < n; i++ {
		es := c02RepresentableComments(g.Document())
		text, _ := c02Check(c, es, "generated")
		if i < 2 {
			c.Sample(map[string]string{"events": evsString(es), "text": string(text)})
		}
		if text != nil && i < c.Pick(250, 3000) {
			k.addRound(es, text, "round-generated")
			texts = append(texts, text)
		}
	}
	o := DefaultGenOpts()
	o.NonFloat64BigFloats = true
	gb := NewEvGen(c.Rng, o)
	for i := 0; i < c.Pick(60, 1000); i++ {
		c02Check(c, c02RepresentableComments(gb.Document()), "generated-bigfloat")
	}

	// ---- 2. directed streams
	dir := c02Directed()
	for _, name := range sortedStringKeys(dir) {
		es := dir[name]
		text, _ := c02Check(c, es, "directed-"+name)
		if text != nil {
			k.addRound(es, text, "round-directed")
			texts = append(texts, text)
		}
	}

	// ---- 2b. directed documents: the reader's conversions repaired in /repo (601f9e0 and 6b24587: decimal integers with leading
	// zeros, in values, in implicit-base array elements and in custom type codes; 9d7e9c8: code point escapes that
	// are not scalar values).  Each is a correspondence case, and the expected reading is checked here so that a
	// regression of the implementation is a failure of its own key.
	for _, d := range c02DirectedDocs() {
		doc := []byte(d.doc)
		k.addDoc(doc, "directed-doc")
		got := c02ReadString(doc)
		c.Count("ddoc|"+d.doc, true)
		if d.want != "" && got != d.want {
			c.Fail(Replay{Kind: "reader", Key: d.key, Input: map[string]string{"document": d.doc}, Expect: d.want, Got: got})
		}
	}

	// ---- 3. every class-boundary code point in a string, a resource id, custom text, a comment, an identifier
	runesB := c02BoundaryRunes()
	cl := c02GetClasses()
	c.Rep.Extra["boundary_code_points"] = len(runesB)
	step := c.Pick(40, 8)
	for i := 0; i < len(runesB); i += step {
		j := i + step
		if j > len(runesB) {
			j = len(runesB)
		}
		chunk := string(runesB[i:j])
		body := []Ev{{K: "a", A: 1, N: uint64(len(chunk)), Data: []byte(chunk)}, {K: "sa", A: 2, Data: []byte("x:" + chunk)}, {K: "ct", N: 7, Data: []byte(chunk)}}
		es := c02List(body...)
		text, _ := c02Check(c, es, "codepoints-string")
		if text != nil && i%(step*c.Pick(8, 2)) == 0 {
			k.addRound(es, text, "round-codepoints")
		}
		// comments: neither line feed nor the block delimiters
		ctext := strings.NewReplacer("\n", "", "\r", "", "*", "", "/", "").Replace(chunk)
		c02Check(c, c02List(Ev{K: "cm", Data: []byte(ctext)}, Ev{K: "cm", B: true, Data: []byte(ctext)}, Ev{K: "null"}), "codepoints-comment")
	}
	// identifiers: every boundary code point in a marker / reference / record type name; the validator decides
	// which of them are identifiers (streams it rejects are outside the property)
	lastID := []Ev{}
	for _, r := range runesB {
		id := "i" + string(r)
		es := c02Doc(Ev{K: "rt", Data: []byte(id)}, Ev{K: "e"}, Ev{K: "l"}, Ev{K: "mk", Data: []byte(id)}, Ev{K: "null"}, Ev{K: "ref", Data: []byte(id)},
			Ev{K: "rec", Data: []byte(id)}, Ev{K: "e"}, Ev{K: "e"})
		if text, fine := c02Check(c, es, "codepoints-identifier"); fine && text != nil && c02InClass(cl.ident, r) && r > 0x2000 {
			lastID = es
		}
	}
	if len(lastID) > 0 {
		if text, _, _ := c02Encode(lastID); text != nil {
			k.addRound(lastID, text, "round-codepoints")
		}
	}

	// ---- 4. times: every latitude / longitude hundredth, random times
	stepLL := c.Pick(37, 1)
	for la := -9000; la <= 9000; la += stepLL {
		es := c02List(Ev{K: "tm", T: compact_time.NewTime(1, 2, 3, 0, compact_time.TZAtLatLong(la, (la*2)%18001))})
		c02Check(c, es, "latlong")
	}
	for lo := -18000; lo <= 18000; lo += stepLL {
		es := c02List(Ev{K: "tm", T: compact_time.NewTimestamp(2000, 1, 1, 1, 2, 3, 5000, compact_time.TZAtLatLong(lo/2, lo))})
		c02Check(c, es, "latlong")
	}
	for i := 0; i < c.Pick(10, 100); i++ {
		es := c02List(c02TimeEvents(c.Rng, 20)...)
		text, _ := c02Check(c, es, "times")
		if text != nil && i < c.Pick(5, 30) {
			k.addRound(es, text, "round-times")
		}
	}
	// the model computes a coordinate's hundredths exactly; the code goes through ParseFloat, *100, Round
	bad := 0
	for ip := 0; ip <= 999; ip++ {
		for fr := -1; fr <= 109; fr++ {
			s, want := strconv.Itoa(ip), ip*100
			switch {
			case fr >= 100:
				s += fmt.Sprintf(".%d", fr-100)
				want += (fr - 100) * 10
			case fr >= 0:
				s += fmt.Sprintf(".%02d", fr)
				want += fr
			}
			for _, neg := range []bool{false, true} {
				t, w := s, want
				if neg {
					t, w = "-"+s, -want
				}
				f, err := strconv.ParseFloat(t, 64)
				if err != nil || int(math.Round(f*100)) != w {
					bad++
				}
			}
		}
	}
	c.Rep.Extra["coordinate_texts_checked"] = 1000 * 111 * 2
	c.Rep.Extra["coordinate_texts_not_exact"] = bad
	if bad > 0 {
		c.Fail(Replay{Kind: "assumption", Key: "C02/model-assumption/coordinate-hundredths", Input: map[string]string{}, Expect: "0", Got: fmt.Sprint(bad)})
	}

	// ---- 5. grammar-driven documents
	tg := &c02Text{r: c.Rng, kinds: map[string]int{}}
	gdocs := [][]byte{}
	for i := 0; i < c.Pick(700, 9000); i++ {
		tg.bad = i%4 == 3
		doc := []byte(tg.document())
		evs, err := c02Decode(doc, false)
		c.Count("doc|"+string(doc), err == nil && len(evs) > 4)
		what := "grammar"
		if tg.bad {
			what = "grammar-damaged"
		}
		k.addDoc(doc, what)
		gdocs = append(gdocs, doc)
		if i < 3 {
			c.Sample(map[string]string{"document": string(doc), "decoded": evsString(evs), "error": fmt.Sprint(err)})
		}
	}
	// single scalars, so that a rejected neighbour does not hide them
	for i := 0; i < c.Pick(250, 4000); i++ {
		tg.bad = false
		doc := []byte("c0 " + tg.scalar())
		k.addDoc(doc, "grammar-scalar")
	}
	for kind, v := range tg.kinds {
		c.Rep.Distribution["text-kind:"+kind] += v
	}

	// ---- 6. mutated text
	for i := 0; i < c.Pick(650, 9000); i++ {
		var base []byte
		if i%2 == 0 && len(texts) > 0 {
			base = texts[c.Rng.Intn(len(texts))]
		} else {
			base = gdocs[c.Rng.Intn(len(gdocs))]
		}
		if len(base) > 400 {
			continue
		}
		k.addDoc(c02Mutate(c.Rng, base), "mutated")
	}

	for kind, v := range g.Kinds {
		c.Rep.Distribution["kind:"+kind] += v
	}
}

func sortedStringKeys(m map[string][]Ev) []string {
	ks := []string{}
	for k := range m {
		ks = append(ks, k)
	}
	sortStrings(ks)
	return ks
}

func replayC02(r *Replay) (bool, string) {
	if r.Kind == "assumption" {
		return false, "model assumption check; re-run the check"
	}
	if r.Kind == "reader" {
		got := c02ReadString([]byte(r.Input["document"]))
		return got == r.Expect, fmt.Sprintf("document %q: expected %q, got %q", r.Input["document"], r.Expect, got)
	}
	var es []Ev
	var err error
	if g := r.Input["events_gob"]; g != "" {
		es, err = evsFromGob(g)
	} else {
		es, err = parseEvs(r.Input["events"])
	}
	if err != nil {
		return false, "cannot replay: " + err.Error()
	}
	valid, ok, stage, want, got, text := c02Oracle(es)
	if !valid {
		return true, "the validator does not accept this stream; it is outside the property"
	}
	return ok, fmt.Sprintf("text %q: stage %s: expected denotation %q, got %q", text, stage, want, got)
}
