package main

// C28 — stream decoding does not depend on how the reader delivers bytes.
//
// Search oracle: every entry point that takes an io.Reader, on generated valid
// and invalid documents, through readers that split the data in every way the
// io.Reader contract allows, must give the result of the in-memory entry point.
// Correspondence: what the CBE decoder delivers through a scripted reader
// (events + error-or-not) is compared with CE.Model.ReaderSplit.

import (
	"bufio"
	"bytes"
	"encoding/hex"
	"encoding/json"
	"fmt"
	"io"
	"math"
	"math/big"
	"math/rand"
	"os"
	"os/exec"
	"reflect"
	"sort"
	"strconv"
	"strings"
	"syscall"
	"testing/iotest"
	"time"

	"github.com/cockroachdb/apd/v2"
	compact_time "github.com/kstenerud/go-compact-time"
	"github.com/kstenerud/go-concise-encoding/ce"
	"github.com/kstenerud/go-concise-encoding/configuration"
)

func init() {
	register("C28", runC28, replayC28)
	if os.Getenv(c28WorkerEnv) == "1" {
		c28WorkerMain()
		os.Exit(0)
	}
}

// ---------------------------------------------------------------------------
// Scripted reader: the list of responses it will give (same semantics as
// CE.Model.ReaderSplit.rd_script).

type c28Resp struct {
	data []byte
	eof  bool
}

type c28ScriptReader struct {
	sc        []c28Resp
	delivered []byte
}

func newC28ScriptReader(sc []c28Resp) *c28ScriptReader {
	cp := make([]c28Resp, len(sc))
	copy(cp, sc)
	return &c28ScriptReader{sc: cp}
}

func (r *c28ScriptReader) Read(p []byte) (int, error) {
	if len(p) == 0 {
		return 0, nil
	}
	if len(r.sc) == 0 {
		return 0, io.EOF
	}
	h := r.sc[0]
	if len(h.data) <= len(p) {
		n := copy(p, h.data)
		r.delivered = append(r.delivered, h.data...)
		r.sc = r.sc[1:]
		if h.eof {
			return n, io.EOF
		}
		return n, nil
	}
	n := copy(p, h.data[:len(p)])
	r.delivered = append(r.delivered, h.data[:n]...)
	r.sc[0] = c28Resp{data: h.data[n:], eof: h.eof}
	return n, nil
}

// script text form: sizes separated by commas, 'e' suffix = io.EOF with that response. "3,0,2e"
func c28ScriptString(sc []c28Resp) string {
	parts := make([]string, len(sc))
	for i, r := range sc {
		parts[i] = strconv.Itoa(len(r.data))
		if r.eof {
			parts[i] += "e"
		}
	}
	return strings.Join(parts, ",")
}

func c28ParseScript(s string, doc []byte) ([]c28Resp, bool) {
	sc := []c28Resp{}
	if s == "" {
		return sc, len(doc) == 0
	}
	pos := 0
	for _, p := range strings.Split(s, ",") {
		eof := strings.HasSuffix(p, "e")
		n, err := strconv.Atoi(strings.TrimSuffix(p, "e"))
		if err != nil || n < 0 || pos+n > len(doc) {
			return nil, false
		}
		sc = append(sc, c28Resp{data: doc[pos : pos+n], eof: eof})
		pos += n
	}
	return sc, pos == len(doc)
}

func c28CoqScript(sc []c28Resp) string {
	items := make([]string, len(sc))
	for i, r := range sc {
		items[i] = cPair(cBytes(r.data), cBool(r.eof))
	}
	return cList(items)
}

func c28HasZero(sc []c28Resp) bool {
	for _, r := range sc {
		if len(r.data) == 0 && !r.eof {
			return true
		}
	}
	return false
}

func c28HasDataEOF(sc []c28Resp) bool {
	for _, r := range sc {
		if len(r.data) > 0 && r.eof {
			return true
		}
	}
	return false
}

// Script patterns. Every script delivers exactly doc and carries io.EOF on
// the last response at most; runs of (0, nil) are at most two long.
var c28Patterns = []string{"whole", "whole+eof0", "onebyte", "random", "random+eof0", "zeros", "onebyte+zeros", "dataeof", "onebyte+dataeof", "zeros+dataeof", "whole+dataeof", "big", "head8+dataeof"}

func c28Chunks(rng *rand.Rand, doc []byte, maxChunk int) []c28Resp {
	sc := []c28Resp{}
	for pos := 0; pos < len(doc); {
		n := 1 + rng.Intn(maxChunk)
		if pos+n > len(doc) {
			n = len(doc) - pos
		}
		sc = append(sc, c28Resp{data: doc[pos : pos+n]})
		pos += n
	}
	return sc
}

func c28AddZeros(rng *rand.Rand, sc []c28Resp, oneIn int) []c28Resp {
	out := []c28Resp{}
	for _, r := range sc {
		if rng.Intn(oneIn) == 0 {
			out = append(out, c28Resp{})
			if rng.Intn(4) == 0 {
				out = append(out, c28Resp{})
			}
		}
		out = append(out, r)
	}
	if rng.Intn(oneIn) == 0 {
		out = append(out, c28Resp{})
	}
	return out
}

func c28MakeScript(rng *rand.Rand, pattern string, doc []byte) []c28Resp {
	var sc []c28Resp
	base := pattern
	if i := strings.Index(pattern, "+"); i >= 0 {
		base = pattern[:i]
	}
	switch base {
	case "whole":
		if len(doc) > 0 {
			sc = []c28Resp{{data: doc}}
		}
	case "onebyte":
		sc = c28Chunks(rng, doc, 1)
	case "random":
		sc = c28Chunks(rng, doc, 1+rng.Intn(9))
	case "big":
		sc = c28Chunks(rng, doc, 3000+rng.Intn(6000))
	case "head8":
		// a short first response, everything else in one response (with "+dataeof": together with io.EOF).
		// Behind bufio this makes a single large read meet the end of the data.
		if len(doc) > 8 {
			sc = []c28Resp{{data: doc[:8]}, {data: doc[8:]}}
		} else if len(doc) > 0 {
			sc = []c28Resp{{data: doc}}
		}
	case "zeros":
		sc = c28AddZeros(rng, c28Chunks(rng, doc, 1+rng.Intn(5)), 3)
	case "dataeof":
		sc = c28Chunks(rng, doc, 1+rng.Intn(9))
		pattern += "+dataeof"
	}
	if strings.Contains(pattern, "+zeros") {
		sc = c28AddZeros(rng, sc, 3)
	}
	if strings.Contains(pattern, "+dataeof") {
		// the last data-carrying response also carries io.EOF; it must be the last response
		for len(sc) > 0 && len(sc[len(sc)-1].data) == 0 {
			sc = sc[:len(sc)-1]
		}
		if len(sc) > 0 {
			sc[len(sc)-1].eof = true
		}
	}
	if strings.Contains(pattern, "+eof0") {
		sc = append(sc, c28Resp{eof: true})
	}
	return sc
}

// ---------------------------------------------------------------------------
// Readers used by the oracle: scripted, or testing/iotest wrappers.

type c28ReaderSpec struct {
	kind    string // "script" or an iotest name
	pattern string
	sc      []c28Resp
}

func (s c28ReaderSpec) make(doc []byte) io.Reader {
	switch s.kind {
	case "script":
		return newC28ScriptReader(s.sc)
	case "iotest.OneByte":
		return iotest.OneByteReader(bytes.NewReader(doc))
	case "iotest.Half":
		return iotest.HalfReader(bytes.NewReader(doc))
	case "iotest.DataErr":
		return iotest.DataErrReader(bytes.NewReader(doc))
	case "iotest.DataErr+OneByte":
		return iotest.DataErrReader(iotest.OneByteReader(bytes.NewReader(doc)))
	}
	panic("bad reader kind " + s.kind)
}

// the delivery feature that names the failure class
func (s c28ReaderSpec) feature() string {
	switch s.kind {
	case "script":
		z, d := c28HasZero(s.sc), c28HasDataEOF(s.sc)
		switch {
		case z && d:
			return "zero-read+data-eof"
		case z:
			return "zero-read"
		case d:
			return "data-eof"
		}
		return "clean"
	case "iotest.DataErr", "iotest.DataErr+OneByte":
		return "data-eof"
	}
	return "clean"
}

func (s c28ReaderSpec) describe() string {
	if s.kind == "script" {
		return "script:" + c28ScriptString(s.sc)
	}
	return s.kind
}

var c28IotestKinds = []string{"iotest.OneByte", "iotest.Half", "iotest.DataErr", "iotest.DataErr+OneByte"}

// ---------------------------------------------------------------------------
// Canonical rendering of unmarshalled values (map order independent).

func c28Canon(v reflect.Value, depth int) string {
	if !v.IsValid() {
		return "nil"
	}
	if depth > 40 {
		return "<deep>"
	}
	if v.CanInterface() {
		switch x := v.Interface().(type) {
		case *big.Int:
			if x == nil {
				return "bigint(nil)"
			}
			return "bigint(" + x.String() + ")"
		case *big.Float:
			if x == nil {
				return "bigfloat(nil)"
			}
			return fmt.Sprintf("bigfloat(%s/p%d)", x.Text('p', 0), x.Prec())
		case *apd.Decimal:
			if x == nil {
				return "apd(nil)"
			}
			return fmt.Sprintf("apd(%d,%v,%s,%d)", x.Form, x.Negative, x.Coeff.String(), x.Exponent)
		case compact_time.Time:
			return "time(" + x.String() + ")"
		case *compact_time.Time:
			if x == nil {
				return "time(nil)"
			}
			return "&time(" + x.String() + ")"
		}
	}
	switch v.Kind() {
	case reflect.Interface, reflect.Ptr:
		if v.IsNil() {
			return "nil"
		}
		if v.Kind() == reflect.Ptr {
			return "&" + c28Canon(v.Elem(), depth+1)
		}
		return c28Canon(v.Elem(), depth+1)
	case reflect.Map:
		if v.IsNil() {
			return "map(nil)"
		}
		items := []string{}
		for it := v.MapRange(); it.Next(); {
			items = append(items, c28Canon(it.Key(), depth+1)+"="+c28Canon(it.Value(), depth+1))
		}
		sort.Strings(items)
		return v.Type().String() + "{" + strings.Join(items, ", ") + "}"
	case reflect.Slice:
		if v.IsNil() {
			return v.Type().String() + "(nil)"
		}
		fallthrough
	case reflect.Array:
		if v.Type().Elem().Kind() == reflect.Uint8 {
			b := make([]byte, v.Len())
			for i := range b {
				b[i] = byte(v.Index(i).Uint())
			}
			return v.Type().String() + "<" + hex.EncodeToString(b) + ">"
		}
		items := make([]string, v.Len())
		for i := range items {
			items[i] = c28Canon(v.Index(i), depth+1)
		}
		return v.Type().String() + "[" + strings.Join(items, ", ") + "]"
	case reflect.Struct:
		items := make([]string, v.NumField())
		for i := range items {
			items[i] = v.Type().Field(i).Name + ":" + c28Canon(v.Field(i), depth+1)
		}
		return v.Type().String() + "{" + strings.Join(items, ", ") + "}"
	case reflect.Float32, reflect.Float64:
		return fmt.Sprintf("%s(%016x)", v.Type().String(), math.Float64bits(v.Float()))
	case reflect.String:
		return fmt.Sprintf("%s(%q)", v.Type().String(), v.String())
	case reflect.Bool:
		return fmt.Sprintf("%v", v.Bool())
	case reflect.Int, reflect.Int8, reflect.Int16, reflect.Int32, reflect.Int64:
		return fmt.Sprintf("%s(%d)", v.Type().String(), v.Int())
	case reflect.Uint, reflect.Uint8, reflect.Uint16, reflect.Uint32, reflect.Uint64, reflect.Uintptr:
		return fmt.Sprintf("%s(%d)", v.Type().String(), v.Uint())
	case reflect.Complex64, reflect.Complex128:
		return fmt.Sprintf("%v", v.Complex())
	}
	return "<" + v.Kind().String() + ">"
}

func c28Render(v interface{}, err error) string {
	s := c28Canon(reflect.ValueOf(v), 0)
	if err != nil {
		return "err|" + s
	}
	return "ok|" + s
}

// ---------------------------------------------------------------------------
// Entry points. family: cbe, cte, ce. entry: unmarshal, decode.

func c28Config(maxdoc uint64) *configuration.Configuration {
	cfg := configuration.New()
	if maxdoc != 0 {
		cfg.Rules.MaxDocumentSizeBytes = maxdoc
	}
	return cfg
}

// c28Call runs one entry point; r == nil means the in-memory variant.
func c28Call(family, entry string, doc []byte, r io.Reader, maxdoc uint64) (res string) {
	defer func() {
		if p := recover(); p != nil {
			res = "panic"
		}
	}()
	cfg := c28Config(maxdoc)
	switch entry {
	case "unmarshal":
		var v interface{}
		var err error
		switch family {
		case "cbe":
			if r == nil {
				v, err = ce.UnmarshalFromCBEDocument(doc, nil, cfg)
			} else {
				v, err = ce.UnmarshalCBE(r, nil, cfg)
			}
		case "cte":
			if r == nil {
				v, err = ce.UnmarshalFromCTEDocument(doc, nil, cfg)
			} else {
				v, err = ce.UnmarshalCTE(r, nil, cfg)
			}
		default:
			if r == nil {
				v, err = ce.UnmarshalFromCEDocument(doc, nil, cfg)
			} else {
				v, err = ce.UnmarshalCE(r, nil, cfg)
			}
		}
		return c28Render(v, err)
	case "decode":
		rec := &Recorder{}
		var d ce.Decoder
		switch family {
		case "cbe":
			d = ce.NewCBEDecoder(cfg)
		case "cte":
			d = ce.NewCTEDecoder(cfg)
		default:
			d = ce.NewCEDecoder(cfg)
		}
		var err error
		if r == nil {
			err = d.DecodeDocument(doc, rec)
		} else {
			err = d.Decode(r, rec)
		}
		if err != nil {
			return "err|" + evsString(rec.Evs)
		}
		return "ok|" + evsString(rec.Evs)
	}
	panic("bad entry")
}

// ---------------------------------------------------------------------------
// Worker process.  Every call into the library runs in a child process (this
// same binary with VH_C28_WORKER=1) under an address-space limit, because
//   - a length field read from garbage (which the defects under test produce)
//     makes the CBE reader allocate twice that many bytes before reading
//     (expandBufferTo; subject of C08), and an allocation failure is fatal in Go;
//   - a call that never returns (as builder.Context.ArtificiallyTerminate did
//     before 5799b55) cannot be stopped inside the process: a goroutine cannot
//     be killed.
// The parent kills the worker on a timeout ("hang") and notes its death
// ("crash"); both are outcomes that are compared like any other.

const c28WorkerEnv = "VH_C28_WORKER"
const c28Watchdog = 8 * time.Second
const c28WorkerMemory = 4 << 30

type c28Request struct {
	Op     string `json:"op"` // call | scripted | ctecopy
	Family string `json:"family,omitempty"`
	Entry  string `json:"entry,omitempty"`
	DocHex string `json:"doc"`
	Reader string `json:"reader,omitempty"` // "" = in memory, "script", or an iotest name
	Script string `json:"script,omitempty"`
	Maxdoc uint64 `json:"maxdoc,omitempty"`
	Univ   bool   `json:"univ,omitempty"`
}

type c28Answer struct {
	Res       string `json:"res,omitempty"`
	Coq       string `json:"coq,omitempty"`
	Evs       string `json:"evs,omitempty"`
	Failed    bool   `json:"failed,omitempty"`
	Delivered string `json:"delivered,omitempty"`
	Bad       string `json:"bad,omitempty"`
}

func c28Handle(rq *c28Request) (a c28Answer) {
	doc, err := hex.DecodeString(rq.DocHex)
	if err != nil {
		return c28Answer{Bad: "doc"}
	}
	var sc []c28Resp
	if rq.Reader == "script" || rq.Op != "call" {
		var ok bool
		if sc, ok = c28ParseScript(rq.Script, doc); !ok {
			return c28Answer{Bad: "script"}
		}
	}
	switch rq.Op {
	case "call":
		var r io.Reader
		if rq.Reader != "" {
			r = c28ReaderSpec{kind: rq.Reader, sc: sc}.make(doc)
		}
		return c28Answer{Res: c28Call(rq.Family, rq.Entry, doc, r, rq.Maxdoc)}
	case "scripted":
		evs, failed, _ := c28DecodeScripted(rq.Univ, sc, rq.Maxdoc)
		return c28Answer{Coq: c28CoqToks(evs), Evs: clip(evsString(evs)), Failed: failed}
	case "ctecopy":
		rd := newC28ScriptReader(sc)
		func() {
			defer func() { recover() }()
			ce.NewCTEDecoder(configuration.New()).Decode(rd, &Recorder{})
		}()
		return c28Answer{Delivered: hex.EncodeToString(rd.delivered)}
	}
	return c28Answer{Bad: "op"}
}

func c28WorkerMain() {
	lim := syscall.Rlimit{Cur: c28WorkerMemory, Max: c28WorkerMemory}
	syscall.Setrlimit(syscall.RLIMIT_AS, &lim)
	in := bufio.NewReaderSize(os.Stdin, 1<<20)
	out := bufio.NewWriter(os.Stdout)
	for {
		line, err := in.ReadBytes('\n')
		if len(line) > 0 {
			var rq c28Request
			var a c28Answer
			if json.Unmarshal(line, &rq) != nil {
				a = c28Answer{Bad: "json"}
			} else {
				a = c28Handle(&rq)
			}
			b, _ := json.Marshal(&a)
			out.Write(b)
			out.WriteByte('\n')
			out.Flush()
		}
		if err != nil {
			return
		}
	}
}

type c28Worker struct {
	cmd      *exec.Cmd
	stdin    io.WriteCloser
	lines    chan []byte
	Restarts int
}

var c28W = &c28Worker{}

func (w *c28Worker) start() {
	exe, err := os.Executable()
	if err != nil {
		panic(err)
	}
	w.cmd = exec.Command(exe)
	w.cmd.Env = append(os.Environ(), c28WorkerEnv+"=1")
	w.cmd.Stderr = nil
	w.stdin, _ = w.cmd.StdinPipe()
	stdout, _ := w.cmd.StdoutPipe()
	if err := w.cmd.Start(); err != nil {
		panic(err)
	}
	lines := make(chan []byte, 1)
	w.lines = lines
	go func() {
		rd := bufio.NewReaderSize(stdout, 1<<20)
		for {
			line, err := rd.ReadBytes('\n')
			if err != nil {
				close(lines)
				return
			}
			lines <- line
		}
	}()
}

func (w *c28Worker) stop() {
	if w.cmd != nil {
		w.stdin.Close()
		w.cmd.Process.Kill()
		w.cmd.Wait()
		w.cmd = nil
	}
}

// do returns the worker's answer, or status "hang" / "crash".
func (w *c28Worker) do(rq *c28Request) (a c28Answer, status string) {
	if w.cmd == nil {
		w.start()
	}
	b, _ := json.Marshal(rq)
	w.stdin.Write(append(b, '\n'))
	select {
	case line, ok := <-w.lines:
		if !ok {
			w.stop()
			w.Restarts++
			return a, "crash"
		}
		if json.Unmarshal(line, &a) != nil || a.Bad != "" {
			panic("C28 worker protocol error: " + string(line) + a.Bad)
		}
		return a, "ok"
	case <-time.After(c28Watchdog):
		w.stop()
		w.Restarts++
		return a, "hang"
	}
}

func c28Remote(family, entry string, doc []byte, spec *c28ReaderSpec, maxdoc uint64) string {
	rq := &c28Request{Op: "call", Family: family, Entry: entry, DocHex: hex.EncodeToString(doc), Maxdoc: maxdoc}
	if spec != nil {
		rq.Reader = spec.kind
		if spec.kind == "script" {
			rq.Script = c28ScriptString(spec.sc)
		}
	}
	a, st := c28W.do(rq)
	if st != "ok" {
		return st
	}
	return a.Res
}

func c28DocFamily(doc []byte) string {
	if len(doc) > 0 {
		switch doc[0] {
		case 'c', 'C':
			return "cte"
		case 0x81:
			return "cbe"
		}
	}
	return "other"
}

func c28Key(family, entry string, doc []byte, spec c28ReaderSpec) string {
	fam := family
	if family == "ce" {
		fam = "ce-" + c28DocFamily(doc)
	}
	return fmt.Sprintf("C28/%s/%s/%s", fam, entry, spec.feature())
}

// c28Oracle: stream result == memory result for one (family, entry, doc, reader).
func c28Oracle(family, entry string, doc []byte, spec c28ReaderSpec, maxdoc uint64) (ok bool, expect, got string) {
	expect = c28Remote(family, entry, doc, nil, maxdoc)
	got = c28Remote(family, entry, doc, &spec, maxdoc)
	return expect == got, expect, got
}

// ---------------------------------------------------------------------------
// Rendering of the decoder's events for the model.

// a compact_time.Time as a term of type gtime (CE.Model.CbeTime), field by field
func c28CoqTZ(z compact_time.Timezone) string {
	kind := "ZUnset"
	switch z.Type {
	case compact_time.TimezoneTypeUTC:
		kind = "ZUTC"
	case compact_time.TimezoneTypeLocal:
		kind = "ZLocal"
	case compact_time.TimezoneTypeAreaLocation:
		kind = "ZArea"
	case compact_time.TimezoneTypeLatitudeLongitude:
		kind = "ZLatLong"
	case compact_time.TimezoneTypeUTCOffset:
		kind = "ZOffset"
	}
	return fmt.Sprintf("{| z_kind := %s; z_short := %s; z_long := %s; z_lat := %s; z_lon := %s; z_min := %s |}", kind,
		cBytes([]byte(z.ShortAreaLocation)), cBytes([]byte(z.LongAreaLocation)), cZ(int64(z.LatitudeHundredths)),
		cZ(int64(z.LongitudeHundredths)), cZ(int64(z.MinutesOffsetFromUTC)))
}

func c28CoqTok(e Ev) string {
	if e.K == "tm" {
		t := e.T
		kind := "KDate"
		switch t.Type {
		case compact_time.TimeTypeTime:
			kind = "KTime"
		case compact_time.TimeTypeTimestamp:
			kind = "KTimestamp"
		}
		return cApp("RTime", fmt.Sprintf("{| g_kind := %s; g_year := %s; g_month := %d; g_day := %d; g_hour := %d; g_minute := %d; g_second := %d; g_nano := %d; g_zone := %s |}",
			kind, cZ(int64(t.Year)), t.Month, t.Day, t.Hour, t.Minute, t.Second, t.Nanosecond, c28CoqTZ(t.Timezone)))
	}
	return cApp("REv", cEv(e))
}

func c28CoqToks(es []Ev) string {
	items := make([]string, len(es))
	for i, e := range es {
		items[i] = c28CoqTok(e)
	}
	return cList(items)
}

// c28DecodeScripted (worker side): the CBE decoder (directly, or through the universal decoder) on a scripted reader.
func c28DecodeScripted(universal bool, sc []c28Resp, maxdoc uint64) (evs []Ev, failed bool, delivered []byte) {
	rec := &Recorder{}
	rd := newC28ScriptReader(sc)
	cfg := c28Config(maxdoc)
	var d ce.Decoder
	if universal {
		d = ce.NewCEDecoder(cfg)
	} else {
		d = ce.NewCBEDecoder(cfg)
	}
	var err error
	func() {
		defer func() {
			if p := recover(); p != nil {
				err = fmt.Errorf("panic: %v", p)
			}
		}()
		err = d.Decode(rd, rec)
	}()
	return rec.Evs, err != nil, rd.delivered
}

// c28Scripted (parent side): status is "ok", "hang" or "crash".
func c28Scripted(universal bool, doc []byte, sc []c28Resp, maxdoc uint64) (a c28Answer, status string) {
	return c28W.do(&c28Request{Op: "scripted", DocHex: hex.EncodeToString(doc), Script: c28ScriptString(sc), Maxdoc: maxdoc, Univ: universal})
}

// ---------------------------------------------------------------------------
// Document generation.

type c28Gen struct {
	r  *rand.Rand
	eg *EvGen
}

func (g *c28Gen) ulebBytes(v uint64) []byte {
	b := uleb(v)
	if g.r.Intn(8) == 0 { // non-canonical: padded with empty groups
		k := 1 + g.r.Intn(3)
		if g.r.Intn(10) == 0 {
			k = 8 + g.r.Intn(12) // up to and beyond the 19-group limit
		}
		b[len(b)-1] |= 0x80
		for i := 0; i < k-1; i++ {
			b = append(b, 0x80)
		}
		b = append(b, 0)
	}
	return b
}

func (g *c28Gen) rbytes(n int) []byte {
	b := make([]byte, n)
	g.r.Read(b)
	if g.r.Intn(3) == 0 {
		for i := range b {
			b[i] = byte('a' + g.r.Intn(26))
		}
	}
	return b
}

func (g *c28Gen) lenVal() int {
	switch g.r.Intn(10) {
	case 0:
		return 0
	case 1:
		return 1
	case 2:
		return 126 + g.r.Intn(4) // around the initial buffer size of 127
	case 3:
		return 250 + g.r.Intn(10) // beyond twice the initial buffer
	}
	return g.r.Intn(20)
}

func (g *c28Gen) chunksBytes(elemBits int) []byte {
	out := []byte{}
	n := 1 + g.r.Intn(3)
	for i := 0; i < n; i++ {
		cnt := g.lenVal()
		if elemBits > 8 {
			cnt = g.r.Intn(6)
		}
		more := uint64(0)
		if i < n-1 {
			more = 1
		}
		out = append(out, g.ulebBytes(uint64(cnt)<<1|more)...)
		nb := cnt * elemBits / 8
		if elemBits == 1 {
			nb = (cnt + 7) / 8
		}
		out = append(out, g.rbytes(nb)...)
	}
	return out
}

func (g *c28Gen) timeBytes() []byte {
	if g.r.Intn(4) == 0 {
		// raw: any header, the decoder decides the length; pad with enough bytes
		return g.rbytes(3 + g.r.Intn(12))
	}
	t := g.eg.time()
	buf := make([]byte, 64)
	n := t.EncodeToBytes(buf)
	var code byte
	switch t.Type {
	case compact_time.TimeTypeDate:
		code = 0x7a
	case compact_time.TimeTypeTime:
		code = 0x7b
	default:
		code = 0x7c
	}
	return append([]byte{code}, buf[:n]...)
}

var c28ZeroTimes = [][]byte{{0x7a, 0, 0, 0}, {0x7b, 0, 0, 0}, {0x7c, 0, 0, 0, 0, 0}, {0x7b, 0xff, 0xff, 0xff, 0xff, 0xff, 0xff, 0xff}, {0x7c, 0x01, 0, 0, 0, 0, 0x02, 'Z', 0x9a}}

// one CBE token (type byte + payload), any type the decoder knows, plus a few it rejects
func (g *c28Gen) token() (string, []byte) {
	r := g.r
	switch r.Intn(34) {
	case 0:
		return "smallint", []byte{byte(int8(r.Intn(201) - 100))}
	case 1:
		return "int8", []byte{byte(0x68 + r.Intn(2)), byte(r.Intn(256))}
	case 2:
		return "int16", append([]byte{byte(0x6a + r.Intn(2))}, g.rbytes(2)...)
	case 3:
		return "int32", append([]byte{byte(0x6c + r.Intn(2))}, g.rbytes(4)...)
	case 4:
		return "int64", append([]byte{byte(0x6e + r.Intn(2))}, g.rbytes(8)...)
	case 5:
		n := []int{0, 1, 7, 8, 9, 10, 16, 17, 40}[r.Intn(9)]
		return "intN", append(append([]byte{byte(0x66 + r.Intn(2))}, g.ulebBytes(uint64(n))...), g.rbytes(n)...)
	case 6:
		b := g.rbytes(2)
		if r.Intn(3) == 0 {
			b = []byte{byte(0x80 | r.Intn(128)), 0x7f | byte(r.Intn(2))<<7} // bfloat16 inf / NaN patterns
		}
		return "float16", append([]byte{0x70}, b...)
	case 7:
		b := g.rbytes(4)
		if r.Intn(3) == 0 {
			b[3] = 0x7f | byte(r.Intn(2))<<7
			b[2] |= 0x80 // exponent all ones
		} else if r.Intn(4) == 0 {
			b[3] &= 0x80
			b[2] &= 0x7f // subnormal
		}
		return "float32", append([]byte{0x71}, b...)
	case 8:
		return "float64", append([]byte{0x72}, g.rbytes(8)...)
	case 9:
		return "uid", append([]byte{0x65}, g.rbytes(16)...)
	case 10:
		return "container", []byte{[]byte{0x99, 0x9a, 0x9b, 0x97, 0x98}[r.Intn(5)]}
	case 11:
		return "simple", []byte{[]byte{0x78, 0x79, 0x7d, 0x95}[r.Intn(4)]}
	case 12:
		n := 1 + r.Intn(8)
		code := []byte{0x96, 0x77}[r.Intn(2)]
		return "identifier", append(append([]byte{code}, g.ulebBytes(uint64(n))...), g.rbytes(n)...)
	case 13:
		n := r.Intn(16)
		return "shortstring", append([]byte{byte(0x80 + n)}, g.rbytes(n)...)
	case 14, 15:
		code := []byte{0x90, 0x91, 0x93}[r.Intn(3)]
		return "array8", append([]byte{code}, g.chunksBytes(8)...)
	case 16:
		return "bitarray", append([]byte{0x94}, g.chunksBytes(1)...)
	case 17:
		return "custom", append(append([]byte{0x92}, g.ulebBytes(uint64(r.Intn(300)))...), g.chunksBytes(8)...)
	case 18, 19:
		sizes := map[int]int{0x00: 16, 0x10: 1, 0x20: 2, 0x30: 2, 0x40: 4, 0x50: 4, 0x60: 8, 0x70: 8, 0x80: 2, 0x90: 4, 0xa0: 8}
		hi := r.Intn(11) << 4
		cnt := r.Intn(16)
		if r.Intn(4) == 0 {
			cnt = 0
		}
		return "shortarray", append([]byte{0x7f, byte(hi | cnt)}, g.rbytes(cnt*sizes[hi])...)
	case 20:
		n := 1 + r.Intn(6)
		code := []byte{0xf0, 0xf1}[r.Intn(2)]
		return "plane-identifier", append(append([]byte{0x7f, code}, g.ulebBytes(uint64(n))...), g.rbytes(n)...)
	case 21:
		return "remote-ref", append([]byte{0x7f, 0xf2}, g.chunksBytes(8)...)
	case 22:
		n := r.Intn(12)
		return "media", append(append(append([]byte{0x7f, 0xf3}, g.ulebBytes(uint64(n))...), g.rbytes(n)...), g.chunksBytes(8)...)
	case 23, 24:
		codes := []int{0xe0, 0xe1, 0xe2, 0xe3, 0xe4, 0xe5, 0xe6, 0xe7, 0xe8, 0xe9, 0xea}
		bitsOf := []int{128, 8, 16, 16, 32, 32, 64, 64, 16, 32, 64}
		i := r.Intn(len(codes))
		return "typedarray", append([]byte{0x7f, byte(codes[i])}, g.chunksBytes(bitsOf[i])...)
	case 25:
		// decimal float: specials, or exponent + coefficient ULEBs
		switch r.Intn(8) {
		case 0:
			return "decimal", []byte{0x76, byte(2 + r.Intn(2))}
		case 1:
			return "decimal", []byte{0x76, byte(0x80 + r.Intn(4)), 0x00}
		case 2:
			return "decimal", append(append([]byte{0x76}, g.ulebBytes(r.Uint64()>>uint(r.Intn(40)))...), g.ulebBytes(r.Uint64())...)
		case 3: // coefficient beyond 64 bits
			c := append(bytes.Repeat([]byte{0xff}, 9+r.Intn(12)), 0x01)
			return "decimal", append(append([]byte{0x76}, g.ulebBytes(uint64(r.Intn(1<<12)))...), c...)
		}
		return "decimal", append(append([]byte{0x76}, g.ulebBytes(uint64(r.Intn(1<<14)))...), g.ulebBytes(r.Uint64()>>uint(r.Intn(64)))...)
	case 26, 27, 28:
		if r.Intn(6) == 0 {
			return "time", c28ZeroTimes[r.Intn(len(c28ZeroTimes))]
		}
		b := g.timeBytes()
		if b[0] < 0x7a || b[0] > 0x7c {
			b = append([]byte{byte(0x7a + r.Intn(3))}, b...)
		}
		return "time", b
	case 29:
		return "plane-bad", []byte{0x7f, byte(0xb0 + r.Intn(0x30))}
	case 30:
		if r.Intn(3) == 0 {
			return "reserved", []byte{[]byte{0x73, 0x74, 0x75, 0x7e, 0x65 + 0x37 /*0x9c*/}[r.Intn(5)]}
		}
		return "smallint", []byte{byte(int8(r.Intn(201) - 100))}
	case 31:
		return "string0", []byte{0x80}
	default:
		return "container", []byte{[]byte{0x99, 0x9a, 0x9b}[r.Intn(3)]}
	}
}

// documents made of time values: encoded valid times, the same with one field
// pushed out of range or one byte changed, raw bytes behind a time type code.
// validateTime (40e3af2) accepts or rejects them; either way every reader must agree with memory.
func (g *c28Gen) timeSoup(kinds map[string]int) []byte {
	doc := []byte{0x81, 0}
	n := 1 + g.r.Intn(4)
	for i := 0; i < n; i++ {
		var b []byte
		switch g.r.Intn(5) {
		case 0:
			b = c28TimeDocs[g.r.Intn(len(c28TimeDocs))]
			kinds["time-boundary"]++
		case 1:
			b = append([]byte{byte(0x7a + g.r.Intn(3))}, g.rbytes(3+g.r.Intn(12))...)
			kinds["time-raw"]++
		case 2:
			b = append([]byte{}, g.timeBytes()...)
			if b[0] < 0x7a || b[0] > 0x7c {
				b = append([]byte{byte(0x7a + g.r.Intn(3))}, b...)
			}
			if len(b) > 1 {
				b[1+g.r.Intn(len(b)-1)] ^= byte(1 << uint(g.r.Intn(8)))
			}
			kinds["time-flipped"]++
		default:
			b = g.timeBytes()
			if b[0] < 0x7a || b[0] > 0x7c {
				b = append([]byte{byte(0x7a + g.r.Intn(3))}, b...)
			}
			kinds["time-encoded"]++
		}
		doc = append(doc, b...)
		if g.r.Intn(3) == 0 {
			doc = append(doc, byte(g.r.Intn(100))) // something after the time: alignment shows in the next event
		}
	}
	return doc
}

// time values at the edges of validateTime (type code + payload)
var c28TimeDocs = [][]byte{
	{0x7a, 0x21, 0x04, 0x00},                   // 2001-01-01
	{0x7a, 0x20, 0x04, 0x00},                   // day 0
	{0x7a, 0x01, 0x04, 0x00},                   // month 0
	{0x7a, 0xbf, 0x05, 0x00},                   // month 13 day 31
	{0x7a, 0x5e, 0x04, 0x00},                   // February 30
	{0x7a, 0x21, 0x00, 0x1f},                   // year 0 (encoded 3999)
	{0x7a, 0, 0, 0},                            // zero date
	{0x7b, 0x00, 0x00, 0xf0},                   // 00:00:00 UTC, magnitude 0
	{0x7b, 0x00, 0x80, 0xfb},                   // hour 23
	{0x7b, 0x00, 0x00, 0xfc},                   // hour 24
	{0x7b, 0x00, 0xe0, 0xf1},                   // minute 60 (bits spill)
	{0x7b, 0xe0, 0x01, 0xf0},                   // second 60
	{0x7b, 0xe8, 0x01, 0xf0},                   // second 61
	{0x7b, 0x06, 0xff, 0xff, 0xff, 0x03, 0, 0}, // magnitude 3, nanoseconds 2^30-1
	{0x7b, 0, 0, 0},                            // zero time
	{0x7b, 0x01, 0x00, 0xf0, 0x02, 'Z'},        // zone "Z"
	{0x7b, 0x01, 0x00, 0xf0, 0x02, 'L'},        // zone "L"
	{0x7b, 0x01, 0x00, 0xf0, 0x0e, 'E', '/', 'P', 'a', 'r', 'i', 's'},
	{0x7b, 0x01, 0x00, 0xf0, 0x0e, 'e', '/', 'P', 'a', 'r', 'i', 's'}, // lower-case first character
	{0x7b, 0x01, 0x00, 0xf0, 0x08, 'A', ' ', 'b', 'c'},                // a space in the name
	{0x7b, 0x01, 0x00, 0xf0, 0x06, 'U', 'T', 'C'},                     // a UTC alias that is preserved
	{0x7b, 0x01, 0x00, 0xf0, 0x00, 0x9f, 0x05},                        // offset +1439
	{0x7b, 0x01, 0x00, 0xf0, 0x00, 0xa0, 0x05},                        // offset +1440
	{0x7b, 0x01, 0x00, 0xf0, 0x00, 0x00, 0x00},                        // offset 0 = UTC
	{0x7b, 0x01, 0x00, 0xf0, 0x51, 0x46, 0x50, 0x46},                  // latitude/longitude in range
	{0x7b, 0x01, 0x00, 0xf0, 0xff, 0x7f, 0xff, 0x7f},                  // latitude/longitude out of range
	{0x7c, 0x00, 0x00, 0x08, 0x21, 0x00},                              // timestamp, magnitude 0
	{0x7c, 0x00, 0x00, 0x00, 0x20, 0x00},                              // timestamp day 0 (not the zero value: year)
	{0x7c, 0, 0, 0, 0, 0},                                             // zero timestamp
	{0x7c, 0x01, 0x00, 0x08, 0x21, 0x00, 0x0e, 'M', '/', 'T', 'o', 'k', 'y', 'o'},
}

// token soup: header + random tokens. Structure is irrelevant to the decoder.
func (g *c28Gen) soup(kinds map[string]int) []byte {
	doc := []byte{0x81}
	switch g.r.Intn(10) {
	case 0:
		doc = append(doc, 1)
	case 1:
		doc = append(doc, g.ulebBytes(uint64(g.r.Intn(300)))...)
	default:
		doc = append(doc, 0)
	}
	n := 1 + g.r.Intn(6)
	for i := 0; i < n; i++ {
		k, b := g.token()
		kinds[k]++
		doc = append(doc, b...)
	}
	return doc
}

func c28Encode(format string, evs []Ev) (doc []byte, ok bool) {
	defer func() {
		if r := recover(); r != nil {
			ok = false
		}
	}()
	cfg := configuration.New()
	var buf bytes.Buffer
	var enc ce.Encoder
	if format == "cte" {
		enc = ce.NewCTEEncoder(cfg)
	} else {
		enc = ce.NewCBEEncoder(cfg)
	}
	enc.PrepareToEncode(&buf)
	if at, _ := playAll(enc, evs); at >= 0 {
		return nil, false
	}
	return buf.Bytes(), true
}

func (g *c28Gen) mutate(doc []byte) []byte {
	out := append([]byte{}, doc...)
	if len(out) < 3 {
		return out
	}
	switch g.r.Intn(4) {
	case 0: // truncate
		out = out[:2+g.r.Intn(len(out)-2)]
	case 1: // flip a byte
		out[2+g.r.Intn(len(out)-2)] ^= byte(1 << uint(g.r.Intn(8)))
	case 2: // insert a byte
		p := 2 + g.r.Intn(len(out)-2)
		out = append(out[:p], append([]byte{byte(g.r.Intn(256))}, out[p:]...)...)
	default: // append garbage
		out = append(out, g.rbytes(1+g.r.Intn(4))...)
	}
	return out
}

type c28Doc struct {
	origin string // evgen-cbe, evgen-cte, soup, mutated-*, fixed
	doc    []byte
}

// fixed boundary documents
// one uint8 array of n bytes: a single read larger than bufio's buffer
func c28BigArrayDoc(n int) []byte {
	d := []byte{0x81, 0, 0x93}
	d = append(d, uleb(uint64(n)<<1)...)
	for i := 0; i < n; i++ {
		d = append(d, byte(i*7))
	}
	return d
}

func c28FixedDocs() []c28Doc {
	big := c28BigArrayDoc
	docs := [][]byte{
		{0x81, 0, 1}, {0x81, 1, 1}, {0x81, 0}, {0x81}, {}, {0x81, 0, 0x9a, 1, 2, 0x9b}, {0x81, 0, 0x99, 0x81, 'a', 1, 0x9b},
		{0x81, 0, 0x82, 'h', 'i'}, {0x81, 0, 0x6a, 0x34, 0x12}, {0x81, 0, 0x90, 0x04, 'a', 'b'}, {0x81, 0, 0x90, 0x05, 'a', 'b', 0x02, 'c'},
		{0x81, 0x80, 0x80, 0x00, 0x9a, 0x9b}, {0x81, 0, 0x76, 0x06, 0x0f}, {0x81, 0, 0x7a, 0x21, 0x04, 0x00}, {0x81, 0, 0x7f, 0x21, 1, 2},
		{0x81, 0, 0x66, 9, 1, 0, 0, 0, 0, 0, 0, 0, 1}, {0x81, 0, 0x7f, 0xf3, 2, 'a', 'b', 0x02, 9}, {0x81, 0, 0x92, 5, 0x04, 1, 2},
		{0x81, 2, 1}, {0x80, 0, 1}, {0x81, 0, 0x73}, {0x81, 0, 0x90, 0xff, 0xff, 0xff, 0xff, 0xff, 0xff, 0xff, 0xff, 0xff, 0x01},
		big(200), big(4096), big(5000), big(9000),
		[]byte("c0 1"), []byte("c0\n[1 2 \"a\"]"), []byte("C0 {\"a\"=1}"), []byte("c0 \"str\""), []byte("c1 1"), []byte("c0"), []byte("c0 [1"), []byte("c"),
		[]byte("c0 " + strings.Repeat("\"abcdefghij\" ", 0) + "\"" + strings.Repeat("x", 5000) + "\""),
		[]byte("x0 1"),
	}
	out := []c28Doc{}
	for _, d := range docs {
		out = append(out, c28Doc{"fixed", d})
	}
	return out
}

func c28Docs(c *Ctx, g *c28Gen, kinds map[string]int) []c28Doc {
	docs := c28FixedDocs()
	for _, t := range c28TimeDocs {
		docs = append(docs, c28Doc{"time-boundary", append([]byte{0x81, 0}, t...)})
	}
	nFixed := len(docs)
	nEv := c.Pick(60, 600)
	for i := 0; i < nEv; i++ {
		evs := g.eg.Document()
		format := []string{"cbe", "cbe", "cte"}[i%3]
		if d, ok := c28Encode(format, evs); ok {
			docs = append(docs, c28Doc{"evgen-" + format, d})
			if i%4 == 0 {
				docs = append(docs, c28Doc{"mutated-" + format, g.mutate(d)})
			}
		}
	}
	for i := 0; i < c.Pick(60, 600); i++ {
		d := g.timeSoup(kinds)
		docs = append(docs, c28Doc{"soup-time", d})
		if i%4 == 0 {
			docs = append(docs, c28Doc{"mutated-soup-time", g.mutate(d)})
		}
	}
	for i := 0; i < c.Pick(150, 1500); i++ {
		d := g.soup(kinds)
		docs = append(docs, c28Doc{"soup", d})
		if i%5 == 0 {
			docs = append(docs, c28Doc{"mutated-soup", g.mutate(d)})
		}
	}
	// the case budget of the quick tier ends before the list does: mix the generated families
	gen := docs[nFixed:]
	c.Rng.Shuffle(len(gen), func(i, j int) { gen[i], gen[j] = gen[j], gen[i] })
	return docs
}

// ---------------------------------------------------------------------------

func c28Families(doc []byte) []string {
	switch c28DocFamily(doc) {
	case "cbe":
		return []string{"cbe", "ce"}
	case "cte":
		return []string{"cte", "ce"}
	}
	return []string{"cbe", "cte", "ce"}
}

const c28DefaultMax = 5 * 1024 * 1024 * 1024

// c28Check: the oracle on one (family, entry, document, reader); records counts and a failure. Returns the stream result.
func c28Check(c *Ctx, family, entry string, doc []byte, spec c28ReaderSpec, sample bool) string {
	ok, expect, got := c28Oracle(family, entry, doc, spec, 0)
	if expect == "hang" || got == "hang" {
		c.Dist("hang/" + family + "/" + entry + "/memory=" + expect[:2] + "/" + clipHex(doc))
	}
	c.Count(family+"|"+entry+"|"+string(doc)+"|"+spec.describe(), len(doc) > 2)
	c.Dist(fmt.Sprintf("oracle/%s/%s/%s/%s", family, entry, spec.feature(), got[:2]))
	c.Dist("reader/" + spec.pattern)
	if sample && len(c.Rep.Samples) < 6 && len(doc) > 6 && len(doc) < 40 && spec.kind == "script" {
		c.Sample(map[string]string{"family": family, "entry": entry, "doc_hex": hex.EncodeToString(doc), "reader": spec.describe(), "result": got})
	}
	if !ok {
		key := c28Key(family, entry, doc, spec)
		if got == "hang" {
			key += "/hang"
		}
		in := map[string]string{"family": family, "entry": entry, "doc_hex": hex.EncodeToString(doc), "reader": spec.kind}
		if spec.kind == "script" {
			in["script"] = c28ScriptString(spec.sc)
		}
		c.Fail(Replay{Kind: "stream-eq-memory", Key: key, Input: in, Expect: clip(expect), Got: clip(got)})
	}
	return got
}

// Pinned witnesses of the defects repaired by e4074d6 (CBE reader ignored the
// byte count and treated data+EOF as an error / as end of document): they are
// run on every check so that a regression is reported under the old keys.
type c28Pin struct {
	docHex, script string
}

func c28PinnedDoc(p c28Pin) []byte {
	if p.docHex == "big5000" {
		return c28BigArrayDoc(5000)
	}
	d, _ := hex.DecodeString(p.docHex)
	return d
}

var c28Pins = []c28Pin{
	{"810001", "3e"},       // whole document together with io.EOF: the object was dropped
	{"810001", "2,0,1"},    // (0, nil) where a type byte is expected: a stale byte was decoded
	{"810001", "0,1,0,2e"}, // both
	{"810001", "1,2e"},     // data+EOF after a split
	{"810001", "1,0,0,1,0,0,1"},
	{"810101", "2,0,0,1e"},
	{"818080009a9b", "2,0,4"},    // (0, nil) inside a multi-byte ULEB128: value 0 was returned
	{"81006a0102", "1,1,1,1,1e"}, // data+EOF inside a fixed-width field
	{"big5000", "8,4997e"},       // behind bufio: one large read meets the end of the data
}

func c28RunPins(c *Ctx, cf *caseFile) {
	// bufio.Reader.Peek gives up after 100 consecutive empty reads (io.ErrNoProgress): the standard
	// library's limit, tied to the model (peek_fill) by two correspondence cases, not an oracle input.
	for _, zeros := range []int{99, 100} {
		doc := []byte{0x81, 0, 1}
		sc := make([]c28Resp, zeros)
		sc = append(sc, c28Resp{data: doc})
		a, st := c28Scripted(true, doc, sc, c28DefaultMax)
		if st == "ok" {
			cf.Add(cApp("CeStream", cN(c28DefaultMax), c28CoqScript(sc), a.Coq, cBool(a.Failed)),
				fmt.Sprintf("ce %d empty reads then doc=810001 -> failed=%v %s", zeros, a.Failed, a.Evs))
			c.Dist(fmt.Sprintf("case/ce-empty-reads=%d/failed=%v", zeros, a.Failed))
		}
	}
	for _, p := range c28Pins {
		doc := c28PinnedDoc(p)
		sc, ok := c28ParseScript(p.script, doc)
		if !ok {
			panic("bad pinned witness " + p.docHex + " " + p.script)
		}
		spec := c28ReaderSpec{kind: "script", pattern: "pinned", sc: sc}
		for _, family := range []string{"cbe", "ce"} {
			for _, entry := range []string{"unmarshal", "decode"} {
				c28Check(c, family, entry, doc, spec, false)
			}
			a, st := c28Scripted(family == "ce", doc, sc, c28DefaultMax)
			if st == "ok" {
				ctor := "CbeStream"
				if family == "ce" {
					ctor = "CeStream"
				}
				cf.Add(cApp(ctor, cN(c28DefaultMax), c28CoqScript(sc), a.Coq, cBool(a.Failed)),
					fmt.Sprintf("%s pinned doc=%s script=%s -> failed=%v %s", family, clipHex(doc), p.script, a.Failed, a.Evs))
				c.Dist("case/pinned/" + family)
			}
		}
	}
}

func runC28(c *Ctx) {
	c.Rep.Rule = "documents: fixed boundary set + time values at the edges of validateTime + generated rules-valid event streams encoded as CBE/CTE + CBE token soup over every type code + time-value soup (encoded, flipped, raw) + mutations (truncate/flip/insert/append); " +
		"readers: scripts (whole, one byte per call, random sizes, (0,nil) reads interleaved, last data with io.EOF, explicit final (0,io.EOF), chunks larger than bufio's buffer) and testing/iotest wrappers; " +
		"entries: Unmarshal{CBE,CTE,CE} and New{CBE,CTE,CE}Decoder().Decode; non-trivial = document longer than the 2-byte header; distinct = distinct (family, entry, document, reader)"
	cf := c.Cases("readersplit", "CE.Model.ReaderSplit", "readersplit_case", "readersplit_case_ok")
	g := &c28Gen{r: c.Rng, eg: NewEvGen(c.Rng, DefaultGenOpts())}
	kinds := map[string]int{}
	docs := c28Docs(c, g, kinds)

	c28RunPins(c, cf)
	caseBudget := c.Pick(1200, 12000)
	bigCases := 0
	for di, d := range docs {
		doc := d.doc
		fam := c28DocFamily(doc)
		c.Dist("doc/" + d.origin)
		// ---- search oracle ----
		specs := []c28ReaderSpec{}
		for _, p := range c28Patterns {
			if (p == "big" || p == "head8+dataeof") && len(doc) < 3000 {
				continue
			}
			// quick tier: a rotating subset of patterns per document, all of them for the fixed set
			if !c.Thorough() && d.origin != "fixed" && c.Rng.Intn(3) != 0 {
				continue
			}
			specs = append(specs, c28ReaderSpec{kind: "script", pattern: p, sc: c28MakeScript(c.Rng, p, doc)})
		}
		for _, k := range c28IotestKinds {
			if c.Thorough() || d.origin == "fixed" || c.Rng.Intn(4) == 0 {
				specs = append(specs, c28ReaderSpec{kind: k, pattern: k})
			}
		}
		for _, family := range c28Families(doc) {
			for _, entry := range []string{"unmarshal", "decode"} {
				hung := 0
				for _, spec := range specs {
					if hung >= 2 {
						break // every further call would cost a watchdog period; the hangs are already reported
					}
					if c28Check(c, family, entry, doc, spec, di%7 == 0) == "hang" {
						hung++
					}
				}
			}
		}

		// ---- correspondence with the model ----
		if cf.n >= caseBudget {
			continue
		}
		isBig := len(doc) > 600
		if isBig {
			if bigCases >= 4 {
				continue
			}
			bigCases++
		}
		for _, spec := range specs {
			if spec.kind != "script" {
				continue
			}
			if isBig && spec.pattern != "big" && spec.pattern != "head8+dataeof" && spec.pattern != "zeros" {
				continue // long documents make long Coq terms: three scripts each are enough
			}
			scs, human := c28CoqScript(spec.sc), fmt.Sprintf("%s doc=%s script=%s", d.origin, clipHex(doc), c28ScriptString(spec.sc))
			switch fam {
			case "cbe", "other":
				maxdoc := uint64(c28DefaultMax)
				if c.Rng.Intn(10) == 0 && len(doc) > 3 {
					maxdoc = uint64(1 + c.Rng.Intn(len(doc)+2))
				}
				a, st := c28Scripted(false, doc, spec.sc, maxdoc)
				if st == "hang" {
					c.Fail(Replay{Kind: "hang", Key: "C28/cbe/decode/hang", Input: map[string]string{"doc_hex": hex.EncodeToString(doc), "script": c28ScriptString(spec.sc)}, Expect: "termination", Got: "no result within 8 s"})
					continue
				}
				if st == "crash" {
					c.Dist("case-skipped/worker-crash") // allocation beyond the worker's limit: not modelled
					continue
				}
				cf.Add(cApp("CbeStream", cN(maxdoc), scs, a.Coq, cBool(a.Failed)), "cbe "+human+fmt.Sprintf(" max=%d -> failed=%v %s", maxdoc, a.Failed, a.Evs))
				c.Dist(fmt.Sprintf("case/cbe/%s/failed=%v", spec.feature(), a.Failed))
				if fam == "cbe" && (isBig || c.Rng.Intn(3) == 0) {
					a, st := c28Scripted(true, doc, spec.sc, c28DefaultMax)
					if st == "ok" {
						cf.Add(cApp("CeStream", cN(c28DefaultMax), scs, a.Coq, cBool(a.Failed)), "ce "+human+fmt.Sprintf(" -> failed=%v %s", a.Failed, a.Evs))
						c.Dist(fmt.Sprintf("case/ce-cbe/%s/failed=%v", spec.feature(), a.Failed))
					}
				}
			case "cte":
				if c.Rng.Intn(3) != 0 {
					continue
				}
				a, st := c28W.do(&c28Request{Op: "ctecopy", DocHex: hex.EncodeToString(doc), Script: c28ScriptString(spec.sc)})
				if st != "ok" {
					continue
				}
				got, _ := hex.DecodeString(a.Delivered)
				cf.Add(cApp("CteCopy", scs, cBytes(got)), "cte "+human+fmt.Sprintf(" -> %d bytes read", len(got)))
				c.Dist("case/cte/" + spec.feature())
			}
		}
	}
	c28W.stop()
	c.Rep.Extra["worker_restarts"] = c28W.Restarts
	for k, n := range kinds {
		c.Rep.Distribution["token/"+k] = n
	}
	for k, n := range g.eg.Kinds {
		c.Rep.Distribution["evgen/"+k] = n
	}
}

func clip(s string) string {
	if len(s) > 400 {
		return s[:400] + "…"
	}
	return s
}

func clipHex(b []byte) string {
	if len(b) > 48 {
		return hex.EncodeToString(b[:48]) + fmt.Sprintf("…(%d bytes)", len(b))
	}
	return hex.EncodeToString(b)
}

func replayC28(r *Replay) (bool, string) {
	doc, err := hex.DecodeString(r.Input["doc_hex"])
	if err != nil {
		return false, "bad replay input"
	}
	spec := c28ReaderSpec{kind: r.Input["reader"]}
	if spec.kind == "" {
		spec.kind = "script"
	}
	if spec.kind == "script" {
		sc, ok := c28ParseScript(r.Input["script"], doc)
		if !ok {
			return false, "bad script in replay input"
		}
		spec.sc = sc
	}
	switch r.Kind {
	case "stream-eq-memory":
		ok, expect, got := c28Oracle(r.Input["family"], r.Input["entry"], doc, spec, 0)
		c28W.stop()
		return ok, fmt.Sprintf("%s/%s through %s: stream=%q memory=%q", r.Input["family"], r.Input["entry"], spec.describe(), clip(got), clip(expect))
	case "hang":
		_, st := c28Scripted(false, doc, spec.sc, c28DefaultMax)
		c28W.stop()
		return st != "hang", "status=" + st
	}
	return false, "unknown replay kind " + r.Kind
}
