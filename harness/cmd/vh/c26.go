package main

// C26 — array byte-conversion helpers are exact little-endian inverses, and
// produce the bytes the encoders/decoders use for typed arrays.
//
// Public helper pairs (ce/arrays.go): Int8, Uint16, Int16, Uint32, Int32,
// Float32, Uint64, Int64, Float64.  internal/arrays additionally has Float16
// (float32 values, top 16 bits) and UUID helpers that package ce does not
// re-export; they are reached here with go:linkname, as is the endianness flag
// that selects between the unsafe fast path and the byte-wise fallbacks.

import (
	"bytes"
	"encoding/binary"
	"encoding/hex"
	"fmt"
	"math"
	"reflect"
	"strconv"
	"strings"
	"unsafe"

	"github.com/kstenerud/go-concise-encoding/builder"
	"github.com/kstenerud/go-concise-encoding/ce"
	"github.com/kstenerud/go-concise-encoding/ce/events"
	"github.com/kstenerud/go-concise-encoding/configuration"
	"github.com/kstenerud/go-concise-encoding/iterator"
)

func init() { register("C26", runC26, replayC26) }

//go:linkname c26ImplIsLittleEndian github.com/kstenerud/go-concise-encoding/internal/arrays.isLittleEndian
var c26ImplIsLittleEndian bool

//go:linkname c26Float16SliceAsBytes github.com/kstenerud/go-concise-encoding/internal/arrays.Float16SliceAsBytes
func c26Float16SliceAsBytes(data []float32) []byte

//go:linkname c26BytesToFloat16Slice github.com/kstenerud/go-concise-encoding/internal/arrays.BytesToFloat16Slice
func c26BytesToFloat16Slice(data []byte) []float32

//go:linkname c26UUIDSliceAsBytes github.com/kstenerud/go-concise-encoding/internal/arrays.UUIDSliceAsBytes
func c26UUIDSliceAsBytes(data [][]byte) []byte

//go:linkname c26BytesToUUIDSlice github.com/kstenerud/go-concise-encoding/internal/arrays.BytesToUUIDSlice
func c26BytesToUUIDSlice(data []byte) [][]byte

func c26HostIsLittleEndian() bool {
	v := uint16(1)
	return *(*byte)(unsafe.Pointer(&v)) == 1
}

// ---------------------------------------------------------------------------
// helper table: everything in terms of element bit patterns (uint64)

type c26Helper struct {
	name      string // element type as spelled in the helper names
	w         int    // bytes per element
	float     bool
	at        events.ArrayType
	elemT     reflect.Type
	mk        func(p []uint64) interface{} // typed slice holding these bit patterns
	pats      func(s interface{}) []uint64 // bit patterns of a typed slice
	asBytes   func(s interface{}) []byte   // ce.<name>SliceAsBytes
	fromBytes func(b []byte) interface{}   // ce.BytesTo<name>Slice
}

func (h *c26Helper) isF32() bool { return h.float && h.w == 4 }

var c26Helpers = []*c26Helper{
	{name: "Int8", w: 1, at: events.ArrayTypeInt8, elemT: reflect.TypeOf(int8(0)),
		mk: func(p []uint64) interface{} {
			s := make([]int8, len(p))
			for i, x := range p {
				s[i] = int8(uint8(x))
			}
			return s
		},
		pats: func(v interface{}) []uint64 {
			s := v.([]int8)
			p := make([]uint64, len(s))
			for i, x := range s {
				p[i] = uint64(uint8(x))
			}
			return p
		},
		asBytes:   func(v interface{}) []byte { return ce.Int8SliceAsBytes(v.([]int8)) },
		fromBytes: func(b []byte) interface{} { return ce.BytesToInt8Slice(b) }},
	{name: "Uint16", w: 2, at: events.ArrayTypeUint16, elemT: reflect.TypeOf(uint16(0)),
		mk: func(p []uint64) interface{} {
			s := make([]uint16, len(p))
			for i, x := range p {
				s[i] = uint16(x)
			}
			return s
		},
		pats: func(v interface{}) []uint64 {
			s := v.([]uint16)
			p := make([]uint64, len(s))
			for i, x := range s {
				p[i] = uint64(x)
			}
			return p
		},
		asBytes:   func(v interface{}) []byte { return ce.Uint16SliceAsBytes(v.([]uint16)) },
		fromBytes: func(b []byte) interface{} { return ce.BytesToUint16Slice(b) }},
	{name: "Int16", w: 2, at: events.ArrayTypeInt16, elemT: reflect.TypeOf(int16(0)),
		mk: func(p []uint64) interface{} {
			s := make([]int16, len(p))
			for i, x := range p {
				s[i] = int16(uint16(x))
			}
			return s
		},
		pats: func(v interface{}) []uint64 {
			s := v.([]int16)
			p := make([]uint64, len(s))
			for i, x := range s {
				p[i] = uint64(uint16(x))
			}
			return p
		},
		asBytes:   func(v interface{}) []byte { return ce.Int16SliceAsBytes(v.([]int16)) },
		fromBytes: func(b []byte) interface{} { return ce.BytesToInt16Slice(b) }},
	{name: "Uint32", w: 4, at: events.ArrayTypeUint32, elemT: reflect.TypeOf(uint32(0)),
		mk: func(p []uint64) interface{} {
			s := make([]uint32, len(p))
			for i, x := range p {
				s[i] = uint32(x)
			}
			return s
		},
		pats: func(v interface{}) []uint64 {
			s := v.([]uint32)
			p := make([]uint64, len(s))
			for i, x := range s {
				p[i] = uint64(x)
			}
			return p
		},
		asBytes:   func(v interface{}) []byte { return ce.Uint32SliceAsBytes(v.([]uint32)) },
		fromBytes: func(b []byte) interface{} { return ce.BytesToUint32Slice(b) }},
	{name: "Int32", w: 4, at: events.ArrayTypeInt32, elemT: reflect.TypeOf(int32(0)),
		mk: func(p []uint64) interface{} {
			s := make([]int32, len(p))
			for i, x := range p {
				s[i] = int32(uint32(x))
			}
			return s
		},
		pats: func(v interface{}) []uint64 {
			s := v.([]int32)
			p := make([]uint64, len(s))
			for i, x := range s {
				p[i] = uint64(uint32(x))
			}
			return p
		},
		asBytes:   func(v interface{}) []byte { return ce.Int32SliceAsBytes(v.([]int32)) },
		fromBytes: func(b []byte) interface{} { return ce.BytesToInt32Slice(b) }},
	{name: "Float32", w: 4, float: true, at: events.ArrayTypeFloat32, elemT: reflect.TypeOf(float32(0)),
		mk: func(p []uint64) interface{} {
			s := make([]float32, len(p))
			for i, x := range p {
				s[i] = math.Float32frombits(uint32(x))
			}
			return s
		},
		pats: func(v interface{}) []uint64 {
			s := v.([]float32)
			p := make([]uint64, len(s))
			for i, x := range s {
				p[i] = uint64(math.Float32bits(x))
			}
			return p
		},
		asBytes:   func(v interface{}) []byte { return ce.Float32SliceAsBytes(v.([]float32)) },
		fromBytes: func(b []byte) interface{} { return ce.BytesToFloat32Slice(b) }},
	{name: "Uint64", w: 8, at: events.ArrayTypeUint64, elemT: reflect.TypeOf(uint64(0)),
		mk: func(p []uint64) interface{} { return append([]uint64{}, p...) },
		pats: func(v interface{}) []uint64 {
			return append([]uint64{}, v.([]uint64)...)
		},
		asBytes:   func(v interface{}) []byte { return ce.Uint64SliceAsBytes(v.([]uint64)) },
		fromBytes: func(b []byte) interface{} { return ce.BytesToUint64Slice(b) }},
	{name: "Int64", w: 8, at: events.ArrayTypeInt64, elemT: reflect.TypeOf(int64(0)),
		mk: func(p []uint64) interface{} {
			s := make([]int64, len(p))
			for i, x := range p {
				s[i] = int64(x)
			}
			return s
		},
		pats: func(v interface{}) []uint64 {
			s := v.([]int64)
			p := make([]uint64, len(s))
			for i, x := range s {
				p[i] = uint64(x)
			}
			return p
		},
		asBytes:   func(v interface{}) []byte { return ce.Int64SliceAsBytes(v.([]int64)) },
		fromBytes: func(b []byte) interface{} { return ce.BytesToInt64Slice(b) }},
	{name: "Float64", w: 8, float: true, at: events.ArrayTypeFloat64, elemT: reflect.TypeOf(float64(0)),
		mk: func(p []uint64) interface{} {
			s := make([]float64, len(p))
			for i, x := range p {
				s[i] = math.Float64frombits(x)
			}
			return s
		},
		pats: func(v interface{}) []uint64 {
			s := v.([]float64)
			p := make([]uint64, len(s))
			for i, x := range s {
				p[i] = math.Float64bits(x)
			}
			return p
		},
		asBytes:   func(v interface{}) []byte { return ce.Float64SliceAsBytes(v.([]float64)) },
		fromBytes: func(b []byte) interface{} { return ce.BytesToFloat64Slice(b) }},
}

func c26HelperByName(n string) *c26Helper {
	for _, h := range c26Helpers {
		if h.name == n {
			return h
		}
	}
	return nil
}

// independent little-endian reference (encoding/binary)
func c26RefEncode(w int, p []uint64) []byte {
	out := make([]byte, len(p)*w)
	for i, x := range p {
		switch w {
		case 1:
			out[i] = byte(x)
		case 2:
			binary.LittleEndian.PutUint16(out[i*2:], uint16(x))
		case 4:
			binary.LittleEndian.PutUint32(out[i*4:], uint32(x))
		case 8:
			binary.LittleEndian.PutUint64(out[i*8:], x)
		}
	}
	return out
}

func c26RefDecode(w int, b []byte) []uint64 {
	n := len(b) / w
	out := make([]uint64, n)
	for i := 0; i < n; i++ {
		switch w {
		case 1:
			out[i] = uint64(b[i])
		case 2:
			out[i] = uint64(binary.LittleEndian.Uint16(b[i*2:]))
		case 4:
			out[i] = uint64(binary.LittleEndian.Uint32(b[i*4:]))
		case 8:
			out[i] = binary.LittleEndian.Uint64(b[i*8:])
		}
	}
	return out
}

// ---------------------------------------------------------------------------
// textual forms

func c26PatsStr(p []uint64) string {
	ss := make([]string, len(p))
	for i, x := range p {
		ss[i] = strconv.FormatUint(x, 16)
	}
	return strings.Join(ss, ",")
}

func c26ParsePats(s string) ([]uint64, error) {
	if s == "" {
		return []uint64{}, nil
	}
	parts := strings.Split(s, ",")
	out := make([]uint64, len(parts))
	for i, x := range parts {
		v, err := strconv.ParseUint(x, 16, 64)
		if err != nil {
			return nil, err
		}
		out[i] = v
	}
	return out, nil
}

func c26EqPats(a, b []uint64) bool {
	if len(a) != len(b) {
		return false
	}
	for i := range a {
		if a[i] != b[i] {
			return false
		}
	}
	return true
}

func cNList(p []uint64) string {
	ss := make([]string, len(p))
	for i, x := range p {
		ss[i] = cN(x)
	}
	return "[" + strings.Join(ss, ";") + "]"
}

func c26Short(s string) string {
	if len(s) > 160 {
		return s[:160] + fmt.Sprintf("…(%d chars)", len(s))
	}
	return s
}

// c26Try runs f, turning a panic into ("panic: …", true).
func c26Try(f func()) (msg string, panicked bool) {
	defer func() {
		if r := recover(); r != nil {
			msg = "panic: " + fmt.Sprint(r)
			panicked = true
		}
	}()
	f()
	return "", false
}

// ---------------------------------------------------------------------------
// oracles on the implementation; each returns (ok, expect, got)

// BytesToX(XAsBytes(s)) == s bit for bit
func c26OracleSBS(h *c26Helper, p []uint64) (ok bool, expect, got string) {
	expect = c26PatsStr(p)
	var back []uint64
	if m, bad := c26Try(func() { back = h.pats(h.fromBytes(h.asBytes(h.mk(p)))) }); bad {
		return false, expect, m
	}
	return c26EqPats(p, back), expect, c26PatsStr(back)
}

// XAsBytes(BytesToX(b)) == b without its trailing len(b) mod w bytes
func c26OracleBSB(h *c26Helper, b []byte) (ok bool, expect, got string) {
	want := b[:len(b)/h.w*h.w]
	expect = hex.EncodeToString(want)
	var back []byte
	if m, bad := c26Try(func() { back = h.asBytes(h.fromBytes(cp(b))) }); bad {
		return false, expect, m
	}
	return bytes.Equal(want, back), expect, hex.EncodeToString(back)
}

// little-endian order, against encoding/binary
func c26OracleLE(h *c26Helper, p []uint64) (ok bool, expect, got string) {
	want := c26RefEncode(h.w, p)
	expect = hex.EncodeToString(want)
	var have []byte
	if m, bad := c26Try(func() { have = h.asBytes(h.mk(p)) }); bad {
		return false, expect, m
	}
	return bytes.Equal(want, have), expect, hex.EncodeToString(have)
}

func c26OracleLEDecode(h *c26Helper, b []byte) (ok bool, expect, got string) {
	want := c26RefDecode(h.w, b)
	expect = c26PatsStr(want)
	var have []uint64
	if m, bad := c26Try(func() { have = h.pats(h.fromBytes(cp(b))) }); bad {
		return false, expect, m
	}
	return c26EqPats(want, have), expect, c26PatsStr(have)
}

var c26IterSession *iterator.Session
var c26BuildSession *builder.Session

// c26IterArray marshals a typed slice through the iterator into a recording
// receiver and returns the single OnArray event it must produce.
func c26IterArray(s interface{}) (ev *Ev, problem string) {
	cfg := configuration.New()
	if c26IterSession == nil {
		c26IterSession = iterator.NewSession(nil, cfg)
	}
	rec := &Recorder{}
	if m, bad := c26Try(func() { c26IterSession.NewIterator(rec).Iterate(s) }); bad {
		return nil, m
	}
	var found *Ev
	for i := range rec.Evs {
		e := &rec.Evs[i]
		switch e.K {
		case "bd", "ed", "v":
		case "a":
			if found != nil {
				return nil, "more than one array event: " + evsString(rec.Evs)
			}
			found = e
		default:
			return nil, "unexpected events: " + c26Short(evsString(rec.Evs))
		}
	}
	if found == nil {
		return nil, "no array event: " + c26Short(evsString(rec.Evs))
	}
	return found, ""
}

// encoder tie: the OnArray payload the iterator produces for the slice, and the
// tail of the CBE document, are exactly XAsBytes(s)
func c26OracleEncoderTie(h *c26Helper, p []uint64) (ok bool, expect, got string, iterBytes []byte) {
	s := h.mk(p)
	var want []byte
	if m, bad := c26Try(func() { want = cp(h.asBytes(s)) }); bad {
		return false, "", m, nil
	}
	expect = fmt.Sprintf("type=%d count=%d data=%s", h.at, len(p), hex.EncodeToString(want))
	ev, problem := c26IterArray(h.mk(p))
	if ev == nil {
		return false, expect, problem, nil
	}
	got = fmt.Sprintf("type=%d count=%d data=%s", ev.A, ev.N, hex.EncodeToString(ev.Data))
	if got != expect {
		return false, expect, got, ev.Data
	}
	var doc []byte
	var err error
	if m, bad := c26Try(func() { doc, err = ce.MarshalToCBEDocument(h.mk(p), configuration.New()) }); bad {
		return false, expect, "MarshalToCBEDocument " + m, ev.Data
	}
	if err != nil {
		return false, expect, "MarshalToCBEDocument error: " + err.Error(), ev.Data
	}
	if !bytes.HasSuffix(doc, want) {
		return false, expect + " as the tail of the CBE document", "cbe=" + hex.EncodeToString(doc), ev.Data
	}
	return true, expect, got, ev.Data
}

// c26Build feeds one OnArray event to a builder for the given destination kind
// ("slice" = []T, "array" = [n]T, "interface" = interface{}) and returns the
// bit patterns of what was built.
func c26Build(h *c26Helper, dest string, at events.ArrayType, b []byte) (p []uint64, problem string) {
	cfg := configuration.New()
	if c26BuildSession == nil {
		c26BuildSession = builder.NewSession(nil, cfg)
	}
	n := len(b) / h.w
	var template interface{}
	switch dest {
	case "slice":
		template = reflect.MakeSlice(reflect.SliceOf(h.elemT), 0, 0).Interface()
	case "array":
		template = reflect.New(reflect.ArrayOf(n, h.elemT)).Elem().Interface()
	case "interface":
		template = nil
	default:
		return nil, "bad dest " + dest
	}
	var obj interface{}
	if m, bad := c26Try(func() {
		br := c26BuildSession.NewBuilderFor(template)
		br.OnBeginDocument()
		br.OnVersion(0)
		br.OnArray(at, uint64(n), cp(b))
		br.OnEndDocument()
		obj = br.GetBuiltObject()
	}); bad {
		return nil, m
	}
	rv := reflect.ValueOf(obj)
	if !rv.IsValid() {
		return nil, "nothing built"
	}
	if rv.Kind() == reflect.Ptr {
		rv = rv.Elem()
	}
	if rv.Kind() == reflect.Array {
		// copy memory, never convert element values
		sl := reflect.MakeSlice(reflect.SliceOf(rv.Type().Elem()), rv.Len(), rv.Len())
		reflect.Copy(sl, rv)
		rv = sl
	}
	if rv.Kind() != reflect.Slice || rv.Type().Elem() != h.elemT {
		return nil, fmt.Sprintf("built a %v", rv.Type())
	}
	if m, bad := c26Try(func() { p = h.pats(rv.Interface()) }); bad {
		return nil, m
	}
	return p, ""
}

// decoder tie: what a builder makes of an OnArray payload is BytesToX(payload)
func c26OracleDecoderTie(h *c26Helper, dest string, b []byte) (ok bool, expect, got string, built []uint64) {
	var want []uint64
	if m, bad := c26Try(func() { want = h.pats(h.fromBytes(cp(b))) }); bad {
		return false, "", m, nil
	}
	expect = c26PatsStr(want)
	have, problem := c26Build(h, dest, h.at, b)
	if have == nil {
		return false, expect, problem, nil
	}
	return c26EqPats(want, have), expect, c26PatsStr(have), have
}

// ---- Float16 (internal) ----

func c26F32(p []uint64) []float32 {
	s := make([]float32, len(p))
	for i, x := range p {
		s[i] = math.Float32frombits(uint32(x))
	}
	return s
}
func c26F32Pats(s []float32) []uint64 {
	p := make([]uint64, len(s))
	for i, x := range s {
		p[i] = uint64(math.Float32bits(x))
	}
	return p
}

// float16: bytes -> slice -> bytes is exact; slice -> bytes -> slice keeps the
// top 16 bits of every float32 pattern (exact on the representable ones)
func c26OracleF16Roundtrip(p []uint64) (ok bool, expect, got string) {
	want := make([]uint64, len(p))
	for i, x := range p {
		want[i] = x &^ 0xffff
	}
	expect = c26PatsStr(want)
	var back []uint64
	if m, bad := c26Try(func() { back = c26F32Pats(c26BytesToFloat16Slice(c26Float16SliceAsBytes(c26F32(p)))) }); bad {
		return false, expect, m
	}
	return c26EqPats(want, back), expect, c26PatsStr(back)
}

func c26OracleF16Bytes(b []byte) (ok bool, expect, got string) {
	want := b[:len(b)/2*2]
	expect = hex.EncodeToString(want)
	var back []byte
	if m, bad := c26Try(func() { back = c26Float16SliceAsBytes(c26BytesToFloat16Slice(cp(b))) }); bad {
		return false, expect, m
	}
	return bytes.Equal(want, back), expect, hex.EncodeToString(back)
}

// a NaN must stay a NaN (dropping the low 16 bits can clear the whole mantissa)
func c26OracleF16NanClass(p []uint64) (ok bool, expect, got string) {
	var back []float32
	if m, bad := c26Try(func() { back = c26BytesToFloat16Slice(c26Float16SliceAsBytes(c26F32(p))) }); bad {
		return false, "NaN stays NaN", m
	}
	for i, f := range c26F32(p) {
		if f != f && i < len(back) && back[i] == back[i] {
			return false, fmt.Sprintf("element %d (%08x) is a NaN and stays one", i, p[i]),
				fmt.Sprintf("element %d comes back as %08x (%v)", i, math.Float32bits(back[i]), back[i])
		}
	}
	return true, "NaN stays NaN", "NaN stays NaN"
}

var c26F16Pseudo = &c26Helper{name: "Float16", w: 2, float: true, at: events.ArrayTypeFloat16, elemT: reflect.TypeOf(float32(0)),
	pats: func(v interface{}) []uint64 { return c26F32Pats(v.([]float32)) }}

// the interface{} builder decodes float16 arrays with BytesToFloat16Slice
func c26OracleF16DecoderTie(b []byte) (ok bool, expect, got string) {
	var want []uint64
	if m, bad := c26Try(func() { want = c26F32Pats(c26BytesToFloat16Slice(cp(b))) }); bad {
		return false, "", m
	}
	expect = c26PatsStr(want)
	have, problem := c26Build(c26F16Pseudo, "interface", events.ArrayTypeFloat16, b)
	if have == nil {
		return false, expect, problem
	}
	return c26EqPats(want, have), expect, c26PatsStr(have)
}

// ---- UUID (internal) ----

func c26Chunks16(b []byte) [][]byte {
	out := [][]byte{}
	for i := 0; i+16 <= len(b); i += 16 {
		out = append(out, cp(b[i : i+16])[:16:16])
	}
	return out
}

func c26UUIDsStr(u [][]byte) string {
	ss := make([]string, len(u))
	for i, x := range u {
		ss[i] = hex.EncodeToString(x)
	}
	return strings.Join(ss, ",")
}

// elements that own their memory: UUIDSliceAsBytes is concatenation and
// BytesToUUIDSlice cuts it back
func c26OracleUUIDRoundtrip(b []byte) (ok bool, expect, got string) {
	want := b[:len(b)/16*16]
	elems := c26Chunks16(want)
	expect = hex.EncodeToString(want) + " / " + c26UUIDsStr(elems)
	var flat []byte
	var back [][]byte
	if m, bad := c26Try(func() {
		flat = c26UUIDSliceAsBytes(c26Chunks16(want))
		back = c26BytesToUUIDSlice(cp(want))
	}); bad {
		return false, expect, m
	}
	got = hex.EncodeToString(flat) + " / " + c26UUIDsStr(back)
	return got == expect, expect, got
}

// c26UUIDViews builds the input of the aliasing probe: a buffer of len(order)
// UUIDs (UUID i filled with byte 0xa0+i) and views of it in the given order.
func c26UUIDViews(order []int) (buf []byte, views [][]byte, want []byte) {
	buf = make([]byte, 16*len(order))
	for i := range buf {
		buf[i] = byte(0xa0 + i/16)
	}
	for _, k := range order {
		views = append(views, buf[k*16:k*16+16]) // capacity extends to the end of buf
		want = append(want, bytes.Repeat([]byte{byte(0xa0 + k)}, 16)...)
	}
	return
}

// elements that are views of one buffer (what BytesToUUIDSlice itself returns):
// the result is still the concatenation and the caller's buffer is untouched
func c26OracleUUIDAliasing(order []int) (ok bool, expect, got string) {
	buf, views, want := c26UUIDViews(order)
	before := cp(buf)
	expect = "result=" + hex.EncodeToString(want) + " buffer=" + hex.EncodeToString(before)
	var flat []byte
	if m, bad := c26Try(func() { flat = cp(c26UUIDSliceAsBytes(views)) }); bad {
		return false, expect, m
	}
	got = "result=" + hex.EncodeToString(flat) + " buffer=" + hex.EncodeToString(buf)
	return got == expect, expect, got
}

// a byte count that is not a multiple of 16: like every other helper the
// partial tail is dropped (no panic, nothing from beyond len(b))
func c26OracleUUIDPartialTail(b []byte, spare int) (ok bool, expect, got string, res [][]byte, panicked bool) {
	full := make([]byte, len(b)+spare)
	copy(full, b)
	for i := len(b); i < len(full); i++ {
		full[i] = 0xee
	}
	in := full[:len(b)]
	want := c26Chunks16(b)
	expect = fmt.Sprintf("%d element(s) [%s]", len(want), c26UUIDsStr(want))
	m, bad := c26Try(func() { res = c26BytesToUUIDSlice(in) })
	if bad {
		return false, expect, m, nil, true
	}
	got = fmt.Sprintf("%d element(s) [%s]", len(res), c26UUIDsStr(res))
	return got == expect, expect, got, res, false
}

// ---------------------------------------------------------------------------
// inputs

func c26Boundary(h *c26Helper) []uint64 {
	bits := uint(h.w * 8)
	mask := ^uint64(0) >> (64 - bits)
	sign := uint64(1) << (bits - 1)
	p := []uint64{0, 1, mask, mask - 1, sign, sign - 1, sign + 1, 0x5555555555555555 & mask, 0xaaaaaaaaaaaaaaaa & mask,
		0x0807060504030201 & mask, 0xf1f2f3f4f5f6f7f8 & mask, 0x80, 0xff & mask, 0x100 & mask, 0xff00 & mask}
	if h.float && h.w == 4 {
		p = append(p, c26F32Special...)
	}
	if h.float && h.w == 8 {
		p = append(p,
			0x3ff0000000000000, 0xbff0000000000000, 0x8000000000000000, 0x7ff0000000000000, 0xfff0000000000000, // 1 -1 -0 +-Inf
			0x0000000000000001, 0x000fffffffffffff, 0x0010000000000000, 0x7fefffffffffffff, // denormals, min normal, max
			0x7ff8000000000000, 0x7ff8000000000001, 0xfff8000000000000, 0x7fffffffffffffff, 0xfffc0de0c0de0c0d, // quiet NaNs
			0x7ff0000000000001, 0x7ff4000000000000, 0x7ff7ffffffffffff, 0xfff0000000000001, 0xfff4000000000123, 0x7ff0000100000000) // signalling NaNs
	}
	return p
}

var c26F32Special = []uint64{
	0x3f800000, 0xbf800000, 0x80000000, 0x7f800000, 0xff800000, // 1 -1 -0 +-Inf
	0x00000001, 0x007fffff, 0x00800000, 0x7f7fffff, // denormals, min normal, max
	0x7fc00000, 0x7fc00001, 0xffc00000, 0x7fffffff, 0xffc12345, // quiet NaNs
	0x7f800001, 0x7fa00000, 0x7fbfffff, 0xff800001, 0xffa00123, 0x7f810000, 0x7f80ffff, // signalling NaNs
}

func c26RandPat(c *Ctx, h *c26Helper) uint64 {
	bits := uint(h.w * 8)
	mask := ^uint64(0) >> (64 - bits)
	switch c.Rng.Intn(6) {
	case 0:
		b := c26Boundary(h)
		return b[c.Rng.Intn(len(b))]
	case 1:
		return (c.Rng.Uint64() >> uint(c.Rng.Intn(64))) & mask
	case 2:
		if h.float { // random NaN, quiet or signalling
			if h.w == 4 {
				return uint64(0x7f800000|c.Rng.Uint32()&0x807fffff) | uint64(c.Rng.Intn(2))
			}
			return 0x7ff0000000000000 | c.Rng.Uint64()&0x800fffffffffffff | uint64(c.Rng.Intn(2))
		}
	}
	return c.Rng.Uint64() & mask
}

// c26Slices: for every length 0..33 one slice (boundary values rotated through,
// random elements in between), plus random longer ones.
func c26Slices(c *Ctx, h *c26Helper) [][]uint64 {
	out := [][]uint64{}
	if h.isF32() {
		out = append(out, []uint64{0x7fa00001}) // smallest witness first: one signalling NaN
	}
	bd := c26Boundary(h)
	for n := 0; n <= 33; n++ {
		p := make([]uint64, n)
		for i := range p {
			if (i+n)%3 == 2 {
				p[i] = c26RandPat(c, h)
			} else {
				p[i] = bd[(i*7+n*(n+1)/2)%len(bd)]
			}
		}
		out = append(out, p)
	}
	// every boundary value appears at least once, whatever the rotation did
	out = append(out, append([]uint64{}, bd...))
	for k := 0; k < c.Pick(2, 60); k++ {
		n := 34 + c.Rng.Intn(c.Pick(120, 300))
		p := make([]uint64, n)
		for i := range p {
			p[i] = c26RandPat(c, h)
		}
		out = append(out, p)
	}
	return out
}

func c26RandBytes(c *Ctx, n int) []byte {
	b := make([]byte, n)
	c.Rng.Read(b)
	switch c.Rng.Intn(4) {
	case 0:
		for i := range b {
			b[i] = 0xff
		}
	case 1:
		for i := range b {
			b[i] = byte(i + 1)
		}
	}
	return b
}

// ---------------------------------------------------------------------------

func runC26(c *Ctx) {
	c.Rep.Rule = "for each of the 9 public helper pairs of package ce (Int8 Uint16 Int16 Uint32 Int32 Float32 Uint64 Int64 Float64): slices of every length 0..33 plus random longer ones, elements drawn from boundary patterns (0, 1, all-ones, sign bit, byte-distinct patterns, +-Inf, denormals, quiet and signalling NaNs with payloads) and random patterns; byte strings of every length 0..33 (multiples of the width and not) plus longer ones; checks: slice->bytes->slice, bytes->slice->bytes, little-endian order against encoding/binary, OnArray payload of the iterator and CBE tail vs XAsBytes (encoder tie), slice/array/interface{} builders vs BytesToX (decoder tie); the unexported Float16 and UUID helpers via go:linkname; a case is non-trivial when its slice / byte string is non-empty; distinct = distinct (helper, check, input)"
	cf := c.Cases("c26", "CE.Model.Arrays", "arr_case", "arr_case_ok")

	// which code runs on this host
	hostLE := c26HostIsLittleEndian()
	c.Rep.Extra["host_little_endian"] = hostLE
	c.Rep.Extra["impl_isLittleEndian_flag"] = c26ImplIsLittleEndian
	if c26ImplIsLittleEndian {
		c.Rep.Extra["path"] = "unsafe fast path of arrays_impurego.go"
	} else {
		c.Rep.Extra["path"] = "byte-wise fallbacks of arrays.go (isLittleEndian is false: the probe in arrays_impurego.go init() tests bytes[1]==1, which holds on big-endian hosts only)"
	}
	cf.Add(cApp("ProbeCase", cBool(hostLE), cBool(c26ImplIsLittleEndian)), fmt.Sprintf("host little-endian=%v, arrays.isLittleEndian=%v", hostLE, c26ImplIsLittleEndian))
	c.Count("probe", true)
	c.Dist(fmt.Sprintf("probe/host_le=%v/flag=%v", hostLE, c26ImplIsLittleEndian))

	check := func(h string, kind, what string, in map[string]string, nontrivial bool, ok bool, expect, got string) {
		c.Count(h+"|"+kind+"|"+in["elems"]+in["bytes_hex"]+in["dest"]+in["order"]+in["spare"], nontrivial)
		verdict := "ok"
		if !ok {
			verdict = "FAIL"
			if h == "Float16" || h == "UUID" {
				// The Float16 and UUID helpers of internal/arrays are not exported by package ce and have no callers:
				// C26 speaks about the public helpers, so their behaviour is recorded (distribution, model) but is
				// not a violation of the property.
				verdict = "not-public-deviates"
			} else {
				c.Fail(Replay{Kind: kind, Key: "C26/" + h + "/" + what, Input: in, Expect: c26Short(expect), Got: c26Short(got)})
			}
		}
		c.Dist(h + "/" + kind + "/" + verdict)
	}

	for _, h := range c26Helpers {
		wN := cNi(h.w)
		// ---- typed slices ----
		for si, p := range c26Slices(c, h) {
			in := map[string]string{"helper": h.name, "elems": c26PatsStr(p)}
			nt := len(p) > 0
			ok, e, g := c26OracleSBS(h, p)
			check(h.name, "slice-bytes-slice", "slice-bytes-slice", in, nt, ok, e, g)
			ok, e, g = c26OracleLE(h, p)
			check(h.name, "little-endian", "little-endian", in, nt, ok, e, g)
			ok, e, g, iterBytes := c26OracleEncoderTie(h, p)
			check(h.name, "encoder-tie", "encoder-tie", in, nt, ok, e, g)

			var implBytes []byte
			if _, bad := c26Try(func() { implBytes = cp(h.asBytes(h.mk(p))) }); !bad {
				cf.Add(cApp("ToBytes", wN, cNList(p), cBytes(implBytes)), fmt.Sprintf("%sSliceAsBytes [%s]", h.name, c26Short(c26PatsStr(p))))
			}
			// the iterator's own loop: every float32 slice, a third of the others
			if iterBytes != nil && (h.isF32() || si%3 == 0 || si > 33) {
				cf.Add(cApp("IterBytes", wN, cBool(h.isF32()), cNList(p), cBytes(iterBytes)), fmt.Sprintf("iterator OnArray payload for []%s [%s]", strings.ToLower(h.name), c26Short(c26PatsStr(p))))
			}
			if len(c.Rep.Samples) < 3 && len(p) == 5 {
				c.Sample(map[string]string{"helper": h.name, "elems": c26PatsStr(p), "bytes": hex.EncodeToString(implBytes)})
			}
		}
		// ---- byte strings ----
		bss := [][]byte{}
		if h.isF32() {
			bss = append(bss, []byte{0x01, 0x00, 0xa0, 0x7f}) // one signalling NaN
		}
		for n := 0; n <= 33; n++ {
			bss = append(bss, c26RandBytes(c, n))
		}
		bss = append(bss, c26RefEncode(h.w, c26Boundary(h)))
		for k := 0; k < c.Pick(2, 60); k++ {
			bss = append(bss, c26RandBytes(c, 34+c.Rng.Intn(c.Pick(600, 1000))))
		}
		dests := []string{"slice", "array", "interface"}
		for bi, b := range bss {
			in := map[string]string{"helper": h.name, "bytes_hex": hex.EncodeToString(b)}
			nt := len(b) > 0
			ok, e, g := c26OracleBSB(h, b)
			check(h.name, "bytes-slice-bytes", "bytes-slice-bytes", in, nt, ok, e, g)
			ok, e, g = c26OracleLEDecode(h, b)
			check(h.name, "little-endian-decode", "little-endian", in, nt, ok, e, g)
			var implElems []uint64
			if _, bad := c26Try(func() { implElems = h.pats(h.fromBytes(cp(b))) }); !bad {
				cf.Add(cApp("FromBytes", wN, cBytes(b), cNList(implElems)), fmt.Sprintf("BytesTo%sSlice %s", h.name, c26Short(hex.EncodeToString(b))))
			}
			for di, dest := range dests {
				in := map[string]string{"helper": h.name, "bytes_hex": hex.EncodeToString(b), "dest": dest}
				ok, e, g, built := c26OracleDecoderTie(h, dest, b)
				check(h.name, "decoder-tie", "decoder-tie-"+dest, in, nt, ok, e, g)
				// as cases: every float32 one; of the others a quarter of the short ones and one destination of each long one
				if built != nil && (h.isF32() || (bi <= 33 && bi%4 == 0) || (bi > 33 && bi%3 == di)) {
					cf.Add(cApp("BuildElems", wN, cBool(h.isF32() && dest == "array"), cBytes(b), cNList(built)),
						fmt.Sprintf("%s built from OnArray(%s) %s", dest, strings.ToLower(h.name), c26Short(hex.EncodeToString(b))))
				}
			}
		}
	}

	// ---- Float16 (internal helpers; float32 values, top 16 bits) ----
	f32 := c26HelperByName("Float32")
	for _, p := range append([][]uint64{{0x7f800001}}, c26Slices(c, f32)...) {
		in := map[string]string{"helper": "Float16", "elems": c26PatsStr(p)}
		ok, e, g := c26OracleF16Roundtrip(p)
		check("Float16", "f16-slice-bytes-slice", "slice-bytes-slice", in, len(p) > 0, ok, e, g)
		ok, e, g = c26OracleF16NanClass(p)
		check("Float16", "f16-nan-class", "nan-class-lost", in, len(p) > 0, ok, e, g)
		var implBytes []byte
		if _, bad := c26Try(func() { implBytes = c26Float16SliceAsBytes(c26F32(p)) }); !bad {
			cf.Add(cApp("F16ToBytes", cNList(p), cBytes(implBytes)), fmt.Sprintf("Float16SliceAsBytes [%s]", c26Short(c26PatsStr(p))))
		}
	}
	for n := 0; n <= 33; n++ {
		b := c26RandBytes(c, n)
		in := map[string]string{"helper": "Float16", "bytes_hex": hex.EncodeToString(b)}
		ok, e, g := c26OracleF16Bytes(b)
		check("Float16", "f16-bytes-slice-bytes", "bytes-slice-bytes", in, n > 0, ok, e, g)
		ok, e, g = c26OracleF16DecoderTie(b)
		check("Float16", "f16-decoder-tie", "decoder-tie-interface", in, n > 0, ok, e, g)
		var implElems []uint64
		if _, bad := c26Try(func() { implElems = c26F32Pats(c26BytesToFloat16Slice(cp(b))) }); !bad {
			cf.Add(cApp("F16FromBytes", cBytes(b), cNList(implElems)), "BytesToFloat16Slice "+hex.EncodeToString(b))
		}
	}

	// ---- UUID (internal helpers) ----
	for _, n := range []int{0, 16, 32, 48, 160, 16 * c.Pick(20, 300)} {
		b := c26RandBytes(c, n)
		in := map[string]string{"helper": "UUID", "bytes_hex": hex.EncodeToString(b)}
		ok, e, g := c26OracleUUIDRoundtrip(b)
		check("UUID", "uuid-roundtrip", "roundtrip", in, n > 0, ok, e, g)
		var flat []byte
		if _, bad := c26Try(func() { flat = c26UUIDSliceAsBytes(c26Chunks16(b)) }); !bad {
			elems := c26Chunks16(b)
			ss := make([]string, len(elems))
			for i, u := range elems {
				ss[i] = cBytes(u)
			}
			cf.Add(cApp("UuidToBytes", cList(ss), cBytes(flat)), fmt.Sprintf("UUIDSliceAsBytes of %d unshared elements", len(elems)))
		}
	}
	for _, order := range [][]int{{0}, {0, 1}, {0, 1, 2}, {1, 0}, {0, 0}, {0, 2, 1}, {2, 1, 0}, {0, 3, 1, 2}} {
		in := map[string]string{"helper": "UUID", "order": strings.Trim(strings.Replace(fmt.Sprint(order), " ", ",", -1), "[]")}
		ok, e, g := c26OracleUUIDAliasing(order)
		check("UUID", "uuid-aliasing", "aliasing", in, true, ok, e, g)
	}
	for _, n := range []int{1, 15, 17, 31, 33, 40} {
		for _, spare := range []int{0, 7, 15, 16, 64} {
			b := c26RandBytes(c, n)
			in := map[string]string{"helper": "UUID", "bytes_hex": hex.EncodeToString(b), "spare": strconv.Itoa(spare)}
			ok, e, g, res, panicked := c26OracleUUIDPartialTail(b, spare)
			what := "partial-tail-overread"
			if panicked {
				what = "partial-tail-panic"
			}
			check("UUID", "uuid-partial-tail", what, in, true, ok, e, g)
			impl := "Panic"
			if !panicked {
				ss := make([]string, len(res))
				for i, u := range res {
					ss[i] = cBytes(u)
				}
				impl = cApp("Ok", cList(ss))
			}
			cf.Add(cApp("UuidFromBytes", cBytes(b), cBytes(bytes.Repeat([]byte{0xee}, spare)), impl),
				fmt.Sprintf("BytesToUUIDSlice len=%d cap=%d %s", n, n+spare, hex.EncodeToString(b)))
		}
	}
	for _, n := range []int{0, 16, 32, 64} {
		b := c26RandBytes(c, n)
		res := c26BytesToUUIDSlice(cp(b))
		ss := make([]string, len(res))
		for i, u := range res {
			ss[i] = cBytes(u)
		}
		c.Count("uuid-from|"+hex.EncodeToString(b), n > 0)
		cf.Add(cApp("UuidFromBytes", cBytes(b), "[]", cApp("Ok", cList(ss))), fmt.Sprintf("BytesToUUIDSlice len=%d", n))
	}
}

// ---------------------------------------------------------------------------

func replayC26(r *Replay) (bool, string) {
	res := func(ok bool, e, g string) (bool, string) {
		return ok, fmt.Sprintf("required %s, implementation gives %s", c26Short(e), c26Short(g))
	}
	name := r.Input["helper"]
	h := c26HelperByName(name)
	pats, perr := c26ParsePats(r.Input["elems"])
	bs, berr := hex.DecodeString(r.Input["bytes_hex"])
	needH := func() bool { return h != nil }
	switch r.Kind {
	case "slice-bytes-slice":
		if !needH() || perr != nil {
			break
		}
		return res(c26OracleSBS(h, pats))
	case "little-endian":
		if !needH() || perr != nil {
			break
		}
		return res(c26OracleLE(h, pats))
	case "encoder-tie":
		if !needH() || perr != nil {
			break
		}
		ok, e, g, _ := c26OracleEncoderTie(h, pats)
		return res(ok, e, g)
	case "bytes-slice-bytes":
		if !needH() || berr != nil {
			break
		}
		return res(c26OracleBSB(h, bs))
	case "little-endian-decode":
		if !needH() || berr != nil {
			break
		}
		return res(c26OracleLEDecode(h, bs))
	case "decoder-tie":
		if !needH() || berr != nil {
			break
		}
		ok, e, g, _ := c26OracleDecoderTie(h, r.Input["dest"], bs)
		return res(ok, e, g)
	case "f16-slice-bytes-slice":
		if perr != nil {
			break
		}
		return res(c26OracleF16Roundtrip(pats))
	case "f16-nan-class":
		if perr != nil {
			break
		}
		return res(c26OracleF16NanClass(pats))
	case "f16-bytes-slice-bytes":
		if berr != nil {
			break
		}
		return res(c26OracleF16Bytes(bs))
	case "f16-decoder-tie":
		if berr != nil {
			break
		}
		return res(c26OracleF16DecoderTie(bs))
	case "uuid-roundtrip":
		if berr != nil {
			break
		}
		return res(c26OracleUUIDRoundtrip(bs))
	case "uuid-aliasing":
		order := []int{}
		for _, x := range strings.Split(r.Input["order"], ",") {
			k, err := strconv.Atoi(x)
			if err != nil || k < 0 || k > 64 {
				return false, "bad replay input"
			}
			order = append(order, k)
		}
		// views index into a buffer of len(order) UUIDs
		for _, k := range order {
			if k >= len(order) {
				return false, "bad replay input"
			}
		}
		return res(c26OracleUUIDAliasing(order))
	case "uuid-partial-tail":
		spare, err := strconv.Atoi(r.Input["spare"])
		if berr != nil || err != nil || spare < 0 || spare > 1<<20 {
			break
		}
		ok, e, g, _, _ := c26OracleUUIDPartialTail(bs, spare)
		return res(ok, e, g)
	default:
		return false, "unknown replay kind " + r.Kind
	}
	return false, "bad replay input"
}
