package main

import (
	"bytes"
	"encoding/hex"
	"fmt"
	"strconv"
	"strings"

	"github.com/kstenerud/go-concise-encoding/ce"
	"github.com/kstenerud/go-concise-encoding/configuration"
	"github.com/kstenerud/go-uleb128"
)

func init() { register("C27", runC27, replayC27) }

func uleb(v uint64) []byte {
	buf := make([]byte, 12)
	n := uleb128.EncodeUint64ToBytes(v, buf)
	return buf[:n]
}

// outcome of an entry point, rendered for comparison: error-or-not plus the
// decoded value / the events delivered. Error text is never compared.
func renderResult(v interface{}, err error, panicked interface{}) string {
	if panicked != nil {
		return "panic"
	}
	if err != nil {
		return "err|" + canonDescribe(v)
	}
	return "ok|" + canonDescribe(v)
}

func guard(f func() string) (res string) {
	defer func() {
		if r := recover(); r != nil {
			res = "panic"
		}
	}()
	return f()
}

func c27Specific(format string, entry string, doc []byte) string {
	cfg := configuration.New()
	return guard(func() string {
		switch entry {
		case "unmarshal-doc":
			if format == "cte" {
				v, err := ce.UnmarshalFromCTEDocument(doc, nil, cfg)
				return renderResult(v, err, nil)
			}
			v, err := ce.UnmarshalFromCBEDocument(doc, nil, cfg)
			return renderResult(v, err, nil)
		case "unmarshal-reader":
			if format == "cte" {
				v, err := ce.UnmarshalCTE(bytes.NewReader(doc), nil, cfg)
				return renderResult(v, err, nil)
			}
			v, err := ce.UnmarshalCBE(bytes.NewReader(doc), nil, cfg)
			return renderResult(v, err, nil)
		case "decode-doc", "decode-reader":
			rec := &Recorder{}
			rules := ce.NewRules(rec, cfg)
			var d ce.Decoder
			if format == "cte" {
				d = ce.NewCTEDecoder(cfg)
			} else {
				d = ce.NewCBEDecoder(cfg)
			}
			var err error
			if entry == "decode-doc" {
				err = d.DecodeDocument(doc, rules)
			} else {
				err = d.Decode(bytes.NewReader(doc), rules)
			}
			return renderResult(evsString(rec.Evs), err, nil)
		}
		panic("bad entry")
	})
}

// one universal decoder instance is reused for every document of a run, so that
// state kept between calls (e.g. a cached format choice) is exercised too
var c27SharedDecoder ce.Decoder

func c27Universal(entry string, doc []byte) string {
	cfg := configuration.New()
	if c27SharedDecoder == nil {
		c27SharedDecoder = ce.NewCEDecoder(cfg)
	}
	return guard(func() string {
		switch entry {
		case "unmarshal-doc":
			v, err := ce.UnmarshalFromCEDocument(doc, nil, cfg)
			return renderResult(v, err, nil)
		case "unmarshal-reader":
			v, err := ce.UnmarshalCE(bytes.NewReader(doc), nil, cfg)
			return renderResult(v, err, nil)
		case "decode-doc", "decode-reader":
			rec := &Recorder{}
			rules := ce.NewRules(rec, cfg)
			d := c27SharedDecoder
			var err error
			if entry == "decode-doc" {
				err = d.DecodeDocument(doc, rules)
			} else {
				err = d.Decode(bytes.NewReader(doc), rules)
			}
			return renderResult(evsString(rec.Evs), err, nil)
		}
		panic("bad entry")
	})
}

func detectSpec(b byte) string {
	switch b {
	case 'c', 'C':
		return "cte"
	case 0x81:
		return "cbe"
	}
	return "none"
}

var c27Entries = []string{"unmarshal-doc", "unmarshal-reader", "decode-doc", "decode-reader"}

// c27Oracle evaluates the property on the implementation for one document and
// one entry point: universal == specific(detected format).
func c27Oracle(entry string, doc []byte) (ok bool, expect, got string) {
	got = c27Universal(entry, doc)
	f := detectSpec(doc[0])
	if f == "none" {
		// no format detected: the universal entry point must report an error
		return len(got) >= 3 && got[:3] == "err", "err|…", got
	}
	expect = c27Specific(f, entry, doc)
	return expect == got, expect, got
}

func c27Key(entry string, doc []byte) string {
	first := "other"
	switch doc[0] {
	case 'c':
		first = "c"
	case 'C':
		first = "C"
	case 0x81:
		first = "0x81"
	}
	return fmt.Sprintf("C27/dispatch/%s/first=%s", entry, first)
}

func versionAccepted(format string, v uint64) bool {
	acc, _ := versionDecode(format, v)
	return acc
}

// versionDecode decodes a minimal document announcing version v (formats: cte, CTE = upper-case header letter, cbe)
// and returns whether it was accepted and the events delivered behind the validator.
func versionDecode(format string, v uint64) (bool, string) {
	cfg := configuration.New()
	rec := &Recorder{}
	rules := ce.NewRules(rec, cfg)
	var err error
	if format == "cte" || format == "CTE" {
		letter := "c"
		if format == "CTE" {
			letter = "C"
		}
		err = ce.NewCTEDecoder(cfg).DecodeDocument([]byte(letter+strconv.FormatUint(v, 10)+" 1"), rules)
	} else {
		doc := append([]byte{0x81}, uleb(v)...)
		doc = append(doc, 1)
		err = ce.NewCBEDecoder(cfg).DecodeDocument(doc, rules)
	}
	return err == nil, evsString(rec.Evs)
}

func runC27(c *Ctx) {
	c.Rep.Rule = "dispatch: every first byte x 4 universal entry points x a body set (valid/invalid CTE and CBE bodies, generated); versions: both formats x version numbers 0..N and width boundaries; a case is non-trivial when its first byte is a recognised header or its version is 0/1 or adjacent; distinct = distinct (entry, document) or (format, version)"
	cf := c.Cases("c27", "CE.Model.Api", "api_case", "api_case_ok")

	// 1. dispatcher tables (also regenerated into Gen/ApiConsts.v)
	for b := 0; b < 256; b++ {
		d, u := ce.VerifChooseDecoder(byte(b)), ce.VerifChooseUnmarshaler(byte(b))
		cf.Add(cApp("DispatchCase", "false", cNi(b), fmtCtor(d)), fmt.Sprintf("decoder dispatch byte %d -> %s", b, d))
		cf.Add(cApp("DispatchCase", "true", cNi(b), fmtCtor(u)), fmt.Sprintf("unmarshaler dispatch byte %d -> %s", b, u))
	}

	// 2. versions
	vs := []uint64{}
	for v := uint64(0); v < uint64(c.Pick(40, 400)); v++ {
		vs = append(vs, v)
	}
	vs = append(vs, 127, 128, 129, 255, 256, 16383, 16384, 1<<32-1, 1<<32, 1<<63-1, 1<<63, 1<<64-1)
	for i := 0; i < c.Pick(20, 200); i++ {
		vs = append(vs, c.Rng.Uint64()>>uint(c.Rng.Intn(64)))
	}
	for _, f := range []string{"cte", "CTE", "cbe"} {
		_, ev0 := versionDecode(f, 0)
		for _, v := range vs {
			acc, evs := versionDecode(f, v)
			if acc && evs != ev0 {
				// "accept 0 and 1 alike": an accepted version must be indistinguishable downstream from version 0
				c.Fail(Replay{Kind: "version-alike", Key: fmt.Sprintf("C27/version-alike/%s/v=%d", f, v),
					Input:  map[string]string{"format": f, "version": strconv.FormatUint(v, 10)},
					Expect: ev0, Got: evs})
			}
			c.Count(fmt.Sprintf("ver/%s/%d", f, v), v <= 2)
			c.Dist(fmt.Sprintf("version/%s/accepted=%v", f, acc))
			cf.Add(cApp("VersionCase", fmtCtor(strings.ToLower(f)), cN(v), cBool(acc)), fmt.Sprintf("version %s %d accepted=%v", f, v, acc))
			want := v == 0 || v == 1
			if acc != want {
				c.Fail(Replay{Kind: "version", Key: fmt.Sprintf("C27/version/%s/v=%d", f, v),
					Input:  map[string]string{"format": f, "version": strconv.FormatUint(v, 10)},
					Expect: fmt.Sprintf("accepted=%v", want), Got: fmt.Sprintf("accepted=%v", acc)})
			}
		}
	}

	// 3. encoders write version 0
	for _, val := range []interface{}{1, "x", []interface{}{1, "a"}, map[string]int{"a": 1}, nil} {
		cfg := configuration.New()
		d1, e1 := ce.MarshalToCBEDocument(val, cfg)
		d2, e2 := ce.MarshalToCTEDocument(val, cfg)
		c.Count(fmt.Sprintf("wv/%v", val), true)
		if e1 != nil || len(d1) < 2 || d1[0] != 0x81 || d1[1] != 0 {
			c.Fail(Replay{Kind: "written-version", Key: "C27/written-version/cbe", Input: map[string]string{"value": fmt.Sprint(val)}, Expect: "81 00 …", Got: hex.EncodeToString(d1)})
		}
		if e2 != nil || len(d2) < 2 || !(d2[0] == 'c' && d2[1] == '0' && (len(d2) == 2 || d2[2] < '0' || d2[2] > '9')) {
			c.Fail(Replay{Kind: "written-version", Key: "C27/written-version/cte", Input: map[string]string{"value": fmt.Sprint(val)}, Expect: "c0 …", Got: string(d2)})
		}
	}

	// 4. universal vs specific on the implementation (search oracle)
	bodies := c27Bodies(c)
	heads := []byte{'c', 'C', 0x81}
	for b := 0; b < 256; b += c.Pick(5, 1) {
		heads = append(heads, byte(b))
	}
	for _, body := range bodies {
		for _, h := range heads {
			doc := append([]byte{h}, body...)
			for _, entry := range c27Entries {
				ok, expect, got := c27Oracle(entry, doc)
				c.Count(entry+"|"+string(doc), detectSpec(h) != "none")
				c.Dist("dispatch/first=" + detectSpec(h) + "/" + got[:2])
				if len(c.Rep.Samples) < 6 && detectSpec(h) != "none" {
					c.Sample(map[string]string{"entry": entry, "doc_hex": hex.EncodeToString(doc), "universal": got})
				}
				if !ok {
					c.Fail(Replay{Kind: "dispatch", Key: c27Key(entry, doc),
						Input:  map[string]string{"entry": entry, "doc_hex": hex.EncodeToString(doc)},
						Expect: expect, Got: got})
				}
			}
		}
	}
}

// c27Bodies: what follows the first byte. Mix of valid CTE tails, valid CBE
// tails, truncated and random ones.
func c27Bodies(c *Ctx) [][]byte {
	bodies := [][]byte{
		[]byte("0 1"), []byte("1 1"), []byte("0 [1 2 \"a\"]"), []byte("0 {\"a\"=1}"), []byte("0\n\"str\""), []byte("2 1"), []byte("0"), []byte(""), []byte("0 [1"),
		{0, 1}, {1, 1}, {0, 0x9a, 1, 2, 0x9b}, {0, 0x99, 0x81, 'a', 1, 0x9b}, {0, 0x82, 'h', 'i'}, {2, 1}, {0}, {0, 0x9a, 1},
	}
	for i := 0; i < c.Pick(10, 200); i++ {
		n := c.Rng.Intn(12)
		b := make([]byte, n)
		c.Rng.Read(b)
		if n > 0 && c.Rng.Intn(2) == 0 {
			b[0] = byte(c.Rng.Intn(2))
		}
		bodies = append(bodies, b)
	}
	return bodies
}

func replayC27(r *Replay) (bool, string) {
	switch r.Kind {
	case "dispatch":
		doc, err := hex.DecodeString(r.Input["doc_hex"])
		if err != nil || len(doc) == 0 {
			return false, "bad replay input"
		}
		ok, expect, got := c27Oracle(r.Input["entry"], doc)
		return ok, fmt.Sprintf("universal=%q specific(%s)=%q", got, detectSpec(doc[0]), expect)
	case "version-alike":
		v, _ := strconv.ParseUint(r.Input["version"], 10, 64)
		_, ev0 := versionDecode(r.Input["format"], 0)
		acc, evs := versionDecode(r.Input["format"], v)
		return !acc || evs == ev0, fmt.Sprintf("version %d events %q, version 0 events %q", v, evs, ev0)
	case "version":
		v, _ := strconv.ParseUint(r.Input["version"], 10, 64)
		acc := versionAccepted(r.Input["format"], v)
		want := v == 0 || v == 1
		return acc == want, fmt.Sprintf("format %s version %d accepted=%v, required %v", r.Input["format"], v, acc, want)
	}
	return false, "unknown replay kind " + r.Kind
}
