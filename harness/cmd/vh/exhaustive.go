package main

import (
	"fmt"
	"math/big"
	"strings"

	"github.com/kstenerud/go-concise-encoding/ce/events"
)

// The abstract alphabet of the bounded-exhaustive validator exploration (C10..C15).
func rulesAlphabet() []Ev {
	return []Ev{
		{K: "bd"}, {K: "v", N: 0}, {K: "ed"}, {K: "pad"}, {K: "cm", Data: []byte("c")},
		{K: "null"}, {K: "t"}, {K: "pi", N: 1}, {K: "ni", N: 1}, {K: "i", I: -1},
		{K: "fl", F: 1.5}, {K: "nan"}, {K: "uid", Data: []byte("0123456789abcdef")},
		{K: "l"}, {K: "m"}, {K: "edge"}, {K: "node"}, {K: "e"},
		{K: "rt", Data: []byte("r")}, {K: "rec", Data: []byte("r")},
		{K: "mk", Data: []byte("a")}, {K: "ref", Data: []byte("a")}, {K: "mk", Data: []byte("b")}, {K: "ref", Data: []byte("b")},
		{K: "sa", A: events.ArrayTypeString, Data: []byte("s")}, {K: "sa", A: events.ArrayTypeResourceID, Data: []byte("s")},
		{K: "a", A: events.ArrayTypeUint8, N: 1, Data: []byte{1}},
		{K: "ab", A: events.ArrayTypeString}, {K: "ab", A: events.ArrayTypeResourceID}, {K: "ab", A: events.ArrayTypeUint16},
		{K: "ac", N: 1, B: false}, {K: "ac", N: 1, B: true}, {K: "ac", N: 0, B: false}, {K: "ac", N: 0, B: true},
		{K: "ad", Data: []byte{0x73}}, {K: "ad", Data: []byte{0xc3}}, {K: "ad", Data: []byte{0xa9}}, {K: "ad", Data: []byte{0x73, 0x73}},
		{K: "mb", S: "a/b"}, {K: "cb", N: 1, Data: []byte{1}}, {K: "cbeg", A: events.ArrayTypeCustomText, N: 1},
		{K: "bi", Big: big.NewInt(-1)}, {K: "sa", A: events.ArrayTypeReferenceRemote, Data: []byte("s")},
	}
}

// exploreRules enumerates accepted prefixes breadth-first up to maxLen events (exhaustively), then adds
// `walks` random walks over accepted events up to walkLen. For every visited prefix all one-event
// extensions are tried on the implementation. visit is called with the prefix and the accept mask.
func exploreRules(c *Ctx, rc RulesCfg, maxLen int, walks int, walkLen int, visit func(prefix []int, mask *big.Int, accepted []int)) {
	alpha := rulesAlphabet()
	evsOf := func(p []int) []Ev {
		es := make([]Ev, len(p))
		for i, x := range p {
			es[i] = alpha[x]
		}
		return es
	}
	probe := func(p []int) (*big.Int, []int) {
		mask := new(big.Int)
		acc := []int{}
		base := evsOf(p)
		for i := range alpha {
			at, _, _ := runRules(rc, append(append([]Ev{}, base...), alpha[i]))
			if at >= 0 && at < len(base) {
				panic("prefix no longer accepted")
			}
			if at < 0 {
				mask.SetBit(mask, i, 1)
				acc = append(acc, i)
			}
		}
		return mask, acc
	}
	level := [][]int{{}}
	for l := 0; l <= maxLen; l++ {
		next := [][]int{}
		for _, p := range level {
			mask, acc := probe(p)
			visit(p, mask, acc)
			if l < maxLen {
				for _, a := range acc {
					next = append(next, append(append([]int{}, p...), a))
				}
			}
		}
		level = next
	}
	for w := 0; w < walks; w++ {
		p := []int{0, 1}
		for len(p) < walkLen {
			mask, acc := probe(p)
			if len(p) > maxLen {
				visit(p, mask, acc)
			}
			if len(acc) == 0 {
				break
			}
			p = append(append([]int{}, p...), acc[c.Rng.Intn(len(acc))])
		}
	}
}

func (c *Ctx) exhCases(rc RulesCfg) *caseFile {
	cf := c.Cases("exh", rulesImports, "exh_case", "exh_case_ok cfg alphabet")
	cf.perFile = 1500
	cf.preamble = "Definition cfg : rcfg := " + rc.coq() + ".\nDefinition alphabet : list event := " + cEvs(rulesAlphabet()) + "."
	return cf
}

func idxString(p []int) string {
	ss := make([]string, len(p))
	for i, x := range p {
		ss[i] = fmt.Sprint(x)
	}
	return strings.Join(ss, ";")
}
