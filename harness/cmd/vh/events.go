package main

import (
	"encoding/hex"
	"fmt"
	"math"
	"math/big"
	"strings"

	"github.com/cockroachdb/apd/v2"
	compact_float "github.com/kstenerud/go-compact-float"
	compact_time "github.com/kstenerud/go-compact-time"
	"github.com/kstenerud/go-concise-encoding/ce/events"
)

// Ev is the harness's own event value: one per DataEventReceiver call.
type Ev struct {
	K    string // bd ed v pad cm null b t f pi ni i bi fl bf df bdf nan uid tm l m rt rec edge node e mk ref a sa media cb ct ab mb cbeg ac ad
	N    uint64
	I    int64
	B    bool
	Big  *big.Int
	F    float64
	BF   *big.Float
	DF   compact_float.DFloat
	BDF  *apd.Decimal
	T    compact_time.Time
	A    events.ArrayType
	Data []byte
	S    string
}

func (e Ev) String() string {
	h := func(b []byte) string { return hex.EncodeToString(b) }
	switch e.K {
	case "v", "pi", "ni":
		return fmt.Sprintf("%s:%d", e.K, e.N)
	case "i":
		return fmt.Sprintf("i:%d", e.I)
	case "b":
		return fmt.Sprintf("b:%v", e.B)
	case "cm":
		return fmt.Sprintf("cm:%v:%s", e.B, h(e.Data))
	case "bi":
		if e.Big == nil {
			return "bi:nil"
		}
		return "bi:" + e.Big.String()
	case "fl":
		return fmt.Sprintf("fl:%016x", math.Float64bits(e.F))
	case "bf":
		if e.BF == nil {
			return "bf:nil"
		}
		return fmt.Sprintf("bf:%s/p%d", e.BF.Text('p', 0), e.BF.Prec())
	case "df":
		return fmt.Sprintf("df:%d:%d", e.DF.Coefficient, e.DF.Exponent)
	case "bdf":
		if e.BDF == nil {
			return "bdf:nil"
		}
		return fmt.Sprintf("bdf:%d:%v:%s:%d", e.BDF.Form, e.BDF.Negative, e.BDF.Coeff.String(), e.BDF.Exponent)
	case "nan":
		return fmt.Sprintf("nan:%v", e.B)
	case "uid":
		return "uid:" + h(e.Data)
	case "tm":
		return "tm:" + e.T.String()
	case "rt", "rec", "mk", "ref":
		return e.K + ":" + h(e.Data)
	case "a":
		return fmt.Sprintf("a:%d:%d:%s", e.A, e.N, h(e.Data))
	case "sa":
		return fmt.Sprintf("sa:%d:%s", e.A, h(e.Data))
	case "media":
		return fmt.Sprintf("media:%s:%s", h([]byte(e.S)), h(e.Data))
	case "cb", "ct":
		return fmt.Sprintf("%s:%d:%s", e.K, e.N, h(e.Data))
	case "ab":
		return fmt.Sprintf("ab:%d", e.A)
	case "mb":
		return "mb:" + h([]byte(e.S))
	case "cbeg":
		return fmt.Sprintf("cbeg:%d:%d", e.A, e.N)
	case "ac":
		return fmt.Sprintf("ac:%d:%v", e.N, e.B)
	case "ad":
		return "ad:" + h(e.Data)
	}
	return e.K
}

func evsString(es []Ev) string {
	ss := make([]string, len(es))
	for i, e := range es {
		ss[i] = e.String()
	}
	return strings.Join(ss, " ")
}

func cp(b []byte) []byte { return append([]byte{}, b...) }

// Recorder is a DataEventReceiver that stores deep copies of what it receives.
type Recorder struct {
	Evs    []Ev
	Errors int
}

func (r *Recorder) add(e Ev)                       { r.Evs = append(r.Evs, e) }
func (r *Recorder) OnBeginDocument()               { r.add(Ev{K: "bd"}) }
func (r *Recorder) OnEndDocument()                 { r.add(Ev{K: "ed"}) }
func (r *Recorder) OnVersion(v uint64)             { r.add(Ev{K: "v", N: v}) }
func (r *Recorder) OnPadding()                     { r.add(Ev{K: "pad"}) }
func (r *Recorder) OnComment(m bool, c []byte)     { r.add(Ev{K: "cm", B: m, Data: cp(c)}) }
func (r *Recorder) OnNull()                        { r.add(Ev{K: "null"}) }
func (r *Recorder) OnBoolean(v bool)               { r.add(Ev{K: "b", B: v}) }
func (r *Recorder) OnTrue()                        { r.add(Ev{K: "t"}) }
func (r *Recorder) OnFalse()                       { r.add(Ev{K: "f"}) }
func (r *Recorder) OnPositiveInt(v uint64)         { r.add(Ev{K: "pi", N: v}) }
func (r *Recorder) OnNegativeInt(v uint64)         { r.add(Ev{K: "ni", N: v}) }
func (r *Recorder) OnInt(v int64)                  { r.add(Ev{K: "i", I: v}) }
func (r *Recorder) OnFloat(v float64)              { r.add(Ev{K: "fl", F: v}) }
func (r *Recorder) OnDecimalFloat(v compact_float.DFloat) { r.add(Ev{K: "df", DF: v}) }
func (r *Recorder) OnUID(v []byte)                 { r.add(Ev{K: "uid", Data: cp(v)}) }
func (r *Recorder) OnNan(s bool)                   { r.add(Ev{K: "nan", B: s}) }
func (r *Recorder) OnTime(v compact_time.Time)     { r.add(Ev{K: "tm", T: v}) }
func (r *Recorder) OnList()                        { r.add(Ev{K: "l"}) }
func (r *Recorder) OnMap()                         { r.add(Ev{K: "m"}) }
func (r *Recorder) OnRecordType(id []byte)         { r.add(Ev{K: "rt", Data: cp(id)}) }
func (r *Recorder) OnRecord(id []byte)             { r.add(Ev{K: "rec", Data: cp(id)}) }
func (r *Recorder) OnEdge()                        { r.add(Ev{K: "edge"}) }
func (r *Recorder) OnNode()                        { r.add(Ev{K: "node"}) }
func (r *Recorder) OnEndContainer()                { r.add(Ev{K: "e"}) }
func (r *Recorder) OnMarker(id []byte)             { r.add(Ev{K: "mk", Data: cp(id)}) }
func (r *Recorder) OnReferenceLocal(id []byte)     { r.add(Ev{K: "ref", Data: cp(id)}) }
func (r *Recorder) OnArray(t events.ArrayType, n uint64, d []byte) {
	r.add(Ev{K: "a", A: t, N: n, Data: cp(d)})
}
func (r *Recorder) OnStringlikeArray(t events.ArrayType, d string) {
	r.add(Ev{K: "sa", A: t, Data: []byte(d)})
}
func (r *Recorder) OnMedia(mt string, d []byte)         { r.add(Ev{K: "media", S: mt, Data: cp(d)}) }
func (r *Recorder) OnCustomBinary(ct uint64, d []byte)  { r.add(Ev{K: "cb", N: ct, Data: cp(d)}) }
func (r *Recorder) OnCustomText(ct uint64, d string)    { r.add(Ev{K: "ct", N: ct, Data: []byte(d)}) }
func (r *Recorder) OnArrayBegin(t events.ArrayType)     { r.add(Ev{K: "ab", A: t}) }
func (r *Recorder) OnMediaBegin(mt string)              { r.add(Ev{K: "mb", S: mt}) }
func (r *Recorder) OnCustomBegin(t events.ArrayType, ct uint64) {
	r.add(Ev{K: "cbeg", A: t, N: ct})
}
func (r *Recorder) OnArrayChunk(n uint64, more bool) { r.add(Ev{K: "ac", N: n, B: more}) }
func (r *Recorder) OnArrayData(d []byte)             { r.add(Ev{K: "ad", Data: cp(d)}) }
func (r *Recorder) OnError()                         { r.Errors++ }
func (r *Recorder) OnBigInt(v *big.Int) {
	if v == nil {
		r.add(Ev{K: "bi"})
		return
	}
	r.add(Ev{K: "bi", Big: new(big.Int).Set(v)})
}
func (r *Recorder) OnBigFloat(v *big.Float) {
	if v == nil {
		r.add(Ev{K: "bf"})
		return
	}
	r.add(Ev{K: "bf", BF: new(big.Float).Copy(v)})
}
func (r *Recorder) OnBigDecimalFloat(v *apd.Decimal) {
	if v == nil {
		r.add(Ev{K: "bdf"})
		return
	}
	d := new(apd.Decimal)
	d.Set(v)
	r.add(Ev{K: "bdf", BDF: d})
}

// play sends one event to a receiver. Pointer payloads are copied first so the
// receiver can never alias the harness's own data.
func play(rcv events.DataEventReceiver, e Ev) {
	switch e.K {
	case "bd":
		rcv.OnBeginDocument()
	case "ed":
		rcv.OnEndDocument()
	case "v":
		rcv.OnVersion(e.N)
	case "pad":
		rcv.OnPadding()
	case "cm":
		rcv.OnComment(e.B, cp(e.Data))
	case "null":
		rcv.OnNull()
	case "b":
		rcv.OnBoolean(e.B)
	case "t":
		rcv.OnTrue()
	case "f":
		rcv.OnFalse()
	case "pi":
		rcv.OnPositiveInt(e.N)
	case "ni":
		rcv.OnNegativeInt(e.N)
	case "i":
		rcv.OnInt(e.I)
	case "bi":
		if e.Big == nil {
			rcv.OnBigInt(nil)
		} else {
			rcv.OnBigInt(new(big.Int).Set(e.Big))
		}
	case "fl":
		rcv.OnFloat(e.F)
	case "bf":
		if e.BF == nil {
			rcv.OnBigFloat(nil)
		} else {
			rcv.OnBigFloat(new(big.Float).Copy(e.BF))
		}
	case "df":
		rcv.OnDecimalFloat(e.DF)
	case "bdf":
		if e.BDF == nil {
			rcv.OnBigDecimalFloat(nil)
		} else {
			d := new(apd.Decimal)
			d.Set(e.BDF)
			rcv.OnBigDecimalFloat(d)
		}
	case "nan":
		rcv.OnNan(e.B)
	case "uid":
		rcv.OnUID(cp(e.Data))
	case "tm":
		rcv.OnTime(e.T)
	case "l":
		rcv.OnList()
	case "m":
		rcv.OnMap()
	case "rt":
		rcv.OnRecordType(cp(e.Data))
	case "rec":
		rcv.OnRecord(cp(e.Data))
	case "edge":
		rcv.OnEdge()
	case "node":
		rcv.OnNode()
	case "e":
		rcv.OnEndContainer()
	case "mk":
		rcv.OnMarker(cp(e.Data))
	case "ref":
		rcv.OnReferenceLocal(cp(e.Data))
	case "a":
		rcv.OnArray(e.A, e.N, cp(e.Data))
	case "sa":
		rcv.OnStringlikeArray(e.A, string(e.Data))
	case "media":
		rcv.OnMedia(e.S, cp(e.Data))
	case "cb":
		rcv.OnCustomBinary(e.N, cp(e.Data))
	case "ct":
		rcv.OnCustomText(e.N, string(e.Data))
	case "ab":
		rcv.OnArrayBegin(e.A)
	case "mb":
		rcv.OnMediaBegin(e.S)
	case "cbeg":
		rcv.OnCustomBegin(e.A, e.N)
	case "ac":
		rcv.OnArrayChunk(e.N, e.B)
	case "ad":
		rcv.OnArrayData(cp(e.Data))
	default:
		panic("unknown event kind " + e.K)
	}
}

// playAll feeds events until one panics; returns the index of the first
// rejected event, or -1 when every event was accepted.
func playAll(rcv events.DataEventReceiver, es []Ev) (rejectedAt int, msg string) {
	for i, e := range es {
		if m, bad := playOne(rcv, e); bad {
			return i, m
		}
	}
	return -1, ""
}

func playOne(rcv events.DataEventReceiver, e Ev) (msg string, bad bool) {
	defer func() {
		if r := recover(); r != nil {
			msg = fmt.Sprint(r)
			bad = true
		}
	}()
	play(rcv, e)
	return "", false
}
