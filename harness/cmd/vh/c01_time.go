package main

// C01, times — the bit-packed time layout of CBE (cbe/encoder.go OnTime, cbe/decoder_reader.go
// ReadDate/ReadTime/ReadTimestamp/validateTime, dependency go-compact-time) against CE.Model.CbeTime.
//
// Search oracle on the implementation, one time value per document [bd v tm ed]:
//   events -> ce.NewRules -> ce.NewCBEEncoder -> bytes -> ce.NewCBEDecoder -> ce.NewRules -> Recorder.
//   * a time inside the domain of the round-trip theorem (c01TimeProblem == "": not the zero value,
//     Time.Validate() passes, area/location name in the decoder's character class, year inside the
//     32-bit window of the format) must come back, equal FIELD BY FIELD to the value the library's own
//     constructors build from the same fields (c01TimeCanon — the Go twin of CbeTime.canon: unused fields
//     zero, a UTC zone is the library's UTC value whatever alias it was made from, offset 0 is UTC);
//   * a time outside that domain must be refused (by the encoder or by the decoder) — if it is
//     accepted and comes back as a different time, that is a silent change of data;
//   * whatever time the decoder delivers from ANY bytes (mutated encodings, crafted non-canonical
//     encodings) passes Time.Validate() and survives being encoded and decoded again.
// Correspondence (cbetime cases, CbeTime.cbetime_case_ok evaluated by coqc): the bytes the encoder
// wrote for the value and the (time, bytes consumed) the decoder produced, for every input above,
// must be exactly what the model computes.

import (
	"bytes"
	"encoding/hex"
	"fmt"
	"math/rand"
	"sort"
	"strings"

	compact_time "github.com/kstenerud/go-compact-time"
	"github.com/kstenerud/go-concise-encoding/ce"
	"github.com/kstenerud/go-concise-encoding/configuration"
)

func init() {
	// replays of kind "time" / "time-bytes" are ours; everything else stays with replayC01
	p := props["C01"]
	if p == nil {
		panic("c01_time.go: C01 is not registered yet (init order)")
	}
	prev := p.replay
	p.replay = func(r *Replay) (bool, string) {
		switch r.Kind {
		case "time":
			return replayC01Time(r)
		case "time-bytes":
			return replayC01TimeBytes(r)
		}
		return prev(r)
	}
}

// ---------------------------------------------------------------------------
// running the implementation

type c01TimeObs struct {
	T compact_time.Time
	N int // bytes of the value (type code included) consumed when OnTime fired
}

type c01CountingReader struct {
	r *bytes.Reader
	n int
}

func (c *c01CountingReader) Read(p []byte) (int, error) {
	n, err := c.r.Read(p)
	c.n += n
	return n, err
}

type c01TimeCatcher struct {
	Recorder
	src  *c01CountingReader
	obs  *c01TimeObs
	seen int
}

func (c *c01TimeCatcher) OnTime(v compact_time.Time) {
	if c.seen == 0 {
		c.obs = &c01TimeObs{T: v, N: c.src.n - 2}
	}
	c.seen++
	c.Recorder.OnTime(v)
}

// the decoder (no validator behind it) on the document 81 00 <value...>: the first time it delivers and the
// number of value bytes read up to then; nil when it stops before delivering a time
func c01DecodeValue(value []byte) (obs *c01TimeObs) {
	src := &c01CountingReader{r: bytes.NewReader(cbeDoc(value...))}
	rc := &c01TimeCatcher{src: src}
	func() {
		defer func() { recover() }()
		ce.NewCBEDecoder(configuration.New()).Decode(src, rc)
	}()
	if len(rc.Evs) >= 3 && rc.Evs[2].K == "tm" {
		return rc.obs
	}
	return nil
}

// the encoder alone (what Encoder.OnTime writes for the value): nil when it panicked
func c01EncodeValue(t compact_time.Time) []byte {
	doc, rej, _ := c03CbeEncode(c03DocOf(Ev{K: "tm", T: t}))
	if rej >= 0 || len(doc) < 2 {
		return nil
	}
	return doc[2:]
}

// ---------------------------------------------------------------------------
// the domain of the theorem and the canonical value (Go twins of CbeTime.time_ok / CbeTime.canon)

var c01DayMax = [...]uint8{0, 31, 29, 31, 30, 31, 30, 31, 31, 30, 31, 30, 31}

func c01AreaCharsOK(name string) bool {
	for i := 0; i < len(name); i++ {
		ch := name[i]
		first := ch >= 'A' && ch <= 'Z'
		next := first || (ch >= 'a' && ch <= 'z') || (ch >= '0' && ch <= '9') || ch == '_' || ch == '-' || ch == '.' || ch == '/' || ch == '+'
		if (i == 0 && !first) || !next {
			return false
		}
	}
	return true
}

// "" when the round trip is required to preserve the value; otherwise why it is outside
func c01TimeProblem(t compact_time.Time) string {
	if t.IsZeroValue() {
		return "zero-value"
	}
	if t.Type == compact_time.TimeTypeDate || t.Type == compact_time.TimeTypeTimestamp {
		switch {
		case t.Year == 0:
			return "year-zero"
		case t.Year < -2147481648 || t.Year > 2147485647:
			return "year-beyond-32-bits"
		case t.Month < 1 || t.Month > 12:
			return "month-out-of-range"
		case t.Day < 1 || t.Day > c01DayMax[t.Month]:
			return "day-out-of-range"
		}
	}
	if t.Type == compact_time.TimeTypeTime || t.Type == compact_time.TimeTypeTimestamp {
		switch {
		case t.Hour > 23:
			return "hour-out-of-range"
		case t.Minute > 59:
			return "minute-out-of-range"
		case t.Second > 60:
			return "second-out-of-range"
		case t.Nanosecond > 999999999:
			return "nanosecond-out-of-range"
		}
		z := t.Timezone
		switch z.Type {
		case compact_time.TimezoneTypeLocal:
			if z.ShortAreaLocation != "L" {
				return "zone-inconsistent"
			}
		case compact_time.TimezoneTypeAreaLocation:
			if len(z.LongAreaLocation) == 0 || len(z.LongAreaLocation) > 127 {
				return "area-location-length"
			}
			if !c01AreaCharsOK(z.LongAreaLocation) {
				return "area-location-characters"
			}
			w := compact_time.TZAtAreaLocation(z.ShortAreaLocation)
			if w.Type != z.Type || w.ShortAreaLocation != z.ShortAreaLocation || w.LongAreaLocation != z.LongAreaLocation || len(z.ShortAreaLocation) > 127 {
				return "zone-inconsistent"
			}
		case compact_time.TimezoneTypeLatitudeLongitude:
			if z.LatitudeHundredths < -9000 || z.LatitudeHundredths > 9000 || z.LongitudeHundredths < -18000 || z.LongitudeHundredths > 18000 {
				return "latitude-longitude-out-of-range"
			}
		case compact_time.TimezoneTypeUTCOffset:
			if z.MinutesOffsetFromUTC < -1439 || z.MinutesOffsetFromUTC > 1439 {
				return "utc-offset-out-of-range"
			}
		case compact_time.TimezoneTypeUTC:
		default:
			return "zone-type-unknown"
		}
	}
	if t.Type > compact_time.TimeTypeTimestamp {
		return "time-type-unknown"
	}
	return ""
}

func c01ZoneCanon(z compact_time.Timezone) compact_time.Timezone {
	switch z.Type {
	case compact_time.TimezoneTypeUTC:
		return compact_time.TZAtUTC()
	case compact_time.TimezoneTypeLocal:
		return compact_time.TZLocal()
	case compact_time.TimezoneTypeAreaLocation:
		return compact_time.Timezone{Type: z.Type, ShortAreaLocation: z.ShortAreaLocation, LongAreaLocation: z.LongAreaLocation}
	case compact_time.TimezoneTypeLatitudeLongitude:
		return compact_time.Timezone{Type: z.Type, LatitudeHundredths: z.LatitudeHundredths, LongitudeHundredths: z.LongitudeHundredths}
	case compact_time.TimezoneTypeUTCOffset:
		if z.MinutesOffsetFromUTC == 0 {
			return compact_time.TZAtUTC()
		}
		return compact_time.Timezone{Type: z.Type, MinutesOffsetFromUTC: z.MinutesOffsetFromUTC}
	}
	return z
}

func c01TimeCanon(t compact_time.Time) compact_time.Time {
	switch t.Type {
	case compact_time.TimeTypeDate:
		return compact_time.Time{Type: t.Type, Year: t.Year, Month: t.Month, Day: t.Day, Timezone: compact_time.Timezone{Type: compact_time.TimezoneTypeLocal}}
	case compact_time.TimeTypeTime:
		return compact_time.Time{Type: t.Type, Hour: t.Hour, Minute: t.Minute, Second: t.Second, Nanosecond: t.Nanosecond, Timezone: c01ZoneCanon(t.Timezone)}
	}
	c := t
	c.Timezone = c01ZoneCanon(t.Timezone)
	return c
}

// first field in which two times differ ("" when equal)
func c01TimeDiff(a, b compact_time.Time) string {
	switch {
	case a.Type != b.Type:
		return "type"
	case a.Year != b.Year:
		return "year"
	case a.Month != b.Month:
		return "month"
	case a.Day != b.Day:
		return "day"
	case a.Hour != b.Hour:
		return "hour"
	case a.Minute != b.Minute:
		return "minute"
	case a.Second != b.Second:
		return "second"
	case a.Nanosecond != b.Nanosecond:
		return "nanosecond"
	case a.Timezone.Type != b.Timezone.Type:
		return "zone-type"
	case a.Timezone != b.Timezone:
		return "zone"
	}
	return ""
}

func c01TimeText(t compact_time.Time) string {
	z := t.Timezone
	return fmt.Sprintf("Time{Type:%d Year:%d Month:%d Day:%d Hour:%d Minute:%d Second:%d Nanosecond:%d Timezone{Type:%d Short:%q Long:%q Lat:%d Long:%d Minutes:%d}}",
		t.Type, t.Year, t.Month, t.Day, t.Hour, t.Minute, t.Second, t.Nanosecond, z.Type, z.ShortAreaLocation, z.LongAreaLocation,
		z.LatitudeHundredths, z.LongitudeHundredths, z.MinutesOffsetFromUTC)
}

// ---------------------------------------------------------------------------
// the oracle

// c01TimeOracle runs the C01 pipeline on one time. ok=false: the property is violated; key names the class.
func c01TimeOracle(t compact_time.Time) (ok bool, key, expect, got string, doc []byte) {
	problem := c01TimeProblem(t)
	es := c03DocOf(Ev{K: "tm", T: t})
	doc, out, stage, _, msg := c01Pipeline(es)
	want := c01TimeCanon(t)
	if problem == "" {
		expect = "comes back as " + c01TimeText(want)
		switch stage {
		case "encode":
			return false, "C01/time/valid-time-refused-by-encoder", expect, "refused while encoding: " + msg, doc
		case "decode":
			return false, "C01/time/valid-time-rejected-by-decoder", expect, "the decoder rejects the encoder's document: " + msg, doc
		}
		if len(out) != 4 || out[2].K != "tm" {
			return false, "C01/time/valid-time-changed/kind", expect, evsString(out), doc
		}
		if d := c01TimeDiff(want, out[2].T); d != "" {
			return false, "C01/time/valid-time-changed/" + d, expect, c01TimeText(out[2].T), doc
		}
		return true, "", expect, "", doc
	}
	expect = "refused (" + problem + "), or unchanged"
	if stage != "" {
		return true, "", expect, "refused at stage " + stage, doc
	}
	if problem == "zone-inconsistent" || problem == "zone-type-unknown" || problem == "time-type-unknown" {
		// a struct no constructor builds: outside the property, only the model comparison applies
		return true, "", expect, "not judged", doc
	}
	if len(out) == 4 && out[2].K == "tm" && c01TimeDiff(want, out[2].T) == "" {
		return true, "", expect, "unchanged", doc
	}
	g := evsString(out)
	if len(out) == 4 && out[2].K == "tm" {
		g = c01TimeText(out[2].T)
	}
	switch {
	case problem == "zero-value":
		return false, "C01/time/zero-value-written-as-null", expect, g, doc
	case problem == "year-beyond-32-bits":
		return false, "C01/time/year-beyond-32-bits", expect, g, doc
	case len(out) == 4 && out[2].K == "tm" && out[2].T.IsZeroValue():
		return false, "C01/time/read-back-as-zero-value", expect, g, doc
	}
	return false, "C01/time/out-of-range-field-changed-silently/" + strings.TrimSuffix(problem, "-out-of-range"), expect, g, doc
}

func c01TimeGob(t compact_time.Time) string { return evsToGob(c03DocOf(Ev{K: "tm", T: t})) }

func replayC01Time(r *Replay) (bool, string) {
	es, err := evsFromGob(r.Input["events_gob"])
	if err != nil || len(es) != 4 || es[2].K != "tm" {
		return false, "cannot replay: bad events_gob"
	}
	ok, key, expect, got, doc := c01TimeOracle(es[2].T)
	return ok, fmt.Sprintf("time %s: document %s: key %q expected %s, got %s", c01TimeText(es[2].T), hex.EncodeToString(doc), key, expect, got)
}

// c01BytesOracle: whatever the decoder (with rules) delivers from value bytes is a valid time that survives re-encoding
func c01BytesOracle(value []byte) (ok bool, key, expect, got string) {
	evs, err := c03CbeDecodeRules(cbeDoc(value...))
	if err != nil || len(evs) != 4 || evs[2].K != "tm" {
		return true, "", "", "not accepted"
	}
	t := evs[2].T
	if t.IsZeroValue() {
		return true, "", "", "zero value"
	}
	if verr := t.Validate(); verr != nil {
		return false, "C01/time/decoder-accepts-invalid-time", "accepted times pass Time.Validate()", c01TimeText(t) + ": " + verr.Error()
	}
	if p := c01TimeProblem(t); p != "" {
		return false, "C01/time/decoder-accepts-time-outside-domain/" + p, "accepted times are inside the domain of the round trip", c01TimeText(t)
	}
	if ok2, key2, e2, g2, _ := c01TimeOracle(t); !ok2 {
		return false, strings.Replace(key2, "C01/time/", "C01/time/decoded-", 1), e2, g2
	}
	return true, "", "", c01TimeText(t)
}

func replayC01TimeBytes(r *Replay) (bool, string) {
	value, err := hex.DecodeString(r.Input["value_hex"])
	if err != nil {
		return false, "cannot replay: bad value_hex"
	}
	ok, key, expect, got := c01BytesOracle(value)
	return ok, fmt.Sprintf("value bytes %x: key %q expected %s, got %s", value, key, expect, got)
}

// ---------------------------------------------------------------------------
// Coq terms

func c01ZoneTerm(z compact_time.Timezone) string {
	kind := []string{"ZUnset", "ZUTC", "ZLocal", "ZArea", "ZLatLong", "ZOffset"}[z.Type]
	return fmt.Sprintf("{| z_kind := %s; z_short := %s; z_long := %s; z_lat := %s; z_lon := %s; z_min := %s |}", kind,
		cBytes([]byte(z.ShortAreaLocation)), cBytes([]byte(z.LongAreaLocation)), cZ(int64(z.LatitudeHundredths)),
		cZ(int64(z.LongitudeHundredths)), cZ(int64(z.MinutesOffsetFromUTC)))
}

func c01TimeTerm(t compact_time.Time) string {
	kind := []string{"KDate", "KTime", "KTimestamp"}[t.Type]
	return fmt.Sprintf("{| g_kind := %s; g_year := %s; g_month := %d; g_day := %d; g_hour := %d; g_minute := %d; g_second := %d; g_nano := %d; g_zone := %s |}",
		kind, cZ(int64(t.Year)), t.Month, t.Day, t.Hour, t.Minute, t.Second, t.Nanosecond, c01ZoneTerm(t.Timezone))
}

func c01ObsTerm(o *c01TimeObs) string {
	if o == nil {
		return "None"
	}
	return cSome(cPair(c01TimeTerm(o.T), cNi(o.N)))
}

func c01InTimeModel(t compact_time.Time) bool {
	return t.Type <= compact_time.TimeTypeTimestamp && t.Timezone.Type <= compact_time.TimezoneTypeUTCOffset
}

// ---------------------------------------------------------------------------
// inputs

type c01TimeInput struct {
	T     compact_time.Time
	Class string
}

func c01AreaNames(thorough bool) []string {
	names := []string{"Europe/Berlin", "E/Berlin", "America/Argentina/Buenos_Aires", "M/New_York", "Q", "Q/x", "F/", "Africa/", "Local/x", "Zero/x",
		"Z/x", "L/x", "A", "A+b-c_d.e/F9", "Etc/GMT-14", "C/GMT-14", "C/UTC", "C/GMT", "Local", "L", "Z", "UTC", "Etc/UTC", "Etc/GMT", "Etc/GMT+0", "Zero",
		"Factory", "Zulu", "Antarctica/Troll", "N/Troll", "Indian/x", "Pacific/Guam", "Atlantic/y", "Asia/z", "Arctic/w", "Australia/v", "Europe", "E", "Europe//x",
		"/", "", "x", "europe/berlin", "1abc", "A b", "A\"b", "\xc3\x84", "A/\xc3\xa9", "A\nB", "A]", "_A", "-1", "+1", ".A", "A\x00", "A\xff"}
	lens := []int{2, 3, 63, 64, 126, 127, 128, 129, 200, 254, 255, 256, 300}
	if thorough {
		lens = nil
		for n := 2; n <= 130; n++ {
			lens = append(lens, n)
		}
		lens = append(lens, 200, 254, 255, 256, 257, 300, 511, 512)
	}
	for _, n := range lens {
		names = append(names, "A"+strings.Repeat("b", n-1))
		if n > 8 {
			names = append(names, "Africa/"+strings.Repeat("x", n-7))  // long name of n bytes, short name 5 shorter
			names = append(names, "F/"+strings.Repeat("y", n-2))       // short name of n bytes, long name 5 longer
			names = append(names, "America/"+strings.Repeat("z", n-8)) // 6 shorter
		}
	}
	return names
}

var c01NanoValues = []int{0, 1, 9, 10, 99, 100, 999, 1000, 1001, 9999, 10000, 99999, 100000, 999999, 1000000, 1000001, 1001000, 9999999, 10000000,
	99999999, 100000000, 123456789, 500000000, 999000000, 999999000, 999999999, 1023, 1024, 1023000, 1024000, 1048575, 1048576}

var c01Years = []int{1, -1, 2, 1999, 2000, 2001, 1936, 1935, 2063, 2064, 1996, 2003, 2004, 1995, 1984, 2015, 2016, 1983, // low-bit boundaries of the four layouts
	-2000, 10000, -10000, 18383, 18384, -14384, -14385, 2099151, 2099152, -2095152, -2095153, // ULEB128 group boundaries (2^14, 2^21 after 7 low bits)
	99999, -99999, 1000000, 268437455, 268437456, 2147483647, 2147483648, -2147483648, 2147485647, -2147481648}

func c01ValidZones(thorough bool) []compact_time.Timezone {
	z := []compact_time.Timezone{compact_time.TZAtUTC(), compact_time.TZLocal()}
	for _, a := range c01AreaNames(thorough) {
		z = append(z, compact_time.TZAtAreaLocation(a))
	}
	for _, ll := range [][2]int{{0, 0}, {9000, 18000}, {-9000, -18000}, {1, -1}, {-1, 1}, {9000, -18000}, {-9000, 18000}, {8999, 17999}, {-8999, -17999}, {4321, -12345}, {-5, 5}, {100, -100},
		{9001, 0}, {0, 18001}, {-9001, 0}, {0, -18001}, {16383, 32767}, {-16384, -32768}, {16384, 0}, {-16385, 0}, {32767, 1}, {-32768, -1}, {0, 32768}, {0, 65535}} {
		z = append(z, compact_time.TZAtLatLong(ll[0], ll[1]))
	}
	for _, off := range []int{1, -1, 59, 60, -60, 720, -720, 1439, -1439, 1440, -1440, 2047, -2048, 2048, -2049, 4095, 4096, -4096, 4097, 32767, -32768, 65536} {
		z = append(z, compact_time.TZWithMiutesOffsetFromUTC(off))
	}
	// structs no constructor builds
	z = append(z,
		compact_time.Timezone{Type: compact_time.TimezoneTypeUTCOffset},
		compact_time.Timezone{Type: compact_time.TimezoneTypeUTC, LongAreaLocation: "anything", ShortAreaLocation: "Q", MinutesOffsetFromUTC: 5},
		compact_time.Timezone{Type: compact_time.TimezoneTypeLatitudeLongitude, LatitudeHundredths: 12, LongitudeHundredths: -34, ShortAreaLocation: "E/Berlin", LongAreaLocation: "Europe/Berlin", MinutesOffsetFromUTC: 7},
		compact_time.Timezone{Type: compact_time.TimezoneTypeUTCOffset, MinutesOffsetFromUTC: -90, LatitudeHundredths: 1, LongAreaLocation: "X"},
		compact_time.Timezone{Type: compact_time.TimezoneTypeAreaLocation, ShortAreaLocation: "E/Berlin", LongAreaLocation: "Europe/Berlin", LatitudeHundredths: 3, MinutesOffsetFromUTC: 4},
		compact_time.Timezone{Type: compact_time.TimezoneTypeAreaLocation, ShortAreaLocation: "F/Cairo", LongAreaLocation: "Bogus"},
		compact_time.Timezone{Type: compact_time.TimezoneTypeAreaLocation, ShortAreaLocation: "", LongAreaLocation: "Europe/Berlin"},
		compact_time.Timezone{Type: compact_time.TimezoneTypeAreaLocation, ShortAreaLocation: "Z", LongAreaLocation: "Zed"},
		compact_time.Timezone{Type: compact_time.TimezoneTypeLocal, ShortAreaLocation: "Q", LongAreaLocation: "Local"},
		compact_time.Timezone{Type: compact_time.TimezoneTypeLocal},
	)
	return z
}

// every directed input, essential ones (kept in the quick tier) first
func c01DirectedTimes(thorough bool) (essential, more []c01TimeInput) {
	utc := compact_time.TZAtUTC()
	add := func(dst *[]c01TimeInput, class string, t compact_time.Time) {
		*dst = append(*dst, c01TimeInput{t, class})
	}
	// dates and timestamps over the year boundaries; a timestamp per sub-second magnitude (the year's low-bit count differs)
	for i, y := range c01Years {
		md := [][2]int{{1, 1}, {12, 31}, {2, 29}, {6, 30}}[i%4]
		last := i >= len(c01Years)-8
		dd := &more
		if i%2 == 0 || last {
			dd = &essential
		}
		add(dd, "year", compact_time.NewDate(y, md[0], md[1]))
		for j, ns := range []int{0, 7000000, 7000, 7} {
			dst := &more
			if i%4 == j && (i%2 == 1 || last) {
				dst = &essential
			}
			add(dst, "year", compact_time.NewTimestamp(y, md[0], md[1], 23, 59, 60, ns, utc))
		}
	}
	// month / day, all of them
	for mo := 0; mo <= 16; mo++ {
		for _, d := range []int{0, 1, 28, 29, 30, 31, 32} {
			dst := &more
			if (mo >= 1 && mo <= 12 && (d == int(c01DayMax[mo]) || d == int(c01DayMax[mo])+1)) || ((mo == 0 || mo == 13 || mo == 1) && d <= 1) {
				dst = &essential
			}
			add(dst, "month-day", compact_time.NewDate(2020, mo, d))
			if d != 28 {
				add(&more, "month-day", compact_time.NewTimestamp(-44, mo, d, 1, 2, 3, 0, utc))
			}
		}
	}
	// month / day wider than their bit fields: the excess lands in the neighbouring field
	add(&essential, "month-day", compact_time.NewDate(2020, 17, 1))
	add(&essential, "month-day", compact_time.NewDate(2020, 1, 33))
	add(&essential, "month-day", compact_time.NewTimestamp(2020, 151, 1, 13, 1, 25, 204313576, compact_time.TZAtAreaLocation("Arctic/w")))
	// clock fields up to and beyond the field widths
	for _, h := range []int{0, 1, 12, 23, 24, 31, 32, 37, 255} {
		add(&essential, "hour", compact_time.NewTime(h, 0, 0, 0, utc))
		add(&more, "hour", compact_time.NewTimestamp(2021, 3, 4, h, 30, 30, 5000, utc))
	}
	for _, m := range []int{1, 59, 60, 63, 64, 255} {
		add(&essential, "minute", compact_time.NewTime(1, m, 0, 0, utc))
		add(&more, "minute", compact_time.NewTimestamp(2021, 3, 4, 5, m, 30, 5000000, utc))
	}
	for _, s := range []int{1, 59, 60, 61, 63, 64, 255} {
		add(&essential, "second", compact_time.NewTime(1, 2, s, 0, utc))
		add(&more, "second", compact_time.NewTimestamp(2021, 3, 4, 5, 6, s, 5, utc))
	}
	for i, ns := range c01NanoValues {
		add(&essential, "nanosecond", compact_time.NewTime(23, 59, 60, ns, utc))
		dst := &more
		if i%5 == 0 {
			dst = &essential
		}
		add(dst, "nanosecond", compact_time.NewTimestamp(1987, 6, 5, 4, 3, 2, ns, compact_time.TZAtAreaLocation("E/Berlin")))
	}
	for _, ns := range []uint32{1000000000, 1000000001, 1023000000, 1024000000, 1048575000, 1048576000, 1073741823, 1073741824, 2000000000, 4294967295, 4294967000, 4294000000} {
		t := compact_time.NewTime(1, 2, 3, 0, utc)
		t.Nanosecond = ns
		add(&essential, "nanosecond", t)
		ts := compact_time.NewTimestamp(2000, 1, 1, 1, 2, 3, 0, utc)
		ts.Nanosecond = ns
		add(&more, "nanosecond", ts)
	}
	// zones: each with a time, a third of them also with a timestamp of another magnitude
	for i, z := range c01ValidZones(thorough) {
		dst := &essential
		ls, ll := len(z.ShortAreaLocation), len(z.LongAreaLocation)
		switch {
		case z.Type == compact_time.TimezoneTypeAreaLocation && i >= 2+40 && !(ls == 63 || ls == 64 || ls == 127 || ll == 127 || ll == 128 || ls == 128):
			dst = &more
		case z.Type == compact_time.TimezoneTypeLatitudeLongitude && i%2 == 1, z.Type == compact_time.TimezoneTypeUTCOffset && i%3 == 2:
			dst = &more
		}
		add(dst, "zone", compact_time.NewTime(12, 34, 56, []int{0, 789000000, 789000, 789}[i%4], z))
		if i%3 == 0 || thorough {
			add(&more, "zone", compact_time.NewTimestamp(2024, 2, 29, 1, 2, 3, []int{4, 0, 4000000, 4000}[i%4], z))
		}
	}
	// zero values, dates carrying junk in the unused fields, the zero timestamp's neighbours
	add(&essential, "zero", compact_time.ZeroDate())
	add(&essential, "zero", compact_time.ZeroTime())
	add(&essential, "zero", compact_time.ZeroTimestamp())
	junk := compact_time.NewDate(2022, 2, 2)
	junk.Hour, junk.Nanosecond, junk.Timezone = 9, 9, compact_time.TZAtLatLong(1, 2)
	add(&essential, "unused-fields", junk)
	tj := compact_time.NewTime(1, 2, 3, 4, utc)
	tj.Year, tj.Month, tj.Day = 1999, 13, 77
	add(&essential, "unused-fields", tj)
	add(&essential, "zero-neighbour", compact_time.NewDate(2000, 0, 0))
	add(&essential, "zero-neighbour", compact_time.NewTimestamp(2000, 0, 0, 0, 0, 0, 0, utc))
	add(&essential, "zero-neighbour", compact_time.NewTimestamp(2000, 0, 0, 1, 2, 3, 4, utc))
	add(&essential, "zero-neighbour", compact_time.NewTimestamp(2000, 0, 0, 1, 2, 3, 4, compact_time.TZLocal()))
	add(&essential, "zero-neighbour", compact_time.NewDate(2000, 1, 1))
	return
}

// random times: valid ones (three quarters) and ones with a field pushed anywhere inside its Go type
func c01RandomTime(r *rand.Rand, zones []compact_time.Timezone) compact_time.Time {
	pick := func(valid, full int) int {
		if r.Intn(8) == 0 {
			return r.Intn(full)
		}
		return r.Intn(valid)
	}
	year := c01Years[r.Intn(len(c01Years))]
	switch r.Intn(4) {
	case 0:
		year = r.Intn(6000) - 2000
	case 1:
		year = int(r.Int63n(1<<33)) - 1<<32
	}
	if year == 0 {
		year = -5
	}
	mo, d := 1+pick(12, 255), 1+pick(28, 255)
	h, mi, s := pick(24, 256), pick(60, 256), pick(61, 256)
	ns := c01NanoValues[r.Intn(len(c01NanoValues))]
	switch r.Intn(4) {
	case 0:
		ns = r.Intn(1000) * 1000000
	case 1:
		ns = r.Intn(1000000) * 1000
	case 2:
		ns = r.Intn(1000000000)
	}
	z := zones[r.Intn(len(zones))]
	switch r.Intn(6) {
	case 0:
		z = compact_time.TZAtLatLong(r.Intn(18001)-9000, r.Intn(36001)-18000)
	case 1:
		z = compact_time.TZWithMiutesOffsetFromUTC(r.Intn(2879) - 1439)
	}
	switch r.Intn(3) {
	case 0:
		return compact_time.NewDate(year, mo, d)
	case 1:
		return compact_time.NewTime(h, mi, s, ns, z)
	}
	return compact_time.NewTimestamp(year, mo, d, h, mi, s, ns, z)
}

// crafted value bytes: the non-canonical and the refused encodings
func c01CraftedValues() [][]byte {
	v := [][]byte{
		{0x7a, 0, 0, 0}, {0x7b, 0, 0, 0}, {0x7c, 0, 0, 0, 0, 0}, // the zero values
		{0x7a, 0x21, 0x00, 0x00}, {0x7a, 0x21, 0x00, 0x80, 0x00}, {0x7a, 0x21, 0x00, 0x80, 0x80, 0x00}, // 2000-01-01, ULEB128 padded
		{0x7a, 0x21, 0x00, 0x80, 0x80, 0x80, 0x80, 0x80, 0x80, 0x80, 0x00}, {0x7a, 0x21, 0x00, 0x80, 0x80, 0x80, 0x80, 0x80, 0x80, 0x80, 0x80, 0x00}, // 8 / 9 groups
		{0x7a, 0x21, 0x00, 0xff, 0xff, 0xff, 0x0f}, {0x7a, 0x21, 0xfe, 0xff, 0xff, 0xff, 0x0f}, {0x7a, 0x21, 0x00, 0x80, 0x80, 0x80, 0x10}, // year at / over 32 bits
		{0x7a, 0x21, 0xfe, 0xff, 0xff, 0xff, 0x1f}, {0x7a, 0x21, 0x00, 0xff, 0xff, 0xff, 0xff, 0xff, 0xff, 0xff, 0xff, 0xff, 0x01},
		{0x7a, 0x21}, {0x7a, 0x21, 0x00}, {0x7a, 0x21, 0x00, 0x80}, {0x7a},
		{0x7b, 0x00, 0x00, 0xf0}, {0x7b, 0x00, 0x00, 0xe0}, {0x7b, 0x00, 0x00, 0x70}, {0x7b, 0x00, 0x00, 0x00, 0xff}, // reserved bits of a time
		{0x7b, 0x06, 0x00, 0x00, 0x00, 0x00, 0x00, 0xfc}, {0x7b, 0x04, 0x00, 0x00, 0x00, 0x00}, {0x7b, 0x02, 0x00, 0x00, 0xc0}, // magnitude 3 / 2 / 1 with subsecond 0
		{0x7b, 0x06, 0x00, 0x00, 0x00, 0x00, 0x00, 0x00}, {0x7b, 0x06, 0x00, 0x00, 0x00, 0x00, 0x00, 0x7c},
		{0x7b, 0x46, 0x1f, 0x00, 0x00, 0x00, 0x00, 0xfc}, // magnitude 3, 1000 ns
		{0x7b, 0x01, 0x00, 0xf0, 0x02, 'Z'}, {0x7b, 0x01, 0x00, 0xf0, 0x02, 'L'}, {0x7b, 0x01, 0x00, 0xf0, 0x02, 'A'}, {0x7b, 0x01, 0x00, 0xf0, 0x02, 'a'},
		{0x7b, 0x01, 0x00, 0xf0, 0x00, 0x00, 0x00}, {0x7b, 0x01, 0x00, 0xf0, 0x00, 0x01, 0x10}, {0x7b, 0x01, 0x00, 0xf0, 0x00, 0x01, 0xf0}, {0x7b, 0x01, 0x00, 0xf0, 0x00, 0xff, 0x0f},
		{0x7b, 0x01, 0x00, 0xf0, 0x00, 0xff, 0xff}, {0x7b, 0x01, 0x00, 0xf0, 0x00, 0x00, 0x08}, {0x7b, 0x01, 0x00, 0xf0, 0x00, 0x9f, 0x05}, {0x7b, 0x01, 0x00, 0xf0, 0x00, 0xa0, 0x05},
		{0x7b, 0x01, 0x00, 0xf0, 0x00, 0x61, 0xfa}, {0x7b, 0x01, 0x00, 0xf0, 0x00, 0x60, 0xfa}, {0x7b, 0x01, 0x00, 0xf0, 0x00, 0x00}, {0x7b, 0x01, 0x00, 0xf0, 0x00},
		{0x7b, 0x01, 0x00, 0xf0, 0x01, 0x00, 0x00, 0x00}, {0x7b, 0x01, 0x00, 0xf0, 0x51, 0x46, 0x50, 0x46}, {0x7b, 0x01, 0x00, 0xf0, 0x51, 0x46, 0x52, 0x46}, {0x7b, 0x01, 0x00, 0xf0, 0xb1, 0xb9, 0xb0, 0xb9},
		{0x7b, 0x01, 0x00, 0xf0, 0xaf, 0xb9, 0xb0, 0xb9}, {0x7b, 0x01, 0x00, 0xf0, 0xff, 0xff, 0xff, 0xff}, {0x7b, 0x01, 0x00, 0xf0, 0x01, 0x80, 0x00, 0x80}, {0x7b, 0x01, 0x00, 0xf0, 0x01, 0x00, 0x00},
		{0x7b, 0x01, 0x00, 0xf0}, {0x7b, 0x01, 0x00}, {0x7b},
		{0x7c, 0x00, 0x00, 0x00, 0x00, 0x00}, {0x7c, 0x00, 0x00, 0x00, 0x08, 0x00}, {0x7c, 0x00, 0x00, 0x00, 0x00, 0x80, 0x00}, {0x7c, 0xf8, 0xff, 0xff, 0x1f, 0x00},
		{0x7c, 0x01, 0x00, 0x00, 0x00, 0x00, 0x02, 'L'}, {0x7c, 0x01, 0x00, 0x00, 0x00, 0x00}, {0x7c, 0x00, 0x00, 0x21, 0x00}, {0x7c, 0x00, 0x00, 0x21},
		{0x7c, 0x02, 0x00, 0x00, 0x10, 0x02, 0x80, 0x80, 0x80, 0x80, 0x80, 0x80, 0x80, 0x80, 0x00}, {0x7c, 0x02, 0x00, 0x00, 0x10, 0x02, 0x80, 0x80, 0x80, 0x80, 0x80, 0x80, 0x80, 0x80, 0x80, 0x00},
		{0x7c, 0x00, 0x00, 0x21, 0x00, 0x80, 0x80, 0x80, 0x80, 0x80, 0x80, 0x80, 0x80, 0x00},
	}
	for _, name := range []string{"Etc/GMT", "Etc/UTC", "Zero", "Local", "UTC", "Africa/Cairo", "F/Cairo", "Q/x", "Local/x", "L/x", "Europe", "europe", "A b", "A\x00", "A\xc3\xa9",
		strings.Repeat("A", 127), "Africa/" + strings.Repeat("x", 120), "Africa/" + strings.Repeat("x", 119), "F/" + strings.Repeat("x", 125), "F/" + strings.Repeat("x", 120), "F/" + strings.Repeat("x", 121)} {
		v = append(v, append([]byte{0x7b, 0x01, 0x00, 0xf0, byte(len(name) << 1)}, name...))
		if len(name) > 3 {
			v = append(v, append([]byte{0x7b, 0x01, 0x00, 0xf0, byte(len(name) << 1)}, name[:len(name)-1]...)) // string cut short
		}
	}
	return v
}

// ---------------------------------------------------------------------------

func (c *Ctx) c01Times() {
	cf := c.Cases("cbetime", "CE.Model.CbeTime", "cbetime_case", "cbetime_case_ok")
	cf.perFile = 200
	thorough := c.Thorough()
	seenT := map[string]bool{}
	seenB := map[string]bool{}
	ncases := 0
	var encoded [][]byte // value bytes of accepted valid times: the base of the mutations
	var decodedTimes []compact_time.Time

	// one time through the oracle and the model comparison
	var oneTime func(in c01TimeInput, follow bool)
	oneTime = func(in c01TimeInput, follow bool) {
		t := in.T
		id := c01TimeText(t)
		if seenT[id] {
			return
		}
		seenT[id] = true
		problem := c01TimeProblem(t)
		ok, key, expect, got, doc := c01TimeOracle(t)
		c.Count("time|"+id, true)
		c.Dist(fmt.Sprintf("time/oracle/%s/problem=%s/ok=%v", in.Class, problem, ok))
		if len(c.Rep.Samples) < 8 && problem == "" && t.Type == compact_time.TimeTypeTimestamp && t.Nanosecond%1000 != 0 && t.Timezone.Type == compact_time.TimezoneTypeAreaLocation {
			c.Sample(map[string]string{"time": c01TimeText(t), "cbe_hex": hex.EncodeToString(doc)})
		}
		if !ok {
			c.Fail(Replay{Kind: "time", Key: key, Input: map[string]string{"time": id, "string": t.String(), "events_gob": c01TimeGob(t), "cbe_hex": hex.EncodeToString(doc)},
				Expect: expect, Got: got})
		}
		if !c01InTimeModel(t) {
			return
		}
		wrote := c01EncodeValue(t)
		var obs *c01TimeObs
		if wrote != nil && !t.IsZeroValue() {
			obs = c01DecodeValue(wrote)
			if problem == "" && obs != nil {
				encoded = append(encoded, wrote)
			}
		}
		cf.Add(cApp("CtEnc", c01TimeTerm(t), cOptBytes(wrote, wrote != nil), c01ObsTerm(obs)),
			fmt.Sprintf("enc %s class=%s problem=%q wrote=%x decoded=%v", id, in.Class, problem, wrote, obs != nil))
		ncases++
		c.Dist(fmt.Sprintf("time/corr/enc/kind=%d/zone=%d/magnitude=%s/decoded=%v", t.Type, t.Timezone.Type, c01Mag(t), obs != nil))
		if follow && obs != nil {
			decodedTimes = append(decodedTimes, obs.T)
		}
	}
	oneValue := func(value []byte, class string) {
		if seenB[string(value)] {
			return
		}
		seenB[string(value)] = true
		ok, key, expect, got := c01BytesOracle(value)
		c.Count("bytes|"+hex.EncodeToString(value), got != "not accepted")
		c.Dist(fmt.Sprintf("time/oracle-bytes/%s/accepted=%v/ok=%v", class, got != "not accepted", ok))
		if !ok {
			c.Fail(Replay{Kind: "time-bytes", Key: key, Input: map[string]string{"value_hex": hex.EncodeToString(value)}, Expect: expect, Got: got})
		}
		obs := c01DecodeValue(value)
		cf.Add(cApp("CtDec", cBytes(value), c01ObsTerm(obs)), fmt.Sprintf("dec %x class=%s decoded=%v", value, class, obs != nil))
		ncases++
		c.Dist(fmt.Sprintf("time/corr/dec/%s/decoded=%v", class, obs != nil))
		if obs != nil {
			decodedTimes = append(decodedTimes, obs.T)
		}
	}

	essential, more := c01DirectedTimes(thorough)
	for _, in := range essential {
		oneTime(in, false)
	}
	// encoded-size sweep (oracle only): area names of every length 1..127 under three shapes, each through a
	// fresh encoder, so that the encoding takes every size from a few bytes to ~140 — in particular every
	// size equal to a capacity of the encoder's buffer (32, 64, 128)
	for n := 1; n <= 127; n++ {
		z := compact_time.TZAtAreaLocation("A" + strings.Repeat("b", n-1))
		for k, t := range []compact_time.Time{compact_time.NewTime(12, 30, 15, 0, z), compact_time.NewTime(1, 2, 3, 500000000, z),
			compact_time.NewTimestamp(1987, 6, 5, 4, 3, 2, 123456789, z)} {
			ok, key, expect, got, doc := c01TimeOracle(t)
			id := c01TimeText(t)
			c.Count("time|"+id, true)
			c.Dist(fmt.Sprintf("time/size-sweep/shape=%d/ok=%v", k, ok))
			if !ok {
				c.Fail(Replay{Kind: "time", Key: key, Input: map[string]string{"time": id, "string": t.String(), "events_gob": c01TimeGob(t), "cbe_hex": hex.EncodeToString(doc)},
					Expect: expect, Got: got})
			}
		}
	}
	// quick tier: at most 400 cases in all — the essential directed times, then up to 250 times with the rest of
	// the directed set and random ones, 75 crafted encodings, mutations up to 375, and what the decoder delivered
	room := func(limit int) bool { return thorough || ncases < limit }
	c.Rng.Shuffle(len(more), func(i, j int) { more[i], more[j] = more[j], more[i] })
	zones := c01ValidZones(thorough)
	for i := 0; i < len(more) && room(225); i++ {
		oneTime(more[i], false)
	}
	for i := 0; i < c.Pick(40, 8000) && room(250); i++ {
		oneTime(c01TimeInput{c01RandomTime(c.Rng, zones), "random"}, false)
	}
	// crafted encodings, then mutations of what the encoder wrote for valid times
	crafted := c01CraftedValues()
	for i, v := range crafted {
		if thorough || i%2 == 0 || i < 40 {
			if room(325) {
				oneValue(v, "crafted")
			}
		}
	}
	sort.Slice(encoded, func(i, j int) bool { return bytes.Compare(encoded[i], encoded[j]) < 0 })
	for i := 0; i < c.Pick(400, 60000) && len(encoded) > 0 && room(375); i++ {
		base := encoded[c.Rng.Intn(len(encoded))]
		m := append([]byte{}, base...)
		class := "bit-flip"
		switch c.Rng.Intn(6) {
		case 0:
			m = m[:1+c.Rng.Intn(len(m))]
			class = "truncated"
		case 1:
			m = append(m, byte(c.Rng.Intn(256)))
			class = "extended"
		case 2:
			m[1+c.Rng.Intn(len(m)-1)] = []byte{0, 1, 2, 0x7f, 0x80, 0xff, 0xfe, 'Z', 'L'}[c.Rng.Intn(9)]
			class = "byte-set"
		default:
			p := 1 + c.Rng.Intn(len(m)-1)
			m[p] ^= 1 << uint(c.Rng.Intn(8))
		}
		oneValue(m, class)
	}
	// what the decoder delivered from crafted / mutated bytes goes round again (the times it accepts are valid inputs)
	c.Rng.Shuffle(len(decodedTimes), func(i, j int) { decodedTimes[i], decodedTimes[j] = decodedTimes[j], decodedTimes[i] })
	for _, t := range decodedTimes {
		if room(400) {
			oneTime(c01TimeInput{t, "decoded"}, false)
		}
	}
	c.Rep.Extra["time_cases"] = ncases
	c.Rep.Extra["time_distinct_values"] = len(seenT)
	c.Rep.Extra["time_distinct_byte_strings"] = len(seenB)
}

func c01Mag(t compact_time.Time) string {
	if t.Type == compact_time.TimeTypeDate {
		return "-"
	}
	switch {
	case t.Nanosecond == 0:
		return "0"
	case t.Nanosecond%1000 != 0:
		return "3"
	case t.Nanosecond%1000000 != 0:
		return "2"
	}
	return "1"
}
