package main

// C18 — Marshaling never modifies the value being marshaled.
//
// Search oracle: deep snapshot of a Go value (bit-exact floats; sign, magnitude and
// word count of big.Int; precision, mode, accuracy, sign, exact mantissa/exponent of
// big.Float; form, sign, exponent, coefficient of apd.Decimal; pointer aliasing
// structure) before and after each marshal entry point; any difference is a violation.
//
// Regression witnesses of the defect repaired by /repo d70a630 (CBE OnBigInt negated the caller's big.Int in
// place and left -2^64 < z < -2^63 negated) stay in the boundary set: -(2^63+1) and -(2^64-1) by pointer, and a
// pointer shared between two places, which must be written identically both times.
//
// Correspondence: CE.Model.Immut (cbe_on_bigint / cte_on_bigint / run) against the
// bytes written for, and the final content of, the caller's big.Int cells.

import (
	"bytes"
	"fmt"
	"math"
	"math/big"
	"math/rand"
	"net/url"
	"reflect"
	"sort"
	"strconv"
	"strings"
	"time"

	"github.com/cockroachdb/apd/v2"
	compact_float "github.com/kstenerud/go-compact-float"
	compact_time "github.com/kstenerud/go-compact-time"
	"github.com/kstenerud/go-concise-encoding/cbe"
	"github.com/kstenerud/go-concise-encoding/ce"
	"github.com/kstenerud/go-concise-encoding/configuration"
	"github.com/kstenerud/go-concise-encoding/iterator"
	"github.com/kstenerud/go-concise-encoding/types"
)

func init() { register("C18", runC18, replayC18) }

// ---------------------------------------------------------------------------
// Deep snapshot

type c18Leaf struct {
	Path string
	Kind string // bool int uint float string bytes bigint bigfloat decimal time url nil ref len type ...
	Val  string
	Ptr  bool // reached through a pointer dereference (the caller's own cell)
}

type c18PtrKey struct {
	t reflect.Type
	p uintptr
}

type c18Snapper struct {
	leaves []c18Leaf
	ptrs   map[c18PtrKey]int
	// sort strings of pointer-typed map keys, fixed when first seen (the "before" snapshot) and shared with
	// the "after" snapshot, so that a modified key cell does not reorder the entries between the two
	keyOrd map[c18PtrKey]string
}

var (
	c18TBigInt   = reflect.TypeOf(big.Int{})
	c18TBigFloat = reflect.TypeOf(big.Float{})
	c18TDecimal  = reflect.TypeOf(apd.Decimal{})
	c18TTime     = reflect.TypeOf(time.Time{})
	c18TURL      = reflect.TypeOf(url.URL{})
	c18TCTime    = reflect.TypeOf(compact_time.Time{})
	c18TDFloat   = reflect.TypeOf(compact_float.DFloat{})
)

func c18IntSnap(x *big.Int) string {
	// decimal value (carries the sign) plus the number of machine words in use
	return fmt.Sprintf("%s/words=%d", x.String(), len(x.Bits()))
}

func c18FloatSnap(x *big.Float) string {
	return fmt.Sprintf("prec=%d mode=%d acc=%d neg=%v inf=%v val=%s", x.Prec(), int(x.Mode()), int(x.Acc()), x.Signbit(), x.IsInf(), x.Text('p', 0))
}

func c18DecSnap(x *apd.Decimal) string {
	return fmt.Sprintf("form=%d neg=%v exp=%d coeff=%s", int(x.Form), x.Negative, x.Exponent, c18IntSnap(&x.Coeff))
}

func (s *c18Snapper) leaf(path, kind, val string, ptr bool) {
	s.leaves = append(s.leaves, c18Leaf{path, kind, val, ptr})
}

func (s *c18Snapper) snap(v reflect.Value, path string, viaPtr bool) {
	if !v.IsValid() {
		s.leaf(path, "nil", "invalid", false)
		return
	}
	t := v.Type()
	switch t {
	case c18TBigInt:
		x := v.Interface().(big.Int)
		s.leaf(path, "bigint", c18IntSnap(&x), viaPtr)
		return
	case c18TBigFloat:
		x := v.Interface().(big.Float)
		s.leaf(path, "bigfloat", c18FloatSnap(&x), viaPtr)
		return
	case c18TDecimal:
		x := v.Interface().(apd.Decimal)
		s.leaf(path, "decimal", c18DecSnap(&x), viaPtr)
		return
	case c18TTime:
		x := v.Interface().(time.Time)
		s.leaf(path, "time", fmt.Sprintf("%d.%09d %s", x.Unix(), x.Nanosecond(), x.Location().String()), viaPtr)
		return
	case c18TURL:
		x := v.Interface().(url.URL)
		s.leaf(path, "url", fmt.Sprintf("%q", (&x).String()), viaPtr)
		return
	case c18TCTime, c18TDFloat:
		s.leaf(path, "struct", fmt.Sprintf("%#v", v.Interface()), viaPtr)
		return
	}
	switch v.Kind() {
	case reflect.Bool:
		s.leaf(path, "bool", strconv.FormatBool(v.Bool()), viaPtr)
	case reflect.Int, reflect.Int8, reflect.Int16, reflect.Int32, reflect.Int64:
		s.leaf(path, "int", strconv.FormatInt(v.Int(), 10), viaPtr)
	case reflect.Uint, reflect.Uint8, reflect.Uint16, reflect.Uint32, reflect.Uint64, reflect.Uintptr:
		s.leaf(path, "uint", strconv.FormatUint(v.Uint(), 10), viaPtr)
	case reflect.Float32:
		if v.CanInterface() {
			s.leaf(path, "float", fmt.Sprintf("f32:%08x", math.Float32bits(v.Interface().(float32))), viaPtr)
		} else {
			s.leaf(path, "float", fmt.Sprintf("f32:%016x", math.Float64bits(v.Float())), viaPtr)
		}
	case reflect.Float64:
		s.leaf(path, "float", fmt.Sprintf("f64:%016x", math.Float64bits(v.Float())), viaPtr)
	case reflect.String:
		s.leaf(path, "string", strconv.Quote(v.String()), viaPtr)
	case reflect.Slice:
		if v.IsNil() {
			s.leaf(path, "nil", "nil "+t.String(), false)
			return
		}
		if t.Elem().Kind() == reflect.Uint8 {
			s.leaf(path, "bytes", fmt.Sprintf("%x", v.Bytes()), viaPtr)
			return
		}
		s.leaf(path, "len", strconv.Itoa(v.Len()), false)
		for i := 0; i < v.Len(); i++ {
			s.snap(v.Index(i), fmt.Sprintf("%s[%d]", path, i), false)
		}
	case reflect.Array:
		for i := 0; i < v.Len(); i++ {
			s.snap(v.Index(i), fmt.Sprintf("%s[%d]", path, i), viaPtr)
		}
	case reflect.Map:
		if v.IsNil() {
			s.leaf(path, "nil", "nil "+t.String(), false)
			return
		}
		s.leaf(path, "len", strconv.Itoa(v.Len()), false)
		type ent struct {
			ks   string
			addr uintptr
			k, v reflect.Value
		}
		ents := []ent{}
		it := v.MapRange()
		for it.Next() {
			kv := it.Key()
			for kv.Kind() == reflect.Interface && !kv.IsNil() {
				kv = kv.Elem()
			}
			content := func() string {
				sub := &c18Snapper{ptrs: map[c18PtrKey]int{}, keyOrd: s.keyOrd}
				sub.snap(it.Key(), "", false)
				return c18Join(sub.leaves)
			}
			if kv.Kind() == reflect.Ptr && !kv.IsNil() {
				pk := c18PtrKey{kv.Type(), kv.Pointer()}
				ks, ok := s.keyOrd[pk]
				if !ok {
					ks = content()
					s.keyOrd[pk] = ks
				}
				ents = append(ents, ent{ks, kv.Pointer(), it.Key(), it.Value()})
			} else {
				ents = append(ents, ent{content(), 0, it.Key(), it.Value()})
			}
		}
		sort.SliceStable(ents, func(i, j int) bool {
			if ents[i].ks != ents[j].ks {
				return ents[i].ks < ents[j].ks
			}
			return ents[i].addr < ents[j].addr
		})
		for i, e := range ents {
			s.snap(e.k, fmt.Sprintf("%s{key#%d}", path, i), false)
			s.snap(e.v, fmt.Sprintf("%s{val#%d}", path, i), false)
		}
	case reflect.Ptr:
		if v.IsNil() {
			s.leaf(path, "nil", "nil "+t.String(), false)
			return
		}
		k := c18PtrKey{t, v.Pointer()}
		if id, ok := s.ptrs[k]; ok {
			s.leaf(path, "ref", fmt.Sprintf("same as pointer #%d", id), false)
			return
		}
		id := len(s.ptrs)
		s.ptrs[k] = id
		s.leaf(path, "ptr", fmt.Sprintf("pointer #%d", id), false)
		s.snap(v.Elem(), path+"->", true)
	case reflect.Interface:
		if v.IsNil() {
			s.leaf(path, "nil", "nil interface", false)
			return
		}
		s.leaf(path, "type", v.Elem().Type().String(), false)
		s.snap(v.Elem(), path, false)
	case reflect.Struct:
		for i := 0; i < v.NumField(); i++ {
			s.snap(v.Field(i), path+"."+t.Field(i).Name, viaPtr)
		}
	default:
		s.leaf(path, "other", fmt.Sprintf("%v", v), viaPtr)
	}
}

func c18Join(ls []c18Leaf) string {
	var sb strings.Builder
	for _, l := range ls {
		sb.WriteString(l.Path)
		sb.WriteString("=")
		sb.WriteString(l.Kind)
		sb.WriteString(":")
		sb.WriteString(l.Val)
		sb.WriteString(";")
	}
	return sb.String()
}

func c18Snapshot(v interface{}, keyOrd map[c18PtrKey]string) []c18Leaf {
	s := &c18Snapper{ptrs: map[c18PtrKey]int{}, keyOrd: keyOrd}
	if v == nil {
		s.leaf("$", "nil", "nil interface", false)
		return s.leaves
	}
	s.leaf("$", "type", reflect.TypeOf(v).String(), false)
	s.snap(reflect.ValueOf(v), "$", false)
	return s.leaves
}

var (
	c18Two63 = new(big.Int).Lsh(big.NewInt(1), 63)
	c18Two64 = new(big.Int).Lsh(big.NewInt(1), 64)
)

// -2^64 < z < -2^63
func c18InNegWindow(z *big.Int) bool {
	return z.Sign() < 0 && z.CmpAbs(c18Two63) > 0 && z.CmpAbs(c18Two64) < 0
}

func c18LeafInt(val string) *big.Int {
	z, ok := new(big.Int).SetString(strings.SplitN(val, "/", 2)[0], 10)
	if !ok {
		return nil
	}
	return z
}

// c18Diff compares two snapshots; returns the failure class and the first differing leaf.
func c18Diff(before, after []c18Leaf) (same bool, class, path, was, now string) {
	n := len(before)
	if len(after) < n {
		n = len(after)
	}
	for i := 0; i < n; i++ {
		b, a := before[i], after[i]
		if b == a {
			continue
		}
		if b.Path != a.Path || b.Kind != a.Kind {
			return false, "structure", b.Path, b.Kind + ":" + b.Val, a.Kind + ":" + a.Val
		}
		class = "changed-" + b.Kind
		if b.Kind == "bigint" {
			zb, za := c18LeafInt(b.Val), c18LeafInt(a.Val)
			if zb != nil && za != nil && c18InNegWindow(zb) && new(big.Int).Neg(zb).Cmp(za) == 0 {
				// the anchored defect: a big.Int with -2^64 < z < -2^63 is left negated
				class = "bigint-neg-window-left-negated"
			}
		}
		return false, class, b.Path, b.Val, a.Val
	}
	if len(before) != len(after) {
		return false, "structure", "(length)", strconv.Itoa(len(before)), strconv.Itoa(len(after))
	}
	return true, "", "", "", ""
}

// ---------------------------------------------------------------------------
// Entry points

var c18Entries = []string{"cbe-doc", "cbe-stream", "cbe-reused", "cbe-doc-rec", "cte-doc", "cte-stream", "cte-reused", "cte-doc-rec"}

var c18Reused = map[string]ce.Marshaler{}

func c18Format(entry string) string { return entry[:3] }

func c18RecConfig() *configuration.Configuration {
	cfg := configuration.New()
	cfg.Iterator.RecursionSupport = true
	return cfg
}

// c18Marshal runs one marshal entry point. Errors and panics are not part of the property.
func c18Marshal(entry string, v interface{}) (out []byte, status string) {
	defer func() {
		if r := recover(); r != nil {
			status = "panic"
		}
	}()
	var err error
	switch entry {
	case "cbe-doc":
		out, err = ce.MarshalToCBEDocument(v, configuration.New())
	case "cte-doc":
		out, err = ce.MarshalToCTEDocument(v, configuration.New())
	case "cbe-doc-rec":
		out, err = ce.MarshalToCBEDocument(v, c18RecConfig())
	case "cte-doc-rec":
		out, err = ce.MarshalToCTEDocument(v, c18RecConfig())
	case "cbe-stream":
		var buf bytes.Buffer
		err = ce.MarshalCBE(v, &buf, configuration.New())
		out = buf.Bytes()
	case "cte-stream":
		var buf bytes.Buffer
		err = ce.MarshalCTE(v, &buf, configuration.New())
		out = buf.Bytes()
	case "cbe-reused", "cte-reused":
		m := c18Reused[entry]
		if m == nil {
			if entry == "cbe-reused" {
				m = ce.NewCBEMarshaler(configuration.New())
			} else {
				m = ce.NewCTEMarshaler(configuration.New())
			}
			c18Reused[entry] = m
		}
		out, err = m.MarshalToDocument(v)
	default:
		panic("bad entry " + entry)
	}
	if err != nil {
		return out, "err"
	}
	return out, "ok"
}

type c18Result struct {
	ok                    bool
	class, path, was, now string
	status                string
	out                   []byte
	before                []c18Leaf
}

func c18Check(entry string, v interface{}) c18Result {
	keyOrd := map[c18PtrKey]string{}
	before := c18Snapshot(v, keyOrd)
	out, status := c18Marshal(entry, v)
	after := c18Snapshot(v, keyOrd)
	same, class, path, was, now := c18Diff(before, after)
	return c18Result{same, class, path, was, now, status, out, before}
}

func c18Key(entry, class string) string { return "C18/" + c18Format(entry) + "/" + class }

// ---------------------------------------------------------------------------
// Big number specs: "int:<dec>", "float:<prec>:<mode>:<p-format|Inf|-Inf>", "dec:<apd text>"

func c18Spec(p interface{}) string {
	switch x := p.(type) {
	case *big.Int:
		return "int:" + x.String()
	case *big.Float:
		return fmt.Sprintf("float:%d:%d:%s", x.Prec(), int(x.Mode()), x.Text('p', 0))
	case *apd.Decimal:
		return "dec:" + x.String()
	}
	panic("c18Spec")
}

func c18ParseNum(spec string) (interface{}, error) {
	switch {
	case strings.HasPrefix(spec, "int:"):
		z, ok := new(big.Int).SetString(spec[4:], 10)
		if !ok {
			return nil, fmt.Errorf("bad int spec %q", spec)
		}
		return z, nil
	case strings.HasPrefix(spec, "float:"):
		parts := strings.SplitN(spec, ":", 4)
		if len(parts) != 4 {
			return nil, fmt.Errorf("bad float spec %q", spec)
		}
		prec, e1 := strconv.ParseUint(parts[1], 10, 32)
		mode, e2 := strconv.Atoi(parts[2])
		if e1 != nil || e2 != nil {
			return nil, fmt.Errorf("bad float spec %q", spec)
		}
		f := new(big.Float).SetMode(big.RoundingMode(mode))
		if prec == 0 {
			// zero value (prec 0): only +0 / -0 exist
			if strings.HasPrefix(parts[3], "-") {
				f.Neg(f)
			}
			return f, nil
		}
		f.SetPrec(uint(prec))
		if _, _, err := f.Parse(parts[3], 0); err != nil {
			return nil, fmt.Errorf("bad float spec %q: %v", spec, err)
		}
		return f, nil
	case strings.HasPrefix(spec, "dec:"):
		d, _, err := apd.NewFromString(spec[4:])
		if err != nil {
			return nil, fmt.Errorf("bad dec spec %q: %v", spec, err)
		}
		return d, nil
	}
	return nil, fmt.Errorf("bad spec %q", spec)
}

func c18MustNum(spec string) interface{} {
	p, err := c18ParseNum(spec)
	if err != nil {
		panic(err)
	}
	return p
}

func c18Pow2(n uint) *big.Int { return new(big.Int).Lsh(big.NewInt(1), n) }

// every sign and magnitude class named by the property, plus the width boundaries of the CBE integer encodings
func c18BoundaryInts() []*big.Int {
	mags := []*big.Int{big.NewInt(0), big.NewInt(1), big.NewInt(2), big.NewInt(100), big.NewInt(101), big.NewInt(255), big.NewInt(256),
		big.NewInt(65535), big.NewInt(65536), big.NewInt(1<<32 - 1), big.NewInt(1 << 32), big.NewInt(1<<48 - 1), big.NewInt(1 << 48)}
	for _, n := range []uint{63, 64, 128, 1000} {
		p := c18Pow2(n)
		mags = append(mags, new(big.Int).Sub(p, big.NewInt(1)), p, new(big.Int).Add(p, big.NewInt(1)))
	}
	mags = append(mags, new(big.Int).Add(c18Pow2(63), c18Pow2(62)), new(big.Int).Add(c18Pow2(200), big.NewInt(12345)))
	out := []*big.Int{}
	for _, m := range mags {
		out = append(out, new(big.Int).Set(m))
		if m.Sign() != 0 {
			out = append(out, new(big.Int).Neg(m))
		}
	}
	return out
}

func c18BoundaryFloats() []*big.Float {
	specs := []string{
		"float:0:0:0", "float:0:0:-0", "float:53:0:0", "float:53:0:-0", "float:53:0:Inf", "float:53:0:-Inf", "float:24:2:Inf",
		"float:53:0:0x.cp+1", "float:53:0:-0x.cp+1", "float:24:1:0x.8p+1", "float:53:0:0x.8p-1073", "float:53:0:0x.fffffffffffff8p+1024",
		"float:64:3:-0x.8000000000000001p+64", "float:100:4:0x.aaaaaaaaaaaaaaaaaaaaaaaaap-1", "float:200:2:0x.93ba47c980e98cdc3p+1330",
		"float:200:5:-0x.93ba47c980e98cdc3p-1330", "float:1000:0:0x.123456789abcdef0123456789abcdef0123456789abcdefp+5000",
	}
	out := []*big.Float{}
	for _, s := range specs {
		out = append(out, c18MustNum(s).(*big.Float))
	}
	return out
}

func c18BoundaryDecs() []*apd.Decimal {
	specs := []string{"0", "-0", "0E+10", "1", "-1", "-1.5", "100", "Infinity", "-Infinity", "NaN", "sNaN", "1E+400", "-1E-400",
		"18446744073709551615", "-18446744073709551616E+3", "9223372036854775808E-7", "-123456789012345678901234567890123456789E-6000",
		"1.2345678901234567890123456789E+90000"}
	out := []*apd.Decimal{}
	for _, s := range specs {
		out = append(out, c18MustNum("dec:"+s).(*apd.Decimal))
	}
	return out
}

func c18RandBits(r *rand.Rand, bits int) *big.Int {
	if bits == 0 {
		return new(big.Int)
	}
	b := make([]byte, (bits+7)/8)
	r.Read(b)
	z := new(big.Int).SetBytes(b)
	z.SetBit(z, bits-1, 1) // exactly `bits` bits long
	for i := z.BitLen() - 1; i >= bits; i-- {
		z.SetBit(z, i, 0)
	}
	return z
}

var c18BitClasses = [][2]int{{0, 7}, {8, 16}, {17, 32}, {33, 48}, {49, 62}, {63, 63}, {64, 64}, {64, 64}, {65, 65}, {66, 128}, {129, 700}}

func c18RandInt(r *rand.Rand) *big.Int {
	var z *big.Int
	if r.Intn(5) == 0 {
		bs := c18BoundaryInts()
		z = new(big.Int).Set(bs[r.Intn(len(bs))])
		if r.Intn(2) == 0 {
			z.Add(z, big.NewInt(int64(r.Intn(5)-2)))
		}
		return z
	}
	cl := c18BitClasses[r.Intn(len(c18BitClasses))]
	z = c18RandBits(r, cl[0]+r.Intn(cl[1]-cl[0]+1))
	if r.Intn(2) == 0 {
		z.Neg(z)
	}
	return z
}

func c18RandFloat(r *rand.Rand) *big.Float {
	if r.Intn(4) == 0 {
		bs := c18BoundaryFloats()
		return new(big.Float).Copy(bs[r.Intn(len(bs))])
	}
	precs := []uint{24, 53, 53, 64, 100, 200, 1000}
	f := new(big.Float).SetPrec(precs[r.Intn(len(precs))]).SetMode(big.RoundingMode(r.Intn(6)))
	switch r.Intn(4) {
	case 0:
		f.SetFloat64(math.Float64frombits(r.Uint64()&^(0x7ff<<52) | uint64(r.Intn(2046)+1)<<52)) // finite float64, any exponent
	case 1:
		f.SetInt(c18RandInt(r))
	default:
		f.SetInt(c18RandInt(r))
		f.SetMantExp(f, r.Intn(6000)-3000)
	}
	return f
}

func c18RandDec(r *rand.Rand) *apd.Decimal {
	if r.Intn(4) == 0 {
		bs := c18BoundaryDecs()
		return new(apd.Decimal).Set(bs[r.Intn(len(bs))])
	}
	d := &apd.Decimal{}
	d.Coeff.Abs(c18RandInt(r))
	d.Negative = r.Intn(2) == 0
	switch r.Intn(3) {
	case 0:
		d.Exponent = int32(r.Intn(41) - 20)
	case 1:
		d.Exponent = int32(r.Intn(20001) - 10000)
	default:
		d.Exponent = 0
	}
	return d
}

// ---------------------------------------------------------------------------
// Random Go values (rebuilt from a seed for replay)

type c18Box struct{ V big.Int }

type c18S struct {
	PI  *big.Int
	VI  big.Int
	PF  *big.Float
	VF  big.Float
	PD  *apd.Decimal
	VD  apd.Decimal
	PPI **big.Int
	Any interface{}
	LI  []*big.Int
	MI  map[string]*big.Int
	Sub *c18S
	F64 float64
	Str string
	Bin []byte
	U16 []uint16
}

type c18Gen struct {
	r    *rand.Rand
	pool []interface{} // pointer-held big numbers already placed: reused to create sharing
}

func (g *c18Gen) pInt() *big.Int {
	if len(g.pool) > 0 && g.r.Intn(4) == 0 {
		if p, ok := g.pool[g.r.Intn(len(g.pool))].(*big.Int); ok {
			return p
		}
	}
	p := c18RandInt(g.r)
	g.pool = append(g.pool, p)
	return p
}

func (g *c18Gen) pFloat() *big.Float {
	if len(g.pool) > 0 && g.r.Intn(4) == 0 {
		if p, ok := g.pool[g.r.Intn(len(g.pool))].(*big.Float); ok {
			return p
		}
	}
	p := c18RandFloat(g.r)
	g.pool = append(g.pool, p)
	return p
}

func (g *c18Gen) pDec() *apd.Decimal {
	if len(g.pool) > 0 && g.r.Intn(4) == 0 {
		if p, ok := g.pool[g.r.Intn(len(g.pool))].(*apd.Decimal); ok {
			return p
		}
	}
	p := c18RandDec(g.r)
	g.pool = append(g.pool, p)
	return p
}

func (g *c18Gen) bigLeaf() interface{} {
	switch g.r.Intn(14) {
	case 0, 1, 2, 3:
		return g.pInt()
	case 4:
		return *c18RandInt(g.r)
	case 5:
		p := g.pInt()
		return &p
	case 6, 7:
		return g.pFloat()
	case 8:
		return *c18RandFloat(g.r)
	case 9, 10:
		return g.pDec()
	case 11:
		return *c18RandDec(g.r)
	case 12:
		return (*big.Int)(nil)
	default:
		b := &c18Box{}
		b.V.Set(c18RandInt(g.r))
		if g.r.Intn(2) == 0 {
			return []interface{}{&b.V, b} // interior pointer and its holder
		}
		return b
	}
}

func (g *c18Gen) str() string {
	strs := []string{"", "a", "key", "hello world", "ünï©ode", "with \"quotes\"\n", "0123456789abcdef0123456789abcdef"}
	return strs[g.r.Intn(len(strs))]
}

func (g *c18Gen) f64() float64 {
	switch g.r.Intn(8) {
	case 0:
		return math.Copysign(0, -1)
	case 1:
		return math.Inf(1 - 2*g.r.Intn(2))
	case 2:
		return math.Float64frombits(0x7ff0000000000001 | g.r.Uint64()&0xfffffffffffff | uint64(g.r.Intn(2))<<63) // NaN with payload
	case 3:
		return math.Float64frombits(g.r.Uint64() & 0xfffffffffffff) // subnormal
	case 4:
		return float64(g.r.Intn(2000) - 1000)
	case 5:
		return float64(float32(g.r.NormFloat64()))
	default:
		return math.Float64frombits(g.r.Uint64())
	}
}

func (g *c18Gen) scalar() interface{} {
	r := g.r
	switch r.Intn(26) {
	case 0:
		return nil
	case 1:
		return r.Intn(2) == 0
	case 2:
		return int(r.Int63()>>uint(r.Intn(63))) * (1 - 2*r.Intn(2))
	case 3:
		return int8(r.Intn(256) - 128)
	case 4:
		return int64(math.MinInt64)
	case 5:
		return uint64(r.Uint64() >> uint(r.Intn(64)))
	case 6:
		return uint16(r.Intn(65536))
	case 7:
		return g.f64()
	case 8:
		return math.Float32frombits(r.Uint32())
	case 9:
		return g.str()
	case 10:
		b := make([]byte, r.Intn(20))
		r.Read(b)
		return b
	case 11:
		a := make([]uint16, r.Intn(6))
		for i := range a {
			a[i] = uint16(r.Intn(65536))
		}
		return a
	case 12:
		a := make([]int32, r.Intn(6))
		for i := range a {
			a[i] = int32(r.Uint32())
		}
		return a
	case 13:
		a := make([]int64, r.Intn(6))
		for i := range a {
			a[i] = int64(r.Uint64())
		}
		return a
	case 14:
		a := make([]float32, r.Intn(6))
		for i := range a {
			a[i] = math.Float32frombits(r.Uint32())
		}
		return a
	case 15:
		a := make([]float64, r.Intn(6))
		for i := range a {
			a[i] = g.f64()
		}
		return a
	case 16:
		a := make([]bool, r.Intn(20))
		for i := range a {
			a[i] = r.Intn(2) == 0
		}
		return a
	case 17:
		return [4]uint8{byte(r.Intn(256)), 2, 3, byte(r.Intn(256))}
	case 18:
		return time.Unix(r.Int63n(4e9)-2e9, int64(r.Intn(1e9))).UTC()
	case 19:
		t := time.Unix(r.Int63n(4e9), int64(r.Intn(1e9))).UTC()
		return &t
	case 20:
		u, _ := url.Parse("https://user@example.com:8080/a/b?x=1&y=%20#frag")
		if r.Intn(2) == 0 {
			return u
		}
		return *u
	case 21:
		b := make([]byte, 16)
		r.Read(b)
		return types.NewUID(b)
	case 22:
		return compact_float.DFloatValue(int32(r.Intn(41)-20), r.Int63()>>uint(r.Intn(63))*int64(1-2*r.Intn(2)))
	case 23:
		return compact_time.NewDate(r.Intn(4000)-1000, r.Intn(12)+1, r.Intn(28)+1)
	case 24:
		b := make([]byte, r.Intn(10))
		r.Read(b)
		return types.Media{MediaType: "application/x-test", Data: b}
	default:
		a := make([]uint64, r.Intn(5))
		for i := range a {
			a[i] = r.Uint64()
		}
		return a
	}
}

func (g *c18Gen) structVal(depth int) *c18S {
	r := g.r
	s := &c18S{F64: g.f64(), Str: g.str()}
	if r.Intn(2) == 0 {
		s.PI = g.pInt()
	}
	if r.Intn(2) == 0 {
		s.VI.Set(c18RandInt(r))
	}
	if r.Intn(3) == 0 {
		s.PF = g.pFloat()
	}
	if r.Intn(3) == 0 {
		s.VF.Copy(c18RandFloat(r))
	}
	if r.Intn(3) == 0 {
		s.PD = g.pDec()
	}
	if r.Intn(3) == 0 {
		s.VD.Set(c18RandDec(r))
	}
	if r.Intn(4) == 0 {
		p := g.pInt()
		s.PPI = &p
	}
	if r.Intn(2) == 0 {
		s.Any = g.value(depth - 1)
	}
	if r.Intn(3) == 0 {
		n := r.Intn(4)
		s.LI = make([]*big.Int, n)
		for i := range s.LI {
			if r.Intn(8) != 0 {
				s.LI[i] = g.pInt()
			}
		}
	}
	if r.Intn(3) == 0 {
		s.MI = map[string]*big.Int{}
		for i := r.Intn(3); i >= 0; i-- {
			s.MI[fmt.Sprintf("k%d", i)] = g.pInt()
		}
	}
	if depth > 0 && r.Intn(3) == 0 {
		s.Sub = g.structVal(depth - 1)
	}
	if r.Intn(3) == 0 {
		s.Bin = make([]byte, r.Intn(8))
		r.Read(s.Bin)
	}
	if r.Intn(4) == 0 {
		s.U16 = []uint16{1, 2, uint16(r.Intn(65536))}
	}
	return s
}

func (g *c18Gen) value(depth int) interface{} {
	r := g.r
	n := r.Intn(100)
	if depth <= 0 || n < 40 {
		if r.Intn(10) < 7 {
			return g.bigLeaf()
		}
		return g.scalar()
	}
	switch {
	case n < 52:
		l := make([]interface{}, r.Intn(5))
		for i := range l {
			l[i] = g.value(depth - 1)
		}
		return l
	case n < 60:
		m := map[string]interface{}{}
		for i := r.Intn(4); i > 0; i-- {
			m[fmt.Sprintf("k%d%s", i, g.str())] = g.value(depth - 1)
		}
		return m
	case n < 66:
		m := map[interface{}]interface{}{}
		for i := r.Intn(4); i > 0; i-- {
			var k interface{}
			switch r.Intn(4) {
			case 0:
				k = g.pInt() // pointer key: the key cell itself is marshaled
			case 1:
				k = i
			case 2:
				k = g.pDec()
			default:
				k = fmt.Sprintf("s%d", i)
			}
			m[k] = g.value(depth - 1)
		}
		return m
	case n < 72:
		l := make([]*big.Int, r.Intn(5))
		for i := range l {
			if r.Intn(8) != 0 {
				l[i] = g.pInt()
			}
		}
		return l
	case n < 75:
		l := make([]big.Int, r.Intn(4))
		for i := range l {
			l[i].Set(c18RandInt(r))
		}
		return l
	case n < 78:
		m := map[int]*big.Float{}
		for i := r.Intn(4); i > 0; i-- {
			m[i] = g.pFloat()
		}
		return m
	case n < 81:
		l := make([]*apd.Decimal, r.Intn(4))
		for i := range l {
			l[i] = g.pDec()
		}
		return l
	case n < 90:
		s := g.structVal(depth - 1)
		if r.Intn(3) == 0 {
			return *s
		}
		return s
	case n < 94:
		nd := types.Node{Value: g.value(0)}
		for i := r.Intn(3); i > 0; i-- {
			nd.Children = append(nd.Children, g.value(depth-1))
		}
		return nd
	case n < 97:
		return types.Edge{Source: g.value(0), Description: g.value(0), Destination: g.value(0)}
	default:
		v := g.value(depth - 1)
		return &v // pointer to interface
	}
}

func c18GenValue(vseed int64, depth int) interface{} {
	g := &c18Gen{r: rand.New(rand.NewSource(vseed))}
	return g.value(depth)
}

// ---------------------------------------------------------------------------
// Fixed shapes around one pointer-held big number

var c18Shapes = []string{"root-ptr", "root-val", "slice-typed", "slice-iface", "map-value", "map-key", "struct-ptr-field",
	"struct-val-field", "ptr-ptr", "shared-twice", "shared-struct-slice-iface", "nested", "node", "edge", "interior-ptr-and-holder", "array-val"}

func c18Shape(shape string, p interface{}) interface{} {
	zi, _ := p.(*big.Int)
	zf, _ := p.(*big.Float)
	zd, _ := p.(*apd.Decimal)
	switch shape {
	case "root-ptr":
		return p
	case "root-val":
		switch {
		case zi != nil:
			return *zi
		case zf != nil:
			return *zf
		default:
			return *zd
		}
	case "slice-typed":
		switch {
		case zi != nil:
			return []*big.Int{zi, nil}
		case zf != nil:
			return []*big.Float{zf, nil}
		default:
			return []*apd.Decimal{zd, nil}
		}
	case "slice-iface":
		return []interface{}{"x", p, 1}
	case "map-value":
		return map[string]interface{}{"k": p}
	case "map-key":
		return map[interface{}]interface{}{p: "v"}
	case "struct-ptr-field":
		return &c18S{PI: zi, PF: zf, PD: zd}
	case "struct-val-field":
		s := c18S{}
		switch {
		case zi != nil:
			s.VI.Set(zi)
		case zf != nil:
			s.VF.Copy(zf)
		default:
			s.VD.Set(zd)
		}
		return s
	case "ptr-ptr":
		switch {
		case zi != nil:
			return &zi
		case zf != nil:
			return &zf
		default:
			return &zd
		}
	case "shared-twice":
		return []interface{}{p, p}
	case "shared-struct-slice-iface":
		s := &c18S{PI: zi, PF: zf, PD: zd, Any: p}
		if zi != nil {
			s.LI = []*big.Int{zi}
			s.MI = map[string]*big.Int{"m": zi}
		}
		return []interface{}{s, p}
	case "nested":
		return []interface{}{map[string]interface{}{"a": []interface{}{&c18S{Sub: &c18S{PI: zi, PF: zf, PD: zd}}}}}
	case "node":
		return types.Node{Value: p, Children: []interface{}{p, 1}}
	case "edge":
		return types.Edge{Source: p, Description: "d", Destination: p}
	case "interior-ptr-and-holder":
		if zi == nil {
			return []interface{}{p}
		}
		b := &c18Box{}
		b.V.Set(zi)
		return []interface{}{&b.V, b}
	case "array-val":
		switch {
		case zi != nil:
			a := &[2]big.Int{}
			a[0].Set(zi)
			return []interface{}{&a[0], a}
		case zf != nil:
			a := &[1]big.Float{}
			a[0].Copy(zf)
			return a
		default:
			a := &[1]apd.Decimal{}
			a[0].Set(zd)
			return a
		}
	}
	panic("bad shape " + shape)
}

// ---------------------------------------------------------------------------
// Evidence helpers

func c18IntClass(z *big.Int) string {
	a := new(big.Int).Abs(z)
	var m string
	switch {
	case a.Sign() == 0:
		return "0"
	case a.Cmp(big.NewInt(100)) <= 0:
		m = "<=100"
	case a.BitLen() <= 32:
		m = "<2^32"
	case a.BitLen() <= 48:
		m = "<2^48"
	case a.Cmp(c18Two63) < 0:
		m = "<2^63"
	case a.Cmp(c18Two63) == 0:
		m = "=2^63"
	case a.Cmp(c18Two64) < 0:
		m = "(2^63,2^64)"
	case a.Cmp(c18Two64) == 0:
		m = "=2^64"
	case a.BitLen() <= 128:
		m = "(2^64,2^128]"
	default:
		m = "huge"
	}
	if z.Sign() < 0 {
		return "-" + m
	}
	return "+" + m
}

func (c *Ctx) c18Profile(before []c18Leaf) (nbig int) {
	for _, l := range before {
		how := "val"
		if l.Ptr {
			how = "ptr"
		}
		switch l.Kind {
		case "bigint":
			nbig++
			if z := c18LeafInt(l.Val); z != nil {
				c.Dist("bigint/" + how + "/" + c18IntClass(z))
			}
		case "bigfloat", "decimal":
			nbig++
			c.Dist(l.Kind + "/" + how)
		case "ref":
			c.Dist("shared-pointer")
		}
	}
	switch {
	case nbig == 0:
		c.Dist("value/big-leaves=0")
	case nbig == 1:
		c.Dist("value/big-leaves=1")
	case nbig <= 4:
		c.Dist("value/big-leaves=2-4")
	default:
		c.Dist("value/big-leaves=5+")
	}
	return nbig
}

func c18Trunc(s string, n int) string {
	if len(s) > n {
		return s[:n] + "…"
	}
	return s
}

// evaluate one value (rebuilt by mk for every entry point) on all entry points
func (c *Ctx) c18Eval(id string, input map[string]string, kind string, mk func() interface{}) {
	for i, entry := range c18Entries {
		v := mk()
		res := c18Check(entry, v)
		nbig := 0
		if i == 0 {
			nbig = c.c18Profile(res.before)
			if nbig > 0 {
				c.Sample(map[string]string{"kind": kind, "id": id, "value": c18Trunc(c18Join(res.before), 400)})
			}
		} else {
			for _, l := range res.before {
				if l.Kind == "bigint" || l.Kind == "bigfloat" || l.Kind == "decimal" {
					nbig++
				}
			}
		}
		c.Count(entry+"|"+id, nbig > 0)
		c.Dist("search/" + entry + "/" + res.status)
		if !res.ok {
			in := map[string]string{"entry": entry}
			for k, x := range input {
				in[k] = x
			}
			c.Fail(Replay{Kind: kind, Key: c18Key(entry, res.class), Input: in,
				Expect: "unchanged at " + res.path + ": " + c18Trunc(res.was, 300), Got: c18Trunc(res.now, 300)})
		}
	}
}

// ---------------------------------------------------------------------------
// Shared pointer written twice: since marshaling does not modify the value, the second visit of a shared
// *big.Int must be written exactly like the first, i.e. [p, p] marshals like [q1, q2] with q1 = q2 = p as
// separate cells (entry points without recursion support, which emit no markers).

var c18SharedEntries = []string{"cbe-doc", "cbe-stream", "cbe-reused", "cte-doc", "cte-stream", "cte-reused"}

func c18SharedCheck(entry string, spec string) (ok bool, shared, separate string, err error) {
	p, err := c18ParseNum(spec)
	if err != nil {
		return false, "", "", err
	}
	q1, _ := c18ParseNum(spec)
	q2, _ := c18ParseNum(spec)
	o1, s1 := c18Marshal(entry, []interface{}{p, p})
	o2, s2 := c18Marshal(entry, []interface{}{q1, q2})
	shared = fmt.Sprintf("%s:%x", s1, o1)
	separate = fmt.Sprintf("%s:%x", s2, o2)
	return shared == separate, shared, separate, nil
}

func (c *Ctx) c18SharedEval(spec string) {
	for _, entry := range c18SharedEntries {
		ok, shared, separate, err := c18SharedCheck(entry, spec)
		if err != nil {
			panic(err)
		}
		c.Count("shared|"+entry+"|"+spec, true)
		c.Dist("shared-twice-output/" + entry)
		if !ok {
			c.Fail(Replay{Kind: "shared", Key: "C18/" + c18Format(entry) + "/shared-pointer-written-differently",
				Input:  map[string]string{"entry": entry, "num": spec},
				Expect: "[p, p] written like two separate equal cells: " + c18Trunc(separate, 300), Got: c18Trunc(shared, 300)})
		}
	}
}

// the inputs on which the repaired defect showed: first and last integer of the window
func c18RegressionInts() []*big.Int {
	a := new(big.Int).Neg(new(big.Int).Add(c18Two63, big.NewInt(1)))
	b := new(big.Int).Neg(new(big.Int).Sub(c18Two64, big.NewInt(1)))
	return []*big.Int{a, b}
}

// ---------------------------------------------------------------------------
// Correspondence: one *big.Int as the root object

func c18EncCtor(format string) string {
	if format == "cbe" {
		return "CBE"
	}
	return "CTE"
}

func (c *Ctx) c18BigIntCase(cf *caseFile, z *big.Int, entry string) {
	format := c18Format(entry)
	cell := new(big.Int).Set(z)
	out, status := c18Marshal(entry, cell)
	head := []byte{0x81, 0x00}
	if format == "cte" {
		head = []byte("c0\n")
	}
	body := out
	if status == "ok" && bytes.HasPrefix(out, head) {
		body = out[len(head):]
	} // otherwise the whole output is recorded and the case cannot match the model
	cf.Add(cApp("BigIntCase", c18EncCtor(format), cBigZ(z), cBytes(body), cBigZ(cell)),
		fmt.Sprintf("%s *big.Int %s -> %x ; cell afterwards %s", entry, z, body, cell))
	c.Dist("corr/bigint/" + format + "/" + c18IntClass(z))
}

// ---------------------------------------------------------------------------
// Correspondence: heap of cells, several visits

type c18Tee struct {
	*cbe.Encoder
	buf  *bytes.Buffer
	segs []byte
}

func (t *c18Tee) OnBigInt(v *big.Int) {
	n := t.buf.Len()
	t.Encoder.OnBigInt(v)
	t.segs = append(t.segs, t.buf.Bytes()[n:]...)
}

type c18Heap struct {
	specs  []string      // initial content of every cell
	boxes  []*c18Box     // integer cells (nil for the others)
	others []interface{} // *big.Float / *apd.Decimal cells (nil for integer cells)
	visits []string      // "p<i>" through a pointer, "v<i>" held by value
}

func c18BuildHeap(specs []string, visits []string) (*c18Heap, interface{}, error) {
	h := &c18Heap{specs: specs, visits: visits}
	for _, s := range specs {
		p, err := c18ParseNum(s)
		if err != nil {
			return nil, nil, err
		}
		if z, ok := p.(*big.Int); ok {
			b := &c18Box{}
			b.V.Set(z)
			h.boxes = append(h.boxes, b)
			h.others = append(h.others, nil)
		} else {
			h.boxes = append(h.boxes, nil)
			h.others = append(h.others, p)
		}
	}
	list := []interface{}{}
	for _, v := range visits {
		i, err := strconv.Atoi(v[1:])
		if err != nil || i < 0 || i >= len(specs) || (v[0] != 'p' && v[0] != 'v') {
			return nil, nil, fmt.Errorf("bad visit %q", v)
		}
		switch {
		case h.boxes[i] != nil && v[0] == 'p':
			list = append(list, &h.boxes[i].V) // *big.Int into the cell
		case h.boxes[i] != nil:
			list = append(list, h.boxes[i]) // struct holding the same big.Int by value
		case v[0] == 'p':
			list = append(list, h.others[i])
		default:
			switch x := h.others[i].(type) { // held by value: a copy of the struct
			case *big.Float:
				list = append(list, *x)
			case *apd.Decimal:
				list = append(list, *x)
			}
		}
	}
	return h, list, nil
}

func (h *c18Heap) content() []string {
	out := []string{}
	for i := range h.specs {
		if h.boxes[i] != nil {
			out = append(out, "int:"+h.boxes[i].V.String())
		} else {
			switch x := h.others[i].(type) {
			case *big.Float:
				out = append(out, "float:"+c18FloatSnap(x))
			case *apd.Decimal:
				out = append(out, "dec:"+c18DecSnap(x))
			}
		}
	}
	return out
}

// c18RunHeap marshals the heap's value; mode "tee-cbe" drives iterator + CBE encoder directly and
// captures what each OnBigInt call wrote.
func c18RunHeap(mode string, list interface{}) (segs []byte, haveSegs bool, status string) {
	if mode != "tee-cbe" {
		_, status = c18Marshal(mode, list)
		return nil, false, status
	}
	defer func() {
		if r := recover(); r != nil {
			status = "panic"
		}
	}()
	cfg := configuration.New()
	buf := &bytes.Buffer{}
	enc := cbe.NewEncoder(cfg)
	enc.PrepareToEncode(buf)
	tee := &c18Tee{Encoder: enc, buf: buf}
	iterator.NewSession(nil, cfg).NewIterator(tee).Iterate(list)
	return tee.segs, true, "ok"
}

var c18ReadIDs = map[string]int{}

func c18ReadID(s string) string {
	id, ok := c18ReadIDs[s]
	if !ok {
		id = len(c18ReadIDs)
		c18ReadIDs[s] = id
	}
	return cNi(id)
}

func c18CellsTerm(cs []string) string {
	items := []string{}
	for _, s := range cs {
		if strings.HasPrefix(s, "int:") {
			z, _ := new(big.Int).SetString(s[4:], 10)
			items = append(items, cApp("CInt", cBigZ(z)))
		} else {
			items = append(items, cApp("CRead", c18ReadID(s)))
		}
	}
	return cList(items)
}

func c18HeapModes() []string { return []string{"tee-cbe", "cbe-doc", "cte-doc"} }

// runs one heap case; returns (property holds, detail)
func c18HeapOnce(mode string, specs, visits []string) (ok bool, class, detail string, term, human string, err error) {
	h, list, err := c18BuildHeap(specs, visits)
	if err != nil {
		return false, "", "", "", "", err
	}
	before := h.content()
	segs, haveSegs, status := c18RunHeap(mode, list)
	after := h.content()
	ok = true
	for i := range before {
		if before[i] != after[i] {
			ok = false
			class = "changed-bigfloat"
			if strings.HasPrefix(before[i], "dec:") {
				class = "changed-decimal"
			}
			if strings.HasPrefix(before[i], "int:") {
				class = "changed-bigint"
				zb, _ := new(big.Int).SetString(before[i][4:], 10)
				za, _ := new(big.Int).SetString(after[i][4:], 10)
				if c18InNegWindow(zb) && new(big.Int).Neg(zb).Cmp(za) == 0 {
					class = "bigint-neg-window-left-negated"
				}
			}
			detail = fmt.Sprintf("cell %d: %s -> %s", i, before[i], after[i])
			break
		}
	}
	vs := []string{}
	for _, v := range visits {
		if v[0] == 'p' {
			vs = append(vs, cApp("ByPtr", v[1:]+"%nat"))
		} else {
			vs = append(vs, cApp("ByVal", v[1:]+"%nat"))
		}
	}
	enc := "CBE"
	if strings.HasPrefix(mode, "cte") {
		enc = "CTE"
	}
	ob := "None"
	if haveSegs && status == "ok" {
		ob = cSome(cBytes(segs))
	}
	// the initial cells use the same content identifiers as the final ones
	term = cApp("HeapCase", enc, c18CellsTerm(before), cList(vs), ob, c18CellsTerm(after))
	human = fmt.Sprintf("%s cells=%v visits=%v -> status=%s bigint bytes=%x after=%v", mode, specs, visits, status, segs, after)
	return ok, class, detail, term, human, nil
}

func c18HeapFormat(mode string) string {
	if strings.HasPrefix(mode, "cte") {
		return "cte"
	}
	return "cbe"
}

// ---------------------------------------------------------------------------

func runC18(c *Ctx) {
	c.Rep.Rule = "search: Go values rebuilt from a seed (random trees of lists/maps/structs/Node/Edge/pointers over scalars, typed arrays, times, URLs and big.Int/big.Float/apd.Decimal held by pointer, by value, by pointer-to-pointer, as map key, shared between several places, interior pointer + holder) plus every boundary big number (0, ±1, ±100/101, ±255/256, ±65535/65536, ±2^32, ±2^48, ±(2^63-1), ±2^63, ±(2^63+1), ±(2^64-1), ±2^64, ±(2^64+1), ±2^128, ±2^1000, big.Float precisions 0/24/53/64/100/200/1000 with every rounding mode, ±Inf, ±0, apd NaN/sNaN/±Infinity/±0/huge exponents) in 16 fixed shapes, each through 8 marshal entry points (CBE/CTE x document, stream, reused marshaler, recursion support); deep snapshot before/after must be identical. A case is non-trivial when the value contains at least one big number; distinct = distinct (entry point, value). correspondence: BigIntCase = one *big.Int as root through CBE and CTE (bytes after the header and final cell content vs model), HeapCase = 1-4 cells visited 1-6 times by pointer / by value (bytes written by every OnBigInt call captured by a tee receiver, final heap vs model). regression: -(2^63+1) and -(2^64-1) by pointer and shared twice (witnesses of the defect repaired by d70a630) are evaluated first; for every boundary number [p, p] must be written like two separate equal cells."
	cf := c.Cases("immut", "CE.Model.Immut", "immut_case", "immut_case_ok")

	// 0. regression witnesses of the repaired defect (d70a630): by pointer, shared twice
	for _, z := range c18RegressionInts() {
		spec := c18Spec(z)
		for _, shape := range []string{"root-ptr", "shared-twice"} {
			shape := shape
			c.Dist("regression/" + shape)
			c.c18Eval("regression:"+shape+":"+spec, map[string]string{"shape": shape, "num": spec}, "shape",
				func() interface{} { return c18Shape(shape, c18MustNum(spec)) })
		}
		c.c18SharedEval(spec)
	}

	// 1. correspondence on single big integers
	ints := c18BoundaryInts()
	for i := 0; i < c.Pick(230, 3000); i++ {
		ints = append(ints, c18RandInt(c.Rng))
	}
	for i, z := range ints {
		cbeEntry, cteEntry := "cbe-doc", "cte-doc"
		if i%2 == 1 {
			cbeEntry, cteEntry = "cbe-stream", "cte-stream"
		}
		c.c18BigIntCase(cf, z, cbeEntry)
		c.c18BigIntCase(cf, z, cteEntry)
	}

	// 2. search oracle: boundary big numbers in fixed shapes
	nums := []interface{}{}
	for _, z := range c18BoundaryInts() {
		nums = append(nums, z)
	}
	for _, f := range c18BoundaryFloats() {
		nums = append(nums, f)
	}
	for _, d := range c18BoundaryDecs() {
		nums = append(nums, d)
	}
	for _, p := range nums {
		spec := c18Spec(p)
		c.c18SharedEval(spec)
		for _, shape := range c18Shapes {
			shape := shape
			c.Dist("shape/" + shape)
			c.c18Eval("shape:"+shape+":"+spec, map[string]string{"shape": shape, "num": spec}, "shape",
				func() interface{} { return c18Shape(shape, c18MustNum(spec)) })
		}
	}

	// 3. search oracle: random values
	for i := 0; i < c.Pick(1200, 40000); i++ {
		vseed := c.Rng.Int63()
		depth := 1 + c.Rng.Intn(3)
		c.c18Eval(fmt.Sprintf("gen:%d:%d", vseed, depth),
			map[string]string{"vseed": strconv.FormatInt(vseed, 10), "depth": strconv.Itoa(depth)}, "gen",
			func() interface{} { return c18GenValue(vseed, depth) })
	}
	// 4. correspondence + oracle on heaps of cells
	for i := 0; i < c.Pick(330, 4000); i++ {
		n := 1 + c.Rng.Intn(4)
		specs := []string{}
		for j := 0; j < n; j++ {
			switch k := c.Rng.Intn(10); {
			case k < 3: // inside the window the CBE encoder used to leave negated
				z := c18RandBits(c.Rng, 64)
				if z.Cmp(c18Two63) == 0 {
					z.Add(z, big.NewInt(1))
				}
				specs = append(specs, "int:"+z.Neg(z).String())
			case k < 7:
				specs = append(specs, c18Spec(c18RandInt(c.Rng)))
			case k < 9:
				specs = append(specs, c18Spec(c18RandFloat(c.Rng)))
			default:
				specs = append(specs, c18Spec(c18RandDec(c.Rng)))
			}
		}
		visits := []string{}
		for j := 1 + c.Rng.Intn(6); j > 0; j-- {
			how := "p"
			if c.Rng.Intn(10) < 3 {
				how = "v"
			}
			visits = append(visits, how+strconv.Itoa(c.Rng.Intn(n)))
		}
		mode := c18HeapModes()[i%3]
		if i%3 != 0 && c.Rng.Intn(2) == 0 {
			mode = c18HeapModes()[0]
		}
		ok, class, detail, term, human, err := c18HeapOnce(mode, specs, visits)
		if err != nil {
			panic(err)
		}
		cf.Add(term, human)
		c.Count("heap|"+mode+"|"+strings.Join(specs, ",")+"|"+strings.Join(visits, ","), true)
		c.Dist("corr/heap/" + mode)
		if !ok {
			c.Fail(Replay{Kind: "heap", Key: "C18/" + c18HeapFormat(mode) + "/" + class,
				Input:  map[string]string{"mode": mode, "cells": strings.Join(specs, ";"), "visits": strings.Join(visits, ",")},
				Expect: "every cell unchanged", Got: detail})
		}
	}

}

func replayC18(r *Replay) (bool, string) {
	switch r.Kind {
	case "gen", "shape":
		entry := r.Input["entry"]
		found := false
		for _, e := range c18Entries {
			found = found || e == entry
		}
		if !found {
			return false, "bad replay input: entry " + entry
		}
		var v interface{}
		if r.Kind == "gen" {
			vseed, e1 := strconv.ParseInt(r.Input["vseed"], 10, 64)
			depth, e2 := strconv.Atoi(r.Input["depth"])
			if e1 != nil || e2 != nil {
				return false, "bad replay input"
			}
			v = c18GenValue(vseed, depth)
		} else {
			p, err := c18ParseNum(r.Input["num"])
			if err != nil {
				return false, "bad replay input: " + err.Error()
			}
			okShape := false
			for _, s := range c18Shapes {
				okShape = okShape || s == r.Input["shape"]
			}
			if !okShape {
				return false, "bad replay input: shape"
			}
			v = c18Shape(r.Input["shape"], p)
		}
		res := c18Check(entry, v)
		if res.ok {
			return true, fmt.Sprintf("%s (%s): value identical before and after marshaling (%d leaves compared)", entry, res.status, len(res.before))
		}
		return false, fmt.Sprintf("%s (%s): %s at %s: before %s, after %s", entry, res.status, res.class, res.path, c18Trunc(res.was, 200), c18Trunc(res.now, 200))
	case "shared":
		ok, shared, separate, err := c18SharedCheck(r.Input["entry"], r.Input["num"])
		if err != nil {
			return false, "bad replay input: " + err.Error()
		}
		okEntry := false
		for _, e := range c18SharedEntries {
			okEntry = okEntry || e == r.Input["entry"]
		}
		if !okEntry {
			return false, "bad replay input: entry"
		}
		if ok {
			return true, "[p, p] is written like two separate equal cells: " + c18Trunc(shared, 200)
		}
		return false, fmt.Sprintf("[p, p] written as %s but two separate equal cells as %s", c18Trunc(shared, 200), c18Trunc(separate, 200))
	case "heap":
		specs := strings.Split(r.Input["cells"], ";")
		visits := strings.Split(r.Input["visits"], ",")
		mode := r.Input["mode"]
		okMode := false
		for _, m := range c18HeapModes() {
			okMode = okMode || m == mode
		}
		if !okMode {
			return false, "bad replay input: mode"
		}
		ok, class, detail, _, human, err := c18HeapOnce(mode, specs, visits)
		if err != nil {
			return false, "bad replay input: " + err.Error()
		}
		if ok {
			return true, "all cells unchanged: " + c18Trunc(human, 300)
		}
		return false, class + ": " + detail
	}
	return false, "unknown replay kind " + r.Kind
}
