package main

import (
	"fmt"
	"reflect"
	"sort"
	"strings"

	"github.com/kstenerud/go-describe"
)

// canonDescribe renders a value like describe.D but with map entries in sorted order, so that two
// equal values always render alike (Go's map iteration order is random; comparing describe.D texts
// of maps is a source of false alarms).
func canonDescribe(v interface{}) string {
	return canonDescribeValue(reflect.ValueOf(v), 0)
}

func canonDescribeValue(v reflect.Value, depth int) string {
	if !v.IsValid() {
		return "nil"
	}
	if depth > 200 {
		return "..."
	}
	switch v.Kind() {
	case reflect.Interface:
		if v.IsNil() {
			return "nil"
		}
		return "interface:" + canonDescribeValue(v.Elem(), depth+1)
	case reflect.Ptr:
		if v.IsNil() {
			return "nil-ptr"
		}
		if !containsMap(v.Type().Elem(), 0) {
			return describeLeaf(v)
		}
		return "*" + canonDescribeValue(v.Elem(), depth+1)
	case reflect.Map:
		if v.IsNil() {
			return "nil-map"
		}
		entries := make([]string, 0, v.Len())
		iter := v.MapRange()
		for iter.Next() {
			entries = append(entries, canonDescribeValue(iter.Key(), depth+1)+"="+canonDescribeValue(iter.Value(), depth+1))
		}
		sort.Strings(entries)
		return v.Type().String() + "{" + strings.Join(entries, " ") + "}"
	case reflect.Slice, reflect.Array:
		if v.Kind() == reflect.Slice && v.IsNil() {
			return "nil-slice"
		}
		if !containsMap(v.Type().Elem(), 0) {
			return describeLeaf(v)
		}
		parts := make([]string, v.Len())
		for i := range parts {
			parts[i] = canonDescribeValue(v.Index(i), depth+1)
		}
		return v.Type().String() + "[" + strings.Join(parts, " ") + "]"
	case reflect.Struct:
		if !containsMap(v.Type(), 0) {
			return describeLeaf(v)
		}
		parts := make([]string, 0, v.NumField())
		for i := 0; i < v.NumField(); i++ {
			parts = append(parts, v.Type().Field(i).Name+"="+canonDescribeValue(v.Field(i), depth+1))
		}
		return v.Type().String() + "<" + strings.Join(parts, " ") + ">"
	}
	return describeLeaf(v)
}

func describeLeaf(v reflect.Value) string {
	if v.CanInterface() {
		return describe.D(v.Interface())
	}
	return fmt.Sprintf("%v", v)
}

// containsMap: may a value of this type contain a map (or an interface, which may hold one)?
func containsMap(t reflect.Type, depth int) bool {
	if depth > 8 {
		return true
	}
	switch t.Kind() {
	case reflect.Map, reflect.Interface:
		return true
	case reflect.Ptr, reflect.Slice, reflect.Array:
		return containsMap(t.Elem(), depth+1)
	case reflect.Struct:
		for i := 0; i < t.NumField(); i++ {
			if containsMap(t.Field(i).Type, depth+1) {
				return true
			}
		}
	}
	return false
}
