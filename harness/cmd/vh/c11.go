package main

import (
	"fmt"
	"unicode/utf8"

	"github.com/kstenerud/go-concise-encoding/ce/events"
)

func init() { register("C11", runC11, replayEvents("C11", c11ReplayOracle)) }

type c11Chunk struct {
	n    uint64 // elements
	more bool
	data []byte
}

// c11Array renders begin + chunks, splitting every chunk's data at random positions.
func (g *EvGen) c11Array(begin Ev, chunks []c11Chunk) []Ev {
	out := []Ev{begin}
	for _, ch := range chunks {
		out = append(out, Ev{K: "ac", N: ch.n, B: ch.more})
		pos := 0
		for pos < len(ch.data) {
			k := len(ch.data) - pos
			if g.R.Intn(3) > 0 {
				k = 1 + g.R.Intn(k)
			}
			if g.R.Intn(8) == 0 {
				out = append(out, Ev{K: "ad", Data: []byte{}})
			}
			out = append(out, Ev{K: "ad", Data: ch.data[pos : pos+k]})
			pos += k
		}
	}
	return out
}

var c11Begins = []struct {
	name      string
	begin     Ev
	t         events.ArrayType
	validated bool
}{
	{"string", Ev{K: "ab", A: events.ArrayTypeString}, events.ArrayTypeString, true},
	{"rid", Ev{K: "ab", A: events.ArrayTypeResourceID}, events.ArrayTypeResourceID, true},
	{"remote", Ev{K: "ab", A: events.ArrayTypeReferenceRemote}, events.ArrayTypeReferenceRemote, true},
	{"customtext", Ev{K: "cbeg", A: events.ArrayTypeCustomText, N: 7}, events.ArrayTypeCustomText, true},
	{"custombin", Ev{K: "cbeg", A: events.ArrayTypeCustomBinary, N: 7}, events.ArrayTypeCustomBinary, false},
	{"media", Ev{K: "mb", S: "a/b"}, events.ArrayTypeMedia, false},
	{"u8", Ev{K: "ab", A: events.ArrayTypeUint8}, events.ArrayTypeUint8, false},
	{"u16", Ev{K: "ab", A: events.ArrayTypeUint16}, events.ArrayTypeUint16, false},
	{"i32", Ev{K: "ab", A: events.ArrayTypeInt32}, events.ArrayTypeInt32, false},
	{"f64", Ev{K: "ab", A: events.ArrayTypeFloat64}, events.ArrayTypeFloat64, false},
	{"uid", Ev{K: "ab", A: events.ArrayTypeUID}, events.ArrayTypeUID, false},
	{"bit", Ev{K: "ab", A: events.ArrayTypeBit}, events.ArrayTypeBit, false},
	{"f16", Ev{K: "ab", A: events.ArrayTypeFloat16}, events.ArrayTypeFloat16, false},
}

func wrapDoc(es []Ev) []Ev {
	out := append([]Ev{{K: "bd"}, {K: "v"}, {K: "l"}}, es...)
	return append(out, Ev{K: "e"}, Ev{K: "ed"})
}

func runC11(c *Ctx) {
	c.Rep.Rule = "chunked arrays of 13 kinds (all string-like kinds, media, custom, numeric, bit, uid): random contents (valid UTF-8 / invalid bytes / truncated characters), random chunk boundaries (on and off character boundaries), two independent random divisions of every chunk's bytes into data events (incl. empty events and splits inside characters/elements), plus length mismatches; expected verdict from the property's statement; non-trivial = at least 2 data events; distinct by event text. Whole-array forms and media-type strings are checked too."
	g := NewEvGen(c.Rng, DefaultGenOpts())
	rc := defaultRulesCfg()
	n := c.Pick(700, 20000)
	for i := 0; i < n; i++ {
		b := c11Begins[c.Rng.Intn(len(c11Begins))]
		// contents
		var data []byte
		if b.validated || c.Rng.Intn(3) == 0 {
			data = g.text(8)
			switch c.Rng.Intn(6) {
			case 0: // an invalid byte somewhere
				data = append(data, 0xff)
				data = append(data, g.text(2)...)
			case 1: // truncated character at the end
				data = append(data, []byte("€")[:1+c.Rng.Intn(2)]...)
			case 2: // overlong / surrogate
				data = append(data, [][]byte{{0xc0, 0x80}, {0xed, 0xa0, 0x80}, {0xf4, 0x90, 0x80, 0x80}}[c.Rng.Intn(3)]...)
			}
		} else {
			data = make([]byte, c.Rng.Intn(24))
			c.Rng.Read(data)
		}
		bits := uint64(b.t.ElementSize())
		if bits > 8 { // whole elements only
			data = data[:len(data)/int(bits/8)*int(bits/8)]
		}
		elems := uint64(len(data))
		if bits > 8 {
			elems = uint64(len(data)) / (bits / 8)
		} else if bits == 1 {
			elems = uint64(len(data)) * 8
		}
		// chunking (in elements)
		chunks := []c11Chunk{}
		rem := elems
		pos := 0
		allChunksValid := true
		for {
			var k uint64
			if rem > 0 && c.Rng.Intn(3) > 0 {
				k = 1 + uint64(c.Rng.Int63n(int64(rem)))
				if bits == 1 {
					k = k / 8 * 8
				}
			} else if c.Rng.Intn(2) == 0 {
				k = rem
			}
			more := k != rem || c.Rng.Intn(5) == 0
			nb := int(byteCountFor(b.t, k))
			chunks = append(chunks, c11Chunk{k, more, data[pos : pos+nb]})
			if b.validated && !utf8.Valid(data[pos:pos+nb]) {
				allChunksValid = false
			}
			pos += nb
			rem -= k
			if !more {
				break
			}
		}
		want := allChunksValid // lengths match and the last chunk is final by construction
		mutation := "none"
		if c.Rng.Intn(8) == 0 && len(chunks) > 0 { // deliver one byte too few / too many in a random chunk
			j := c.Rng.Intn(len(chunks))
			if c.Rng.Intn(2) == 0 && len(chunks[j].data) > 0 {
				chunks[j].data = chunks[j].data[:len(chunks[j].data)-1]
				mutation = "short"
			} else {
				chunks[j].data = append(append([]byte{}, chunks[j].data...), 'a')
				mutation = "long"
			}
			want = false
		}
		doc1 := wrapDoc(g.c11Array(b.begin, chunks))
		doc2 := wrapDoc(g.c11Array(b.begin, chunks))
		rej1, _ := c.addRulesCase(rc, doc1)
		rej2, _, _ := runRules(rc, doc2)
		c.Count(evsString(doc1), len(doc1) > 7)
		c.Dist(fmt.Sprintf("array/%s/want-accept=%v/mutation=%s", b.name, want, mutation))
		if i < 3 {
			c.Sample(evsString(doc1))
		}
		if (rej1 < 0) != want {
			c.Fail(Replay{Kind: "events", Key: fmt.Sprintf("C11/verdict/%s/want-accept=%v", b.name, want),
				Input: map[string]string{"events": evsString(doc1), "want": fmt.Sprint(want)}, Expect: fmt.Sprintf("accept=%v", want), Got: fmt.Sprintf("rejected-at=%d", rej1)})
		}
		if (rej1 < 0) != (rej2 < 0) {
			c.Fail(Replay{Kind: "events", Key: "C11/split-dependent/" + b.name,
				Input: map[string]string{"events": evsString(doc1), "events2": evsString(doc2), "want": fmt.Sprint(want)},
				Expect: "same verdict for both divisions into data events", Got: fmt.Sprintf("rejected-at %d vs %d", rej1, rej2)})
		}
		// whole-array forms of the same contents (string-like kinds)
		if i%5 == 0 && (b.t == events.ArrayTypeString || b.t == events.ArrayTypeResourceID || b.t == events.ArrayTypeReferenceRemote) {
			for _, e := range []Ev{{K: "sa", A: b.t, Data: data}, {K: "a", A: b.t, N: uint64(len(data)), Data: data}} {
				doc := wrapDoc([]Ev{e})
				rej, _ := c.addRulesCase(rc, doc)
				wantW := utf8.Valid(data)
				c.Count(evsString(doc), true)
				if (rej < 0) != wantW {
					c.Fail(Replay{Kind: "events", Key: fmt.Sprintf("C11/whole/%s/want-accept=%v", b.name, wantW),
						Input: map[string]string{"events": evsString(doc), "want": fmt.Sprint(wantW)}, Expect: fmt.Sprintf("accept=%v", wantW), Got: fmt.Sprintf("rejected-at=%d", rej)})
				}
			}
		}
		// media type strings must be valid UTF-8 as well (and have the type/subtype shape)
		if i%9 == 0 {
			mt := append([]byte("a/b"), data...)
			if i%18 == 0 {
				// inside the media type grammar (rules validate the shape too since fix afaa1e5)
				const ok = "abcXYZ019!#$%&'*+.^_`|~{}-"
				for j := 3; j < len(mt); j++ {
					mt[j] = ok[int(mt[j])%len(ok)]
				}
			}
			for _, es := range [][]Ev{{{K: "media", S: string(mt), Data: []byte{1}}}, {{K: "mb", S: string(mt)}, {K: "ac", N: 1, B: false}, {K: "ad", Data: []byte{1}}}} {
				doc := wrapDoc(es)
				rej, _ := c.addRulesCase(rc, doc)
				wantW := utf8.Valid(mt) && wfMediaType(string(mt))
				c.Count(evsString(doc), true)
				if (rej < 0) != wantW {
					c.Fail(Replay{Kind: "events", Key: fmt.Sprintf("C11/media-type/want-accept=%v", wantW),
						Input: map[string]string{"events": evsString(doc), "want": fmt.Sprint(wantW)}, Expect: fmt.Sprintf("accept=%v", wantW), Got: fmt.Sprintf("rejected-at=%d", rej)})
				}
			}
		}
	}
}

func c11ReplayOracle(es []Ev) (bool, string, string) {
	rej, _, _ := runRules(defaultRulesCfg(), es)
	return true, "", fmt.Sprintf("rejected-at=%d (compare with the recorded expectation)", rej)
}
