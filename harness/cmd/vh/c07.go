package main

// C07 — No input makes a public entry point panic, hang or crash.
//
// Every public entry point of package ce is called in CHILD processes (hidden
// sub-command "c07-worker" of this binary) under an address-space cap and a
// wall-clock watchdog; the parent classifies each call as ok / err / panic
// (escaped the entry point) / hang (watchdog) / killed (child died: fatal
// runtime error, out of memory, deadlock, stack overflow).  Anything but
// ok/err violates the property.
//
// Correspondence with CE.Model.Entry: (1) the recover / unguarded-operation
// shape of every entry point is extracted from the source (go/ast) into
// Gen/ApiShape.v, (2) the class the model predicts from that shape and from the
// builder-stack model is compared with the class observed in the child.
// (3) sequences of Marshal calls on one object over self-referential types with
// unsupported kinds are described by reflection as a type graph + value shapes
// and compared, call by call, with the iterator-session model (run_typed).

import (
	"bufio"
	"bytes"
	"encoding/hex"
	"fmt"
	"go/ast"
	"go/parser"
	"go/printer"
	"go/token"
	"io"
	"math"
	"math/big"
	"net/url"
	"os"
	"os/exec"
	"reflect"
	"runtime"
	"runtime/debug"
	"sort"
	"strings"
	"sync"
	"syscall"
	"time"
	"unsafe"

	"github.com/cockroachdb/apd/v2"
	compact_float "github.com/kstenerud/go-compact-float"
	compact_time "github.com/kstenerud/go-compact-time"
	"github.com/kstenerud/go-concise-encoding/builder"
	"github.com/kstenerud/go-concise-encoding/ce"
	"github.com/kstenerud/go-concise-encoding/ce/events"
	"github.com/kstenerud/go-concise-encoding/configuration"
	"github.com/kstenerud/go-concise-encoding/nullevent"
	"github.com/kstenerud/go-concise-encoding/types"
)

func init() {
	register("C07", runC07, replayC07)
	generators = append(generators, genApiShape)
	if len(os.Args) >= 2 && os.Args[1] == "c07-worker" {
		c07Worker()
		os.Exit(0)
	}
}

// ---------------------------------------------------------------------------
// Entry points

// c07Entry describes one public entry point as the worker calls it.
type c07Entry struct {
	Name   string // Coq constructor suffix / ApiShape name
	Family string // unmarshal-ce unmarshal-cbe unmarshal-cte decode-ce decode-cbe decode-cte marshal-cbe marshal-cte
	Fmt    string // ce cbe cte
	Kind   string // unmarshal decode marshal
	Reader bool   // takes an io.Reader / io.Writer instead of a byte slice
	Method bool   // called through the Marshaler/Unmarshaler/Decoder object instead of the one-shot function
}

var c07Entries = []c07Entry{
	{"UnmarshalCE", "unmarshal-ce", "ce", "unmarshal", true, false},
	{"UnmarshalFromCEDocument", "unmarshal-ce", "ce", "unmarshal", false, false},
	{"UnmarshalCBE", "unmarshal-cbe", "cbe", "unmarshal", true, false},
	{"UnmarshalFromCBEDocument", "unmarshal-cbe", "cbe", "unmarshal", false, false},
	{"UnmarshalCTE", "unmarshal-cte", "cte", "unmarshal", true, false},
	{"UnmarshalFromCTEDocument", "unmarshal-cte", "cte", "unmarshal", false, false},
	{"CBEUnmarshaler_Unmarshal", "unmarshal-cbe", "cbe", "unmarshal", true, true},
	{"CBEUnmarshaler_UnmarshalFromDocument", "unmarshal-cbe", "cbe", "unmarshal", false, true},
	{"CTEUnmarshaler_Unmarshal", "unmarshal-cte", "cte", "unmarshal", true, true},
	{"CTEUnmarshaler_UnmarshalFromDocument", "unmarshal-cte", "cte", "unmarshal", false, true},
	{"CEDecoder_Decode", "decode-ce", "ce", "decode", true, true},
	{"CEDecoder_DecodeDocument", "decode-ce", "ce", "decode", false, true},
	{"CBEDecoder_Decode", "decode-cbe", "cbe", "decode", true, true},
	{"CBEDecoder_DecodeDocument", "decode-cbe", "cbe", "decode", false, true},
	{"CTEDecoder_Decode", "decode-cte", "cte", "decode", true, true},
	{"CTEDecoder_DecodeDocument", "decode-cte", "cte", "decode", false, true},
	{"MarshalCBE", "marshal-cbe", "cbe", "marshal", true, false},
	{"MarshalToCBEDocument", "marshal-cbe", "cbe", "marshal", false, false},
	{"MarshalCTE", "marshal-cte", "cte", "marshal", true, false},
	{"MarshalToCTEDocument", "marshal-cte", "cte", "marshal", false, false},
	{"CBEMarshaler_Marshal", "marshal-cbe", "cbe", "marshal", true, true},
	{"CBEMarshaler_MarshalToDocument", "marshal-cbe", "cbe", "marshal", false, true},
	{"CTEMarshaler_Marshal", "marshal-cte", "cte", "marshal", true, true},
	{"CTEMarshaler_MarshalToDocument", "marshal-cte", "cte", "marshal", false, true},
}

// Reuse of one Encoder (the object a Marshaler drives): only used by the call sequences (section J of runC07).
// A step decodes a document with a FRESH decoder into the REUSED encoder (after PrepareToEncode); the decoder's own
// recover turns the encoder's documented panics into errors, so the step's class is that of Decoder.DecodeDocument.
var c07EncoderEntries = []c07Entry{
	{"CBEEncoder_Reuse", "encode-cbe", "cbe", "encode", false, true},
	{"CTEEncoder_Reuse", "encode-cte", "cte", "encode", false, true},
}

func c07EntryByName(n string) *c07Entry {
	for i := range c07Entries {
		if c07Entries[i].Name == n {
			return &c07Entries[i]
		}
	}
	for i := range c07EncoderEntries {
		if c07EncoderEntries[i].Name == n {
			return &c07EncoderEntries[i]
		}
	}
	return nil
}

// ---------------------------------------------------------------------------
// Templates and values (by name, so that they can cross the process boundary)

type c07Inner struct {
	A int
	B string
}
type c07Nested struct {
	I  int
	S  string
	L  []int
	M  map[string]int
	P  *c07Inner
	In c07Inner
	X  interface{}
}
type c07WithChan struct {
	A int
	C chan int
}
type c07WithFunc struct {
	F func()
}
type c07WithComplex struct {
	Z complex128
}
type c07WithUnsafe struct {
	P unsafe.Pointer
}
type c07Cyclic struct {
	V    int
	Next *c07Cyclic
}
type c07unexported struct {
	A int
	c chan int //nolint
}

// ---------------------------------------------------------------------------
// Type graphs: self-referential types that also contain an unsupported kind.  Generating the iterator / builder of
// such a type fails half-way, AFTER iterators / builders of other types of the cycle (which captured the placeholder of
// the failing type) have been cached; a later call on the same session that enters the cycle elsewhere invokes that
// captured placeholder.  Values and templates are named "g:<root>/<view>" (see c07GraphViews).

type c07RecA struct { // pointer cycle, unsupported kind AFTER the self reference
	Name string
	Next *c07RecA
	Ch   chan int
}
type c07RecB struct { // unsupported kind BEFORE the self reference
	Ch   chan int
	Next *c07RecB
}
type c07RecC struct { // cycle through a slice of values
	Kids []c07RecC
	F    func()
}
type c07RecD struct { // cycle through a slice of pointers and a map
	Kids []*c07RecD
	M    map[string]*c07RecD
	Z    complex128
}
type c07RecE struct { // mutual recursion, unsupported kind at the far end
	V int
	F *c07RecF
}
type c07RecF struct {
	E    *c07RecE
	Back []*c07RecE
	P    unsafe.Pointer
}
type c07RecG struct { // cycle of three, unsupported kind in the middle
	H *c07RecH
}
type c07RecH struct {
	I *c07RecI
	U uintptr
	G *c07RecG
}
type c07RecI struct {
	G *c07RecG
	H *c07RecH
}
type c07RecJ struct { // every static type is supported; the interface field holds a channel at run time
	Next *c07RecJ
	Bad  interface{}
}
type c07RecK struct { // cycle through an array of pointers
	Arr [2]*c07RecK
	Ch  chan int
}
type c07RecL struct { // cycle through a map value and a pointer to pointer
	M  map[string]c07RecL
	PP **c07RecL
	Z  complex64
}
type c07RecOK struct { // supported cycle (control)
	V    int
	Next *c07RecOK
	Kids []*c07RecOK
}
type c07RecOuter struct { // supported wrapper around an unsupported cycle
	OK *c07RecOK
	A  *c07RecA
	E  []*c07RecE
}

var c07GraphRoots = map[string]reflect.Type{
	"recA": reflect.TypeOf(c07RecA{}), "recB": reflect.TypeOf(c07RecB{}), "recC": reflect.TypeOf(c07RecC{}), "recD": reflect.TypeOf(c07RecD{}),
	"recE": reflect.TypeOf(c07RecE{}), "recF": reflect.TypeOf(c07RecF{}), "recG": reflect.TypeOf(c07RecG{}), "recH": reflect.TypeOf(c07RecH{}),
	"recI": reflect.TypeOf(c07RecI{}), "recJ": reflect.TypeOf(c07RecJ{}), "recK": reflect.TypeOf(c07RecK{}), "recL": reflect.TypeOf(c07RecL{}),
	"recOK": reflect.TypeOf(c07RecOK{}), "recOuter": reflect.TypeOf(c07RecOuter{}),
}
var c07GraphRootNames = func() []string {
	out := []string{}
	for k := range c07GraphRoots {
		out = append(out, k)
	}
	sort.Strings(out)
	return out
}()

// Views of a root type T. The core views are combined exhaustively (ordered pairs), the others are sampled.
//
//	val0 T{}            val2 T filled two levels deep     ptr0 &T{}         ptr2 &T filled two levels deep
//	nilptr (*T)(nil)    sliceptr []*T{&T{}}                map map[string]*T{"k": &T{}}   ifacelist []interface{}{&T{}}
//	sliceval []T{T filled one level}   emptyslice []*T{}   ptrptr **T        wrap struct{ P *T }{&T{}}
var c07GraphCoreViews = []string{"val0", "val2", "ptr0", "ptr2", "nilptr", "sliceptr", "map", "ifacelist"}
var c07GraphViews = append(append([]string{}, c07GraphCoreViews...), "sliceval", "emptyslice", "ptrptr", "wrap")

// c07Fill builds a value of type t whose pointers / slices / maps are non-nil down to `depth` levels of indirection.
// Interface fields named Bad hold a channel (an unsupported kind that only shows up while iterating).
func c07Fill(t reflect.Type, depth int, fieldName string) reflect.Value {
	v := reflect.New(t).Elem()
	switch t.Kind() {
	case reflect.Ptr:
		if depth > 0 {
			p := reflect.New(t.Elem())
			p.Elem().Set(c07Fill(t.Elem(), depth-1, ""))
			v.Set(p)
		}
	case reflect.Slice:
		if depth > 0 {
			v.Set(reflect.Append(v, c07Fill(t.Elem(), depth-1, "")))
		}
	case reflect.Array:
		for i := 0; i < t.Len(); i++ {
			v.Index(i).Set(c07Fill(t.Elem(), depth, ""))
		}
	case reflect.Map:
		if depth > 0 && t.Key().Kind() == reflect.String {
			m := reflect.MakeMap(t)
			m.SetMapIndex(reflect.ValueOf("k").Convert(t.Key()), c07Fill(t.Elem(), depth-1, ""))
			v.Set(m)
		}
	case reflect.Struct:
		for i := 0; i < t.NumField(); i++ {
			if t.Field(i).PkgPath == "" {
				v.Field(i).Set(c07Fill(t.Field(i).Type, depth, t.Field(i).Name))
			}
		}
	case reflect.Interface:
		if depth > 0 && fieldName == "Bad" {
			v.Set(reflect.ValueOf(make(chan int)))
		}
	case reflect.Int, reflect.Int8, reflect.Int16, reflect.Int32, reflect.Int64:
		v.SetInt(1)
	case reflect.String:
		v.SetString("s")
	}
	return v
}

func c07GraphValue(name string) (interface{}, bool) {
	if !strings.HasPrefix(name, "g:") {
		return nil, false
	}
	p := strings.SplitN(name[2:], "/", 2)
	if len(p) != 2 {
		return nil, false
	}
	t, ok := c07GraphRoots[p[0]]
	if !ok {
		return nil, false
	}
	pt := reflect.PtrTo(t)
	ptrTo := func(v reflect.Value) reflect.Value {
		q := reflect.New(v.Type())
		q.Elem().Set(v)
		return q
	}
	switch p[1] {
	case "val0":
		return c07Fill(t, 0, "").Interface(), true
	case "val2":
		return c07Fill(t, 2, "").Interface(), true
	case "ptr0":
		return c07Fill(pt, 1, "").Interface(), true
	case "ptr2":
		return c07Fill(pt, 3, "").Interface(), true
	case "nilptr":
		return reflect.Zero(pt).Interface(), true
	case "sliceptr":
		return c07Fill(reflect.SliceOf(pt), 2, "").Interface(), true
	case "sliceval":
		return c07Fill(reflect.SliceOf(t), 2, "").Interface(), true
	case "emptyslice":
		return reflect.MakeSlice(reflect.SliceOf(pt), 0, 0).Interface(), true
	case "map":
		return c07Fill(reflect.MapOf(reflect.TypeOf(""), pt), 2, "").Interface(), true
	case "ptrptr":
		return ptrTo(c07Fill(pt, 1, "")).Interface(), true
	case "ifacelist":
		return []interface{}{c07Fill(pt, 1, "").Interface()}, true
	case "wrap":
		st := reflect.StructOf([]reflect.StructField{{Name: "P", Type: pt}})
		return c07Fill(st, 1, "").Interface(), true
	}
	return nil, false
}

// values whose iteration fails only AFTER events have reached the encoder (open containers are left behind)
var c07MidFailNames = []string{"v:mid-list-chan", "v:mid-map-func", "v:mid-struct-iface", "v:mid-deep", "g:recJ/ptr2", "g:recJ/val2"}

// c07Supported lists the template / value kinds the library documents as supported.
var c07TemplateNames = []string{
	"nil", "bool", "int", "int8", "uint", "uint64", "float32", "float64", "string", "bytes",
	"[]int", "[]interface", "[]string", "[3]int", "[]float64", "[]uint16", "map[string]int", "map[interface]interface",
	"map[int]string", "struct", "*struct", "nested", "*nested", "time", "*bigint", "edge", "node", "uid", "*url", "[][]int",
	"*int", "interface-slice-ptr", "struct-unexported-chan",
}
var c07UnsupportedNames = []string{
	"chan", "func", "complex128", "complex64", "unsafe.Pointer", "uintptr", "struct-chan", "struct-func", "struct-complex",
	"struct-unsafe", "[]chan", "map[string]func", "*chan", "[2]complex128", "map[chan]int",
}

func c07Template(name string) (v interface{}, ok bool) {
	switch name {
	case "nil":
		return nil, true
	case "bool":
		return false, true
	case "int":
		return int(0), true
	case "int8":
		return int8(0), true
	case "uint":
		return uint(0), true
	case "uint64":
		return uint64(0), true
	case "float32":
		return float32(0), true
	case "float64":
		return float64(0), true
	case "string":
		return "", true
	case "bytes":
		return []byte{}, true
	case "[]int":
		return []int{}, true
	case "[]interface":
		return []interface{}{}, true
	case "[]string":
		return []string{}, true
	case "[3]int":
		return [3]int{}, true
	case "[]float64":
		return []float64{}, true
	case "[]uint16":
		return []uint16{}, true
	case "[][]int":
		return [][]int{}, true
	case "map[string]int":
		return map[string]int{}, true
	case "map[interface]interface":
		return map[interface{}]interface{}{}, true
	case "map[int]string":
		return map[int]string{}, true
	case "struct":
		return c07Inner{}, true
	case "*struct":
		return &c07Inner{}, true
	case "nested":
		return c07Nested{}, true
	case "*nested":
		return &c07Nested{}, true
	case "time":
		return time.Time{}, true
	case "*bigint":
		return &big.Int{}, true
	case "edge":
		return types.Edge{}, true
	case "node":
		return types.Node{}, true
	case "uid":
		return types.UID{}, true
	case "*url":
		return &url.URL{}, true
	case "*int":
		return new(int), true
	case "interface-slice-ptr":
		return &[]interface{}{}, true
	case "chan":
		return make(chan int), true
	case "func":
		return func() {}, true
	case "complex128":
		return complex128(1 + 2i), true
	case "complex64":
		return complex64(1 + 2i), true
	case "unsafe.Pointer":
		x := 1
		return unsafe.Pointer(&x), true
	case "uintptr":
		return uintptr(1), true
	case "struct-chan":
		return c07WithChan{A: 1, C: make(chan int)}, true
	case "struct-func":
		return c07WithFunc{F: func() {}}, true
	case "struct-complex":
		return c07WithComplex{Z: 1i}, true
	case "struct-unsafe":
		return c07WithUnsafe{}, true
	case "[]chan":
		return []chan int{make(chan int)}, true
	case "map[string]func":
		return map[string]func(){"a": func() {}}, true
	case "*chan":
		ch := make(chan int)
		return &ch, true
	case "[2]complex128":
		return [2]complex128{1, 2i}, true
	case "map[chan]int":
		return map[chan int]int{make(chan int): 1}, true
	case "struct-unexported-chan":
		return c07unexported{A: 1}, true
	}
	return c07GraphValue(name)
}

// values to marshal: the templates above (as values) plus populated / special values
var c07ValueNames = []string{
	"v:int", "v:negint", "v:string", "v:list", "v:map", "v:struct", "v:*struct", "v:nested", "v:time", "v:bigint", "v:nan",
	"v:bytes", "v:url", "v:nil-ptr", "v:typed-nil-in-list", "v:nan-key-map", "v:edge", "v:node", "v:uid", "v:media",
	"v:deep-list", "v:big-string", "v:invalid-utf8-string", "v:empty-struct", "v:interface-map",
}
var c07CyclicNames = []string{"v:cyclic-ptr", "v:cyclic-slice", "v:cyclic-map"}

func c07Value(name string, deep int) (v interface{}, ok bool) {
	switch name {
	case "v:int":
		return 42, true
	case "v:negint":
		return int64(math.MinInt64), true
	case "v:string":
		return "hello", true
	case "v:list":
		return []interface{}{1, "a", nil, 1.5, true}, true
	case "v:map":
		return map[string]int{"a": 1, "b": 2}, true
	case "v:struct":
		return c07Inner{A: 1, B: "x"}, true
	case "v:*struct":
		return &c07Inner{A: 1, B: "x"}, true
	case "v:nested":
		return c07Nested{I: 1, S: "s", L: []int{1, 2}, M: map[string]int{"k": 1}, P: &c07Inner{A: 2}, X: []interface{}{"y"}}, true
	case "v:time":
		return time.Date(2020, 1, 2, 3, 4, 5, 6, time.UTC), true
	case "v:bigint":
		b := new(big.Int)
		b.SetString("-123456789012345678901234567890", 10)
		return b, true
	case "v:nan":
		return math.NaN(), true
	case "v:bytes":
		return []byte{1, 2, 3}, true
	case "v:url":
		u, _ := url.Parse("http://example.com/x?y=1")
		return u, true
	case "v:nil-ptr":
		return (*c07Inner)(nil), true
	case "v:typed-nil-in-list":
		return []interface{}{(*int)(nil), (map[string]int)(nil), ([]int)(nil)}, true
	case "v:nan-key-map":
		return map[float64]int{math.NaN(): 1, 1: 2}, true
	case "v:edge":
		return types.Edge{Source: "a", Description: 1, Destination: []interface{}{1}}, true
	case "v:node":
		return types.Node{Value: 1, Children: []interface{}{types.Node{Value: 2}, 3}}, true
	case "v:uid":
		return types.UID{1, 2, 3}, true
	case "v:media":
		return types.Media{MediaType: "a/b", Data: []byte{1}}, true
	case "v:deep-list":
		var x interface{} = 1
		for i := 0; i < deep; i++ {
			x = []interface{}{x}
		}
		return x, true
	case "v:big-string":
		return strings.Repeat("abcdefgh", 1<<14), true
	case "v:invalid-utf8-string":
		return "a\xffb\xc3", true
	case "v:empty-struct":
		return struct{}{}, true
	case "v:interface-map":
		return map[interface{}]interface{}{1: "a", "b": []interface{}{2}}, true
	case "v:mid-list-chan":
		return []interface{}{1, "a", make(chan int)}, true
	case "v:mid-map-func":
		return map[string]interface{}{"a": func() {}}, true
	case "v:mid-struct-iface":
		return c07Nested{I: 1, S: "s", L: []int{1}, X: make(chan int)}, true
	case "v:mid-deep":
		return []interface{}{[]interface{}{map[string]interface{}{"k": []interface{}{1, complex(1, 2)}}}}, true
	case "v:cyclic-ptr":
		n := &c07Cyclic{V: 1}
		n.Next = n
		return n, true
	case "v:cyclic-slice":
		s := make([]interface{}, 1)
		s[0] = s
		return s, true
	case "v:cyclic-map":
		m := map[string]interface{}{}
		m["self"] = m
		return m, true
	}
	return c07Template(name)
}

// ---------------------------------------------------------------------------
// Worker (child process)

// request line:  <entry> \t <rules 0|1> \t <template or value name> \t <repeat> \t <hex document>
// answer line:   <class> \t <detail>
// where class = ok | err | panic, and for the entry "trace" the detail is the structural trace.

type c07Req struct {
	Entry  string
	Rules  bool
	Tmpl   string
	Repeat int // the same Marshaler/Unmarshaler/Decoder object is used Repeat times (>= 1); the class of the LAST call is reported
	Doc    []byte
	Slow   bool // cyclic value: the worker runs this call with an 8 MB maximum stack so that unbounded recursion dies at once
}

// request line:  <entry> \t <rules 0|1> \t <template or value name> \t <repeat> \t <hex document>
// (the watchdog time-out in ms is prepended by the parent when sending)
func (r c07Req) line() string {
	ru := "0"
	if r.Rules {
		ru = "1"
	}
	rep := r.Repeat
	if rep < 1 {
		rep = 1
	}
	return fmt.Sprintf("%s\t%s\t%s\t%d\t%s\n", r.Entry, ru, r.Tmpl, rep, hex.EncodeToString(r.Doc))
}

// c07CallState looks at the goroutine that runs the request: (blocked forever on a WaitGroup?, short description).
// The library starts no goroutines, and the worker's other goroutine only waits for this one, so a call that
// sits in sync.WaitGroup.Wait can never be released.
func c07CallState(gid string) (deadlocked bool, desc string) {
	buf := make([]byte, 1<<20)
	buf = buf[:runtime.Stack(buf, true)]
	for _, blk := range strings.Split(string(buf), "\n\n") {
		if !strings.HasPrefix(blk, "goroutine "+gid+" [") {
			continue
		}
		lines := strings.Split(blk, "\n")
		state := lines[0]
		frames := []string{}
		for _, l := range lines[1:] {
			if strings.HasPrefix(l, "\t") || !strings.Contains(l, "go-concise-encoding/") {
				continue
			}
			f := l[strings.Index(l, "go-concise-encoding/")+len("go-concise-encoding/"):]
			if i := strings.LastIndexByte(f, '('); i > 0 {
				f = f[:i]
			}
			if len(frames) == 0 || frames[len(frames)-1] != f {
				frames = append(frames, f)
			}
			if len(frames) >= 4 {
				break
			}
		}
		return strings.Contains(blk, "sync.(*WaitGroup).Wait"), state + " " + strings.Join(frames, " < ")
	}
	return false, "call goroutine not found"
}

type c07Answer struct{ class, detail string }

// c07Watch runs ONE call (f) in a goroutine of its own under the worker-side watchdog: a goroutine found parked in
// sync.WaitGroup.Wait after 400 ms is a proven deadlock (answer "hang: deadlock", the goroutine stays parked and the
// worker goes on); a call still running after ms milliseconds is answered "hang" and the worker must exit (exit = true).
func c07Watch(ms int, f func() (string, string)) (a c07Answer, exit bool) {
	resCh := make(chan c07Answer, 1)
	gidCh := make(chan string, 1)
	go func() {
		b := make([]byte, 64)
		b = b[:runtime.Stack(b, false)] // "goroutine N [running]:..."
		fl := strings.Fields(string(b))
		if len(fl) >= 2 {
			gidCh <- fl[1]
		} else {
			gidCh <- "?"
		}
		cl, de := f()
		resCh <- c07Answer{cl, de}
	}()
	gid := <-gidCh
	start := time.Now()
	tick := time.NewTicker(200 * time.Millisecond)
	defer tick.Stop()
	for {
		select {
		case a = <-resCh:
			return a, false
		case <-tick.C:
			el := time.Since(start)
			if el >= 400*time.Millisecond {
				if dead, desc := c07CallState(gid); dead {
					return c07Answer{"hang", "deadlock: " + desc}, false
				} else if el >= time.Duration(ms)*time.Millisecond {
					return c07Answer{"hang", fmt.Sprintf("still running after %dms: %s", ms, desc)}, true
				}
			}
		}
	}
}

func c07Worker() {
	memCap := uint64(4 << 30)
	if len(os.Args) >= 3 {
		fmt.Sscan(os.Args[2], &memCap)
	}
	if memCap != 0 {
		syscall.Setrlimit(syscall.RLIMIT_AS, &syscall.Rlimit{Cur: memCap, Max: memCap})
	}
	// Unbounded recursion ends in the runtime's fatal "stack overflow" at the maximum stack size; a smaller
	// maximum (default 1 GB) only makes that happen sooner. Nothing the harness sends legitimately needs 64 MB;
	// the cyclic values (a few bytes each) are marshaled with 8 MB (set per request).
	in := bufio.NewReaderSize(os.Stdin, 1<<22)
	out := bufio.NewWriter(os.Stdout)
	fmt.Fprintf(out, "ready\n")
	out.Flush()
	for {
		line, err := in.ReadString('\n')
		line = strings.TrimRight(line, "\r\n")
		if line != "" {
			parts := strings.Split(line, "\t")
			if len(parts) != 7 {
				fmt.Fprintf(out, "bad\trequest\n")
			} else {
				ms, stackMB := 3000, 64
				fmt.Sscan(parts[0], &ms)
				fmt.Sscan(parts[1], &stackMB)
				debug.SetMaxStack(stackMB << 20)
				parts = parts[1:]
				req := c07Req{Entry: parts[1], Rules: parts[2] == "1", Tmpl: parts[3]}
				fmt.Sscan(parts[4], &req.Repeat)
				req.Doc, _ = hex.DecodeString(parts[5])
				var a c07Answer
				exit := false
				if strings.HasPrefix(req.Tmpl, "seq:") {
					a, exit = c07ServeSeq(req, ms) // every step has its own watchdog
				} else {
					a, exit = c07Watch(ms, func() (string, string) { return c07Serve(req) })
				}
				detail := strings.ReplaceAll(strings.ReplaceAll(a.detail, "\n", " "), "\t", " ")
				if len(detail) > 400 {
					detail = detail[:400]
				}
				fmt.Fprintf(out, "%s\t%s\n", a.class, detail)
				out.Flush()
				if exit {
					os.Exit(3)
				}
			}
			out.Flush()
		}
		if err != nil {
			return
		}
	}
}

type c07NullReceiver struct{ nullevent.NullEventReceiver }

// c07Object is what a caller keeps between calls: the Marshaler / Unmarshaler / Decoder / Encoder behind a method
// entry point (nothing for the one-shot functions, which make their own per call).
type c07Object struct {
	e   *c07Entry
	cfg *configuration.Configuration
	u   ce.Unmarshaler
	d   ce.Decoder
	m   ce.Marshaler
	enc ce.Encoder
}

func c07NewObject(e *c07Entry, cfg *configuration.Configuration) *c07Object {
	o := &c07Object{e: e, cfg: cfg}
	switch e.Kind {
	case "unmarshal":
		if e.Method {
			if e.Fmt == "cbe" {
				o.u = ce.NewCBEUnmarshaler(cfg)
			} else {
				o.u = ce.NewCTEUnmarshaler(cfg)
			}
		}
	case "decode":
		switch e.Fmt {
		case "ce":
			o.d = ce.NewCEDecoder(cfg)
		case "cbe":
			o.d = ce.NewCBEDecoder(cfg)
		default:
			o.d = ce.NewCTEDecoder(cfg)
		}
	case "marshal":
		if e.Method {
			if e.Fmt == "cbe" {
				o.m = ce.NewCBEMarshaler(cfg)
			} else {
				o.m = ce.NewCTEMarshaler(cfg)
			}
		}
	case "encode":
		if e.Fmt == "cbe" {
			o.enc = ce.NewCBEEncoder(cfg)
		} else {
			o.enc = ce.NewCTEEncoder(cfg)
		}
	}
	return o
}

// call performs ONE call of the entry point on this object. A panic that ESCAPES the entry point is caught here
// (class "panic"); the process survives, which is what a caller with its own recover() would observe.
func (o *c07Object) call(rules bool, tmplName string, doc []byte) (class, detail string) {
	defer func() {
		if r := recover(); r != nil {
			class, detail = "panic", fmt.Sprint(r)
		}
	}()
	fin := func(err error) (string, string) {
		if err != nil {
			return "err", err.Error()
		}
		return "ok", ""
	}
	e, cfg := o.e, o.cfg
	var err error
	switch e.Kind {
	case "unmarshal":
		tmpl, ok := c07Template(tmplName)
		if !ok {
			return "bad", "unknown template " + tmplName
		}
		switch e.Name {
		case "UnmarshalCE":
			_, err = ce.UnmarshalCE(bytes.NewReader(doc), tmpl, cfg)
		case "UnmarshalFromCEDocument":
			_, err = ce.UnmarshalFromCEDocument(doc, tmpl, cfg)
		case "UnmarshalCBE":
			_, err = ce.UnmarshalCBE(bytes.NewReader(doc), tmpl, cfg)
		case "UnmarshalFromCBEDocument":
			_, err = ce.UnmarshalFromCBEDocument(doc, tmpl, cfg)
		case "UnmarshalCTE":
			_, err = ce.UnmarshalCTE(bytes.NewReader(doc), tmpl, cfg)
		case "UnmarshalFromCTEDocument":
			_, err = ce.UnmarshalFromCTEDocument(doc, tmpl, cfg)
		default:
			if e.Reader {
				_, err = o.u.Unmarshal(bytes.NewReader(doc), tmpl)
			} else {
				_, err = o.u.UnmarshalFromDocument(doc, tmpl)
			}
		}
		return fin(err)
	case "decode":
		var rcv events.DataEventReceiver = &c07NullReceiver{}
		if rules {
			rcv = ce.NewRules(rcv, cfg)
		}
		if e.Reader {
			err = o.d.Decode(bytes.NewReader(doc), rcv)
		} else {
			err = o.d.DecodeDocument(doc, rcv)
		}
		return fin(err)
	case "marshal":
		val, ok := c07Value(tmplName, len(doc)*200)
		if !ok {
			return "bad", "unknown value " + tmplName
		}
		switch e.Name {
		case "MarshalCBE":
			err = ce.MarshalCBE(val, io.Discard, cfg)
		case "MarshalToCBEDocument":
			_, err = ce.MarshalToCBEDocument(val, cfg)
		case "MarshalCTE":
			err = ce.MarshalCTE(val, io.Discard, cfg)
		case "MarshalToCTEDocument":
			_, err = ce.MarshalToCTEDocument(val, cfg)
		default:
			if e.Reader {
				err = o.m.Marshal(val, io.Discard)
			} else {
				_, err = o.m.MarshalToDocument(val)
			}
		}
		return fin(err)
	case "encode":
		// a fresh universal decoder drives the reused encoder; the encoder's panics surface as the decoder's error
		o.enc.PrepareToEncode(io.Discard)
		var rcv events.DataEventReceiver = o.enc
		if rules {
			rcv = ce.NewRules(rcv, cfg)
		}
		err = ce.NewCEDecoder(cfg).DecodeDocument(doc, rcv)
		return fin(err)
	}
	return "bad", "unknown kind"
}

// c07Serve performs one plain request inside the worker: Repeat calls with the same input on one object; the class of
// the last call is reported (a panic that escaped an earlier call is reported at once).
func c07Serve(req c07Req) (class, detail string) {
	defer func() {
		if r := recover(); r != nil {
			class, detail = "panic", fmt.Sprint(r)
		}
	}()
	cfg := configuration.New()
	cfg.Marshal.EnforceRules = req.Rules
	if strings.HasPrefix(req.Entry, "trace-") {
		return c07Trace(req.Entry[len("trace-"):], req, cfg)
	}
	e := c07EntryByName(req.Entry)
	if e == nil {
		return "bad", "unknown entry " + req.Entry
	}
	rep := req.Repeat
	if rep < 1 {
		rep = 1
	}
	o := c07NewObject(e, cfg)
	for i := 0; i < rep; i++ {
		class, detail = o.call(req.Rules, req.Tmpl, req.Doc)
		if class != "ok" && class != "err" {
			return class, detail
		}
	}
	return class, detail
}

// A call sequence: Tmpl = "seq:" + steps joined by "|"; a step is "<template or value name>@<hex document>" (for a
// marshal step the document only carries the nesting depth of v:deep-list, as in the plain requests).
type c07Step struct {
	Tmpl string
	Doc  []byte
}

func c07SeqSpec(steps []c07Step) string {
	p := make([]string, len(steps))
	for i, st := range steps {
		p[i] = st.Tmpl + "@" + hex.EncodeToString(st.Doc)
	}
	return "seq:" + strings.Join(p, "|")
}

func c07ParseSeq(s string) ([]c07Step, error) {
	if !strings.HasPrefix(s, "seq:") {
		return nil, fmt.Errorf("not a sequence")
	}
	out := []c07Step{}
	for _, p := range strings.Split(s[4:], "|") {
		i := strings.LastIndexByte(p, '@')
		if i < 0 {
			return nil, fmt.Errorf("bad step %q", p)
		}
		d, err := hex.DecodeString(p[i+1:])
		if err != nil {
			return nil, fmt.Errorf("bad step %q", p)
		}
		out = append(out, c07Step{Tmpl: p[:i], Doc: d})
	}
	if len(out) == 0 {
		return nil, fmt.Errorf("empty sequence")
	}
	return out, nil
}

// c07ServeSeq performs a call sequence on ONE object, every step under its own watchdog.  Answer: the class of the
// first step that did not return normally (hang / panic), else the class of the last step; the detail starts with
// "steps=<class of every performed step, comma separated>;".  A step that hangs ends the sequence (its goroutine
// still owns the object).
func c07ServeSeq(req c07Req, ms int) (a c07Answer, exit bool) {
	steps, err := c07ParseSeq(req.Tmpl)
	e := c07EntryByName(req.Entry)
	if err != nil || e == nil {
		return c07Answer{"bad", "bad sequence request"}, false
	}
	cfg := configuration.New()
	cfg.Marshal.EnforceRules = req.Rules
	var o *c07Object
	classes := []string{}
	worst, worstDetail := "", ""
	for i, st := range steps {
		st := st
		sa, ex := c07Watch(ms, func() (cl string, de string) {
			defer func() {
				if r := recover(); r != nil { // the constructor panicked
					cl, de = "panic", fmt.Sprint(r)
				}
			}()
			if o == nil {
				o = c07NewObject(e, cfg)
			}
			return o.call(req.Rules, st.Tmpl, st.Doc)
		})
		classes = append(classes, sa.class)
		if sa.class == "bad" {
			return c07Answer{"bad", sa.detail}, ex
		}
		if sa.class != "ok" && sa.class != "err" && worst == "" {
			worst, worstDetail = sa.class, fmt.Sprintf("step %d of %d (%s): %s", i+1, len(steps), st.Tmpl, sa.detail)
		}
		if sa.class == "hang" {
			return c07Answer{"hang", "steps=" + strings.Join(classes, ",") + "; " + worstDetail}, ex
		}
		a = sa
	}
	if worst != "" {
		return c07Answer{worst, "steps=" + strings.Join(classes, ",") + "; " + worstDetail}, false
	}
	return c07Answer{a.class, "steps=" + strings.Join(classes, ",") + "; " + a.detail}, false
}

// ---------------------------------------------------------------------------
// Structural trace: the decoder -> [rules] -> builder chain of Unmarshal, rebuilt
// from public constructors, with a tee in front of the builder and WITHOUT the
// OnError() call that follows a failed decode.  Reports what the builder had
// consumed when decoding stopped.

type c07Tee struct {
	next      events.DataEventReceiver
	trace     []byte
	inflight  byte // structural letter of the event being delivered (0 = none)
	remaining uint64
	more      bool
}

// letters: V value, L list, M map, E edge, N node, e end container, K marker, R local reference,
// T record type, r record, '.' event the builder ignores
func (t *c07Tee) do(letter byte, f func()) {
	t.inflight = letter
	f()
	t.inflight = 0
	if letter != '.' {
		t.trace = append(t.trace, letter)
	}
}

func (t *c07Tee) OnBeginDocument()   { t.do('.', func() { t.next.OnBeginDocument() }) }
func (t *c07Tee) OnVersion(v uint64) { t.do('.', func() { t.next.OnVersion(v) }) }
func (t *c07Tee) OnPadding()         { t.do('.', func() { t.next.OnPadding() }) }
func (t *c07Tee) OnComment(m bool, c []byte) {
	t.do('.', func() { t.next.OnComment(m, c) })
}
func (t *c07Tee) OnNull()                   { t.do('V', func() { t.next.OnNull() }) }
func (t *c07Tee) OnBoolean(v bool)          { t.do('V', func() { t.next.OnBoolean(v) }) }
func (t *c07Tee) OnTrue()                   { t.do('V', func() { t.next.OnTrue() }) }
func (t *c07Tee) OnFalse()                  { t.do('V', func() { t.next.OnFalse() }) }
func (t *c07Tee) OnPositiveInt(v uint64)    { t.do('V', func() { t.next.OnPositiveInt(v) }) }
func (t *c07Tee) OnNegativeInt(v uint64)    { t.do('V', func() { t.next.OnNegativeInt(v) }) }
func (t *c07Tee) OnInt(v int64)             { t.do('V', func() { t.next.OnInt(v) }) }
func (t *c07Tee) OnBigInt(v *big.Int)       { t.do('V', func() { t.next.OnBigInt(v) }) }
func (t *c07Tee) OnFloat(v float64)         { t.do('V', func() { t.next.OnFloat(v) }) }
func (t *c07Tee) OnBigFloat(v *big.Float)   { t.do('V', func() { t.next.OnBigFloat(v) }) }
func (t *c07Tee) OnNan(s bool)              { t.do('V', func() { t.next.OnNan(s) }) }
func (t *c07Tee) OnUID(v []byte)            { t.do('V', func() { t.next.OnUID(v) }) }
func (t *c07Tee) OnList()                   { t.do('L', func() { t.next.OnList() }) }
func (t *c07Tee) OnMap()                    { t.do('M', func() { t.next.OnMap() }) }
func (t *c07Tee) OnEdge()                   { t.do('E', func() { t.next.OnEdge() }) }
func (t *c07Tee) OnNode()                   { t.do('N', func() { t.next.OnNode() }) }
func (t *c07Tee) OnEndContainer()           { t.do('e', func() { t.next.OnEndContainer() }) }
func (t *c07Tee) OnMarker(id []byte)        { t.do('K', func() { t.next.OnMarker(id) }) }
func (t *c07Tee) OnReferenceLocal(i []byte) { t.do('R', func() { t.next.OnReferenceLocal(i) }) }
func (t *c07Tee) OnRecordType(id []byte)    { t.do('T', func() { t.next.OnRecordType(id) }) }
func (t *c07Tee) OnRecord(id []byte)        { t.do('r', func() { t.next.OnRecord(id) }) }
func (t *c07Tee) OnEndDocument()            { t.do('.', func() { t.next.OnEndDocument() }) }
func (t *c07Tee) OnError()                  {}
func (t *c07Tee) OnDecimalFloat(v compact_float.DFloat) {
	t.do('V', func() { t.next.OnDecimalFloat(v) })
}
func (t *c07Tee) OnBigDecimalFloat(v *apd.Decimal) {
	t.do('V', func() { t.next.OnBigDecimalFloat(v) })
}
func (t *c07Tee) OnTime(v compact_time.Time) { t.do('V', func() { t.next.OnTime(v) }) }
func (t *c07Tee) OnArray(a events.ArrayType, n uint64, d []byte) {
	t.do('V', func() { t.next.OnArray(a, n, d) })
}
func (t *c07Tee) OnStringlikeArray(a events.ArrayType, d string) {
	t.do('V', func() { t.next.OnStringlikeArray(a, d) })
}
func (t *c07Tee) OnMedia(m string, d []byte) { t.do('V', func() { t.next.OnMedia(m, d) }) }
func (t *c07Tee) OnCustomBinary(c uint64, d []byte) {
	t.do('V', func() { t.next.OnCustomBinary(c, d) })
}
func (t *c07Tee) OnCustomText(c uint64, d string) {
	t.do('V', func() { t.next.OnCustomText(c, d) })
}
func (t *c07Tee) OnArrayBegin(a events.ArrayType) { t.do('.', func() { t.next.OnArrayBegin(a) }) }
func (t *c07Tee) OnMediaBegin(m string)           { t.do('.', func() { t.next.OnMediaBegin(m) }) }
func (t *c07Tee) OnCustomBegin(a events.ArrayType, c uint64) {
	t.do('.', func() { t.next.OnCustomBegin(a, c) })
}

// The builder turns a chunked array into one value when the last chunk is complete
// (builder/context.go BeginArrayChunk / AddArrayData).
func (t *c07Tee) OnArrayChunk(n uint64, more bool) {
	t.remaining, t.more = n, more
	l := byte('.')
	if !more && n == 0 {
		l = 'V'
	}
	t.do(l, func() { t.next.OnArrayChunk(n, more) })
}
func (t *c07Tee) OnArrayData(d []byte) {
	t.remaining -= uint64(len(d))
	l := byte('.')
	if !t.more && t.remaining == 0 {
		l = 'V'
	}
	t.do(l, func() { t.next.OnArrayData(d) })
}

// c07Trace: class ok/err = what the decoder returned; detail = "<consumed letters>!<in-flight letter or ->".
func c07Trace(format string, req c07Req, cfg *configuration.Configuration) (class, detail string) {
	tmpl, ok := c07Template(req.Tmpl)
	if !ok {
		return "bad", "unknown template"
	}
	tee := &c07Tee{}
	defer func() {
		// the builder session itself may refuse the template type (unsupported kind)
		if r := recover(); r != nil {
			class, detail = "err", string(tee.trace)+"!B"
		}
	}()
	session := builder.NewSession(nil, cfg)
	b := session.NewBuilderFor(tmpl)
	tee.next = b
	var rcv events.DataEventReceiver = tee
	if req.Rules {
		rcv = ce.NewRules(tee, cfg)
	}
	var d ce.Decoder
	switch format {
	case "cbe":
		d = ce.NewCBEDecoder(cfg)
	case "cte":
		d = ce.NewCTEDecoder(cfg)
	default:
		if len(req.Doc) == 0 {
			return "err", "!-"
		}
		d = ce.NewCEDecoder(cfg)
	}
	err := d.DecodeDocument(req.Doc, rcv)
	fl := "-"
	if tee.inflight != 0 {
		fl = string([]byte{tee.inflight})
	}
	detail = string(tee.trace) + "!" + fl
	if err != nil {
		return "err", detail
	}
	return "ok", detail
}

// ---------------------------------------------------------------------------
// Gen/ApiShape.v — for every exported function / method of the API files: does
// the body run under a deferred recover(), which partial operations happen
// outside it, and which functions it calls.  Extracted from the source text
// (go/ast) of the current tree.

var c07ApiFiles = []struct{ pkg, path string }{
	{"ce", "/repo/ce/api.go"}, {"ce", "/repo/ce/decoder.go"}, {"ce", "/repo/ce/unmarshaler.go"},
	{"ce", "/repo/ce/marshaler.go"}, {"ce", "/repo/ce/encoder.go"},
	{"cbe", "/repo/cbe/decoder.go"}, {"cbe", "/repo/cbe/marshal.go"},
	{"cte", "/repo/cte/decoder.go"}, {"cte", "/repo/cte/marshal.go"},
}

type c07FnShape struct {
	Name      string
	Recover   bool
	Unguarded []string // Coq terms of type partial_op
	Calls     []string
}

func c07IsRecoverDefer(st ast.Stmt) bool {
	d, ok := st.(*ast.DeferStmt)
	if !ok {
		return false
	}
	fl, ok := d.Call.Fun.(*ast.FuncLit)
	if !ok {
		return false
	}
	found := false
	ast.Inspect(fl.Body, func(n ast.Node) bool {
		if c, ok := n.(*ast.CallExpr); ok {
			if id, ok := c.Fun.(*ast.Ident); ok && id.Name == "recover" && len(c.Args) == 0 {
				found = true
			}
		}
		return true
	})
	return found
}

// c07RecoverIndex returns the index of the top-level statement that installs the recover
// (a `defer func(){... recover() ...}()` or an `if !...PassThroughPanics { defer ... }` around one), or -1.
func c07RecoverIndex(body *ast.BlockStmt) int {
	for i, st := range body.List {
		if c07IsRecoverDefer(st) {
			return i
		}
		if ifs, ok := st.(*ast.IfStmt); ok && ifs.Else == nil && ifs.Init == nil {
			var buf bytes.Buffer
			printer.Fprint(&buf, token.NewFileSet(), ifs.Cond)
			if strings.Contains(buf.String(), "PassThroughPanics") && len(ifs.Body.List) == 1 && c07IsRecoverDefer(ifs.Body.List[0]) {
				return i
			}
		}
	}
	return -1
}

func c07ExprString(e ast.Node) string {
	var buf bytes.Buffer
	printer.Fprint(&buf, token.NewFileSet(), e)
	return buf.String()
}

func c07EndsInReturn(b *ast.BlockStmt) bool {
	if len(b.List) == 0 {
		return false
	}
	_, ok := b.List[len(b.List)-1].(*ast.ReturnStmt)
	return ok
}

// c07GuardedLen: how many leading elements of slice variable `name` are known to exist after statement st
// (st is `if len(name) == 0 { ...; return }` -> 1, `if len(name) < k { ...; return }` -> k, `name, err := x.Peek(k)`
// followed by an err check is handled by the caller).
func c07GuardFromIf(st ast.Stmt, name string) int {
	ifs, ok := st.(*ast.IfStmt)
	if !ok || !c07EndsInReturn(ifs.Body) {
		return 0
	}
	be, ok := ifs.Cond.(*ast.BinaryExpr)
	if !ok {
		return 0
	}
	if c07ExprString(be.X) != "len("+name+")" {
		return 0
	}
	lit, ok := be.Y.(*ast.BasicLit)
	if !ok || lit.Kind != token.INT {
		return 0
	}
	k := 0
	fmt.Sscan(lit.Value, &k)
	switch be.Op {
	case token.EQL:
		if k == 0 {
			return 1
		}
	case token.LSS:
		return k
	case token.LEQ:
		return k + 1
	}
	return 0
}

func c07Shape(pkg string, fd *ast.FuncDecl, fset *token.FileSet) c07FnShape {
	name := pkg + "." + fd.Name.Name
	if fd.Recv != nil && len(fd.Recv.List) == 1 {
		name = pkg + "." + strings.TrimPrefix(c07ExprString(fd.Recv.List[0].Type), "*") + "." + fd.Name.Name
	}
	sh := c07FnShape{Name: name}
	ri := c07RecoverIndex(fd.Body)
	sh.Recover = ri >= 0
	// slice-typed parameters
	sliceParams := map[string]bool{}
	for _, f := range fd.Type.Params.List {
		if at, ok := f.Type.(*ast.ArrayType); ok && at.Len == nil {
			for _, n := range f.Names {
				sliceParams[n.Name] = true
			}
		}
	}
	// statements outside the recover scope: all of them if there is no recover, else those before it
	outside := fd.Body.List
	if ri >= 0 {
		outside = fd.Body.List[:ri]
	}
	known := map[string]int{} // slice variable -> number of leading elements known to exist
	pendingPeek := ""         // variable assigned from x.Peek(k), waiting for its `if err != nil { return }`
	pendingN := 0
	pos := func(n ast.Node) string {
		p := fset.Position(n.Pos())
		return fmt.Sprintf("%s:%d", strings.TrimPrefix(p.Filename, "/repo/"), p.Line)
	}
	for _, st := range outside {
		// guards established by this statement
		for v := range sliceParams {
			if g := c07GuardFromIf(st, v); g > known[v] {
				known[v] = g
			}
		}
		if pendingPeek != "" {
			if ifs, ok := st.(*ast.IfStmt); ok && c07ExprString(ifs.Cond) == "err != nil" && c07EndsInReturn(ifs.Body) {
				known[pendingPeek] = pendingN
			}
			pendingPeek = ""
		}
		if as, ok := st.(*ast.AssignStmt); ok && len(as.Lhs) == 2 && len(as.Rhs) == 1 {
			if call, ok := as.Rhs[0].(*ast.CallExpr); ok {
				if sel, ok := call.Fun.(*ast.SelectorExpr); ok && sel.Sel.Name == "Peek" && len(call.Args) == 1 {
					if lit, ok := call.Args[0].(*ast.BasicLit); ok {
						if id, ok := as.Lhs[0].(*ast.Ident); ok {
							pendingPeek = id.Name
							fmt.Sscan(lit.Value, &pendingN)
						}
					}
				}
			}
		}
		// partial operations in this statement (function literals are not entered: they run when called)
		ast.Inspect(st, func(n ast.Node) bool {
			switch x := n.(type) {
			case *ast.FuncLit:
				return false
			case *ast.IndexExpr:
				id, isId := x.X.(*ast.Ident)
				lit, isLit := x.Index.(*ast.BasicLit)
				if isId && isLit && lit.Kind == token.INT {
					k := 0
					fmt.Sscan(lit.Value, &k)
					if k < known[id.Name] {
						return true // guarded
					}
					if sliceParams[id.Name] {
						sh.Unguarded = append(sh.Unguarded, fmt.Sprintf("OpIndexParam %d", k))
						return true
					}
				}
				sh.Unguarded = append(sh.Unguarded, fmt.Sprintf("OpOther %q%%string", "index "+c07ExprString(x)+" at "+pos(x)))
			case *ast.SliceExpr:
				sh.Unguarded = append(sh.Unguarded, fmt.Sprintf("OpOther %q%%string", "slice "+c07ExprString(x)+" at "+pos(x)))
			case *ast.TypeAssertExpr:
				if x.Type != nil { // x.(T) outside a type switch
					sh.Unguarded = append(sh.Unguarded, fmt.Sprintf("OpOther %q%%string", "type assertion at "+pos(x)))
				}
			case *ast.CallExpr:
				if id, ok := x.Fun.(*ast.Ident); ok && id.Name == "panic" {
					sh.Unguarded = append(sh.Unguarded, fmt.Sprintf("OpOther %q%%string", "explicit panic at "+pos(x)))
				}
			case *ast.BinaryExpr:
				if x.Op == token.QUO || x.Op == token.REM {
					if _, ok := x.Y.(*ast.BasicLit); !ok {
						sh.Unguarded = append(sh.Unguarded, fmt.Sprintf("OpOther %q%%string", "division at "+pos(x)))
					}
				}
			case *ast.StarExpr:
				sh.Unguarded = append(sh.Unguarded, fmt.Sprintf("OpOther %q%%string", "pointer dereference at "+pos(x)))
			}
			return true
		})
	}
	// calls (whole body)
	seen := map[string]bool{}
	ast.Inspect(fd.Body, func(n ast.Node) bool {
		if c, ok := n.(*ast.CallExpr); ok {
			cn := ""
			switch f := c.Fun.(type) {
			case *ast.Ident:
				cn = f.Name
			case *ast.SelectorExpr:
				cn = "." + f.Sel.Name
			}
			if cn != "" && !seen[cn] {
				seen[cn] = true
				sh.Calls = append(sh.Calls, cn)
			}
		}
		return true
	})
	sort.Strings(sh.Calls)
	return sh
}

func c07Shapes() []c07FnShape {
	fset := token.NewFileSet()
	out := []c07FnShape{}
	for _, f := range c07ApiFiles {
		af, err := parser.ParseFile(fset, f.path, nil, 0)
		if err != nil {
			panic(err)
		}
		for _, d := range af.Decls {
			fd, ok := d.(*ast.FuncDecl)
			if !ok || fd.Body == nil || !fd.Name.IsExported() {
				continue
			}
			if fd.Recv != nil {
				rt := strings.TrimPrefix(c07ExprString(fd.Recv.List[0].Type), "*")
				if !ast.IsExported(rt) {
					continue
				}
			}
			out = append(out, c07Shape(f.pkg, fd, fset))
		}
	}
	sort.Slice(out, func(i, j int) bool { return out[i].Name < out[j].Name })
	return out
}

func genApiShape(dir string) {
	g := newGen("ApiShape.v")
	fmt.Fprintf(g, "From Coq Require Import String.\n\n")
	fmt.Fprintf(g, "(* Partial operations that the walk over the entry-point bodies found OUTSIDE any deferred recover().\n")
	fmt.Fprintf(g, "   OpIndexParam k : a []byte parameter is indexed at constant k with no dominating length check.\n")
	fmt.Fprintf(g, "   OpOther what   : any other index / slice / type assertion / explicit panic / division / dereference. *)\n")
	fmt.Fprintf(g, "Inductive partial_op :=\n| OpIndexParam (k : N)\n| OpOther (what : string).\n\n")
	fmt.Fprintf(g, "Record fn_shape := { fn_name : string; fn_recover : bool; fn_unguarded : list partial_op; fn_calls : list string }.\n\n")
	items := []string{}
	for _, sh := range c07Shapes() {
		calls := []string{}
		for _, c := range sh.Calls {
			calls = append(calls, fmt.Sprintf("%q%%string", c))
		}
		items = append(items, fmt.Sprintf("{| fn_name := %q%%string; fn_recover := %s;\n     fn_unguarded := %s;\n     fn_calls := %s |}",
			sh.Name, cBool(sh.Recover), cList(sh.Unguarded), cList(calls)))
	}
	g.def("api_fns", "list fn_shape", "["+strings.Join(items, ";\n   ")+"]")
	g.write(dir)
}

// ---------------------------------------------------------------------------
// Parent side: a pool of worker processes with a watchdog

type c07Res struct {
	Class  string // ok err panic hang killed (skipped / inconclusive are never failures)
	Detail string
}

type c07Pool struct {
	memCap  uint64
	timeout time.Duration
	workers int
}

type c07Child struct {
	cmd    *exec.Cmd
	stdin  io.WriteCloser
	lines  chan string
	stderr *bytes.Buffer
}

// c07Start starts a worker and waits for its "ready" line, so that process start-up is never
// charged to the first call.
func c07Start(memCap uint64) *c07Child {
	for attempt := 0; ; attempt++ {
		cmd := exec.Command(os.Args[0], "c07-worker", fmt.Sprint(memCap))
		stdin, _ := cmd.StdinPipe()
		stdout, _ := cmd.StdoutPipe()
		ch := &c07Child{cmd: cmd, stdin: stdin, lines: make(chan string, 4), stderr: &bytes.Buffer{}}
		cmd.Stderr = ch.stderr
		if err := cmd.Start(); err != nil {
			panic(err)
		}
		go func() {
			rd := bufio.NewReaderSize(stdout, 1<<20)
			for {
				line, err := rd.ReadString('\n')
				if err != nil {
					close(ch.lines)
					return
				}
				ch.lines <- strings.TrimRight(line, "\n")
			}
		}()
		select {
		case l, ok := <-ch.lines:
			if ok && l == "ready" {
				return ch
			}
		case <-time.After(60 * time.Second):
		}
		ch.stop()
		if attempt >= 3 {
			panic("c07: worker does not start: " + ch.stderr.String())
		}
	}
}

func (ch *c07Child) stop() {
	ch.stdin.Close()
	ch.cmd.Process.Kill()
	go func() {
		for range ch.lines {
		}
	}()
	ch.cmd.Wait()
}

// call sends one request with the worker-side watchdog set to `timeout`. The worker answers "hang" itself
// (with the state of the stuck goroutine); the parent's own timer (timeout + 10 s) is only a backstop for a
// worker that cannot even answer. On death / backstop the child is discarded (alive=false).
func (ch *c07Child) call(req c07Req, timeout time.Duration) (res c07Res, alive bool) {
	stackMB := 64
	if req.Slow {
		stackMB = 8
	}
	if _, err := io.WriteString(ch.stdin, fmt.Sprintf("%d\t%d\t%s", timeout.Milliseconds(), stackMB, req.line())); err != nil {
		ch.stop()
		return c07Res{Class: "killed", Detail: "worker not accepting input: " + firstLine(ch.stderr.String())}, false
	}
	timer := time.NewTimer(timeout + 10*time.Second)
	defer timer.Stop()
	select {
	case line, ok := <-ch.lines:
		if !ok {
			werr := ch.cmd.Wait()
			return c07Res{Class: "killed", Detail: fmt.Sprintf("%v: %s", werr, c07FatalLine(ch.stderr.String()))}, false
		}
		parts := strings.SplitN(line, "\t", 2)
		if len(parts) != 2 {
			parts = append(parts, "")
		}
		r := c07Res{Class: parts[0], Detail: parts[1]}
		if r.Class == "hang" && !c07IsDeadlock(r.Detail) {
			ch.stop() // the worker exits after such an answer
			return r, false
		}
		return r, true
	case <-timer.C:
		ch.stop()
		return c07Res{Class: "hang", Detail: fmt.Sprintf("no answer from the worker within %v", timeout+10*time.Second)}, false
	}
}

// a hang the worker proved to be a deadlock (the worker survives it); any other hang makes the worker exit
func c07IsDeadlock(detail string) bool { return strings.Contains(detail, "deadlock: ") }

// the line of a crashed worker's stderr that names the fatal error
func c07FatalLine(s string) string {
	for _, l := range strings.Split(s, "\n") {
		if strings.HasPrefix(l, "fatal error:") || strings.HasPrefix(l, "runtime: out of memory") || strings.HasPrefix(l, "runtime: goroutine stack exceeds") {
			if len(l) > 200 {
				l = l[:200]
			}
			return l
		}
	}
	return firstLine(s)
}

func firstLine(s string) string {
	if i := strings.IndexByte(s, '\n'); i >= 0 {
		s = s[:i]
	}
	if len(s) > 200 {
		s = s[:200]
	}
	return s
}

// one request with confirmation: a "hang" that is not a proven deadlock (the call was still running when the
// watchdog fired) is re-run alone in a fresh child with three times the time-out; only if it is still running
// then is it reported as a hang.
func (p *c07Pool) one(ch **c07Child, req c07Req) c07Res {
	if *ch == nil {
		*ch = c07Start(p.memCap)
	}
	t := p.timeout
	t0 := time.Now()
	r, alive := (*ch).call(req, t)
	if d := time.Since(t0); d > time.Second && os.Getenv("C07_DEBUG") != "" {
		fmt.Fprintf(os.Stderr, "slow %v %s -> %s %s\n", d, c07ShortS(strings.TrimSpace(req.line())), r.Class, r.Detail)
	}
	if !alive {
		*ch = nil
	}
	if r.Class == "hang" && !c07IsDeadlock(r.Detail) {
		c2 := c07Start(p.memCap)
		r2, alive2 := c2.call(req, 3*t)
		if alive2 {
			c2.stop()
		}
		if r2.Class == "hang" {
			r2.Detail = "confirmed: " + r2.Detail
		}
		return r2
	}
	return r
}

// run executes all requests (results in request order). skip(i) is asked just before request i is handed to a
// worker; a skipped request gets Class "skipped".
func (p *c07Pool) run(reqs []c07Req, skip func(i int) bool, done func(i int, r c07Res)) []c07Res {
	res := make([]c07Res, len(reqs))
	var mu sync.Mutex
	next := 0
	var wg sync.WaitGroup
	for w := 0; w < p.workers; w++ {
		wg.Add(1)
		go func() {
			defer wg.Done()
			var ch *c07Child
			defer func() {
				if ch != nil {
					ch.stop()
				}
			}()
			for {
				mu.Lock()
				i := next
				next++
				sk := false
				if i < len(reqs) && skip != nil {
					sk = skip(i)
				}
				mu.Unlock()
				if i >= len(reqs) {
					return
				}
				if sk {
					res[i] = c07Res{Class: "skipped"}
					continue
				}
				res[i] = p.one(&ch, reqs[i])
				if done != nil {
					mu.Lock()
					done(i, res[i])
					mu.Unlock()
				}
			}
		}()
	}
	wg.Wait()
	return res
}

// ---------------------------------------------------------------------------
// Inputs

type c07Item struct {
	Req   c07Req
	Class string    // input class (how the document / value was made)
	Trace int       // index into the trace requests (-1: none)
	Spec  int       // index of the companion format-specific decode item (-1: none)
	Seq   []c07Step // call sequence on one object (nil: a plain request); Req.Tmpl then holds its spec
	Model bool      // sequence: also compared with the Coq model (a sample of the exhaustive pairs, all of the rest)
}

// ---------------------------------------------------------------------------
// Description of the types and values of a marshal sequence for CE.Model.Entry (tyenv / vshape): follows
// iterator/session.go getDefaultIteratorForType (which kinds get an iterator, which types an iterator looks up while
// it is generated) and iterator/iterators.go (which of them a value makes it call).

type c07TyEnv struct {
	ids  map[reflect.Type]int
	kind []byte           // s scalar, b unsupported kind, i interface, c composite
	kids [][]reflect.Type // composite: the types looked up while the iterator is generated, in order
	ok   bool             // false: something the description does not cover
}

func newC07TyEnv() *c07TyEnv { return &c07TyEnv{ids: map[reflect.Type]int{}, ok: true} }

func c07PrimitiveElem(k reflect.Kind) bool {
	switch k {
	case reflect.Uint8, reflect.Uint16, reflect.Uint32, reflect.Uint64, reflect.Uint, reflect.Int8, reflect.Int16, reflect.Int32,
		reflect.Int64, reflect.Int, reflect.Float32, reflect.Float64, reflect.Bool:
		return true
	}
	return false
}

func (env *c07TyEnv) id(t reflect.Type) int {
	if i, ok := env.ids[t]; ok {
		return i
	}
	i := len(env.kind)
	env.ids[t] = i
	env.kind = append(env.kind, 's')
	env.kids = append(env.kids, nil)
	set := func(k byte, kids ...reflect.Type) {
		env.kind[i] = k
		env.kids[i] = kids
		for _, kt := range kids {
			env.id(kt)
		}
	}
	switch t.Kind() {
	case reflect.Bool, reflect.String, reflect.Int, reflect.Int8, reflect.Int16, reflect.Int32, reflect.Int64,
		reflect.Uint, reflect.Uint8, reflect.Uint16, reflect.Uint32, reflect.Uint64, reflect.Float32, reflect.Float64:
		set('s')
	case reflect.Interface:
		set('i')
	case reflect.Array, reflect.Slice:
		if c07PrimitiveElem(t.Elem().Kind()) {
			set('s')
		} else {
			set('c', t.Elem())
		}
	case reflect.Map:
		set('c', t.Key(), t.Elem())
	case reflect.Ptr:
		if t.Elem().Kind() == reflect.Struct && t.Elem().PkgPath() != "main" && t.Elem().PkgPath() != "" {
			env.ok = false // *url.URL, *big.Int ...: own iterators
		}
		set('c', t.Elem())
	case reflect.Struct:
		if t.PkgPath() != "main" && t.PkgPath() != "" {
			env.ok = false // time.Time, types.Node ...: own iterators
			set('s')
			break
		}
		kids := []reflect.Type{}
		for f := 0; f < t.NumField(); f++ {
			fd := t.Field(f)
			if fd.Anonymous || fd.Tag != "" {
				env.ok = false
			}
			if fd.PkgPath == "" { // exported
				kids = append(kids, fd.Type)
			}
		}
		set('c', kids...)
	default: // chan, func, complex, unsafe.Pointer, uintptr: "BUG: Unhandled type"
		set('b')
	}
	return i
}

func (env *c07TyEnv) term() string {
	out := make([]string, len(env.kind))
	byID := make([]reflect.Type, len(env.kind))
	for t, i := range env.ids {
		byID[i] = t
	}
	for i, k := range env.kind {
		switch k {
		case 's':
			out[i] = "TScalar"
		case 'b':
			out[i] = "TBad"
		case 'i':
			out[i] = "TIface"
		default:
			ks := []string{}
			for _, kt := range env.kids[i] {
				ks = append(ks, fmt.Sprintf("%d%%nat", env.ids[kt]))
			}
			out[i] = "TComp " + cList(ks)
		}
	}
	return cList(out)
}

func c07IsEmptyValue(v reflect.Value) bool { // iterator/iterators.go isValueEmpty (fields are omitted when empty by default)
	switch v.Kind() {
	case reflect.Interface, reflect.Ptr:
		return v.IsNil()
	case reflect.Map, reflect.Slice:
		return v.IsNil() || v.Len() == 0
	case reflect.Array, reflect.String:
		return v.Len() == 0
	}
	return false
}

// shape of a value as the iterators walk it
func (env *c07TyEnv) shape(v reflect.Value) string { return env.shapeAt(v, 1) }

// depth = number of iterator calls on the path to this value; the model evaluates with fuel typed_case_fuel = 64
func (env *c07TyEnv) shapeAt(v reflect.Value, depth int) string {
	if depth > 60 {
		env.ok = false
		return "VLeaf"
	}
	i := env.id(v.Type())
	kid := func(n int, x reflect.Value) string { return fmt.Sprintf("(%d%%nat, %s)", n, env.shapeAt(x, depth+1)) }
	switch env.kind[i] {
	case 'i':
		if v.IsNil() {
			return "VLeaf"
		}
		return fmt.Sprintf("(VDyn %d%%nat %s)", env.id(v.Elem().Type()), env.shapeAt(v.Elem(), depth+1))
	case 'c':
		ks := []string{}
		switch v.Kind() {
		case reflect.Ptr:
			if v.IsNil() {
				return "VLeaf"
			}
			ks = append(ks, kid(0, v.Elem()))
		case reflect.Slice, reflect.Array:
			if v.Kind() == reflect.Slice && v.IsNil() {
				return "VLeaf"
			}
			for j := 0; j < v.Len(); j++ {
				ks = append(ks, kid(0, v.Index(j)))
			}
		case reflect.Map:
			if v.IsNil() {
				return "VLeaf"
			}
			if v.Len() > 1 {
				env.ok = false // iteration order
			}
			it := v.MapRange()
			for it.Next() {
				ks = append(ks, kid(0, it.Key()), kid(1, it.Value()))
			}
		case reflect.Struct:
			n := 0
			for f := 0; f < v.NumField(); f++ {
				if v.Type().Field(f).PkgPath != "" {
					continue
				}
				if !c07IsEmptyValue(v.Field(f)) {
					ks = append(ks, kid(n, v.Field(f)))
				}
				n++
			}
		}
		return "(VNode " + cList(ks) + ")"
	}
	return "VLeaf"
}

// c07DescribeMarshalSeq: the (tyenv, calls) arguments of a TypedMarshalCase, or ok=false when a value is outside
// what the description covers.
func c07DescribeMarshalSeq(steps []c07Step) (envTerm, callsTerm string, ok bool) {
	env := newC07TyEnv()
	calls := []string{}
	for _, st := range steps {
		val, found := c07Value(st.Tmpl, len(st.Doc)*200)
		if !found || val == nil {
			return "", "", false
		}
		rv := reflect.ValueOf(val)
		calls = append(calls, fmt.Sprintf("(%d%%nat, %s)", env.id(rv.Type()), env.shape(rv)))
	}
	if !env.ok || len(env.kind) > 60 {
		return "", "", false
	}
	return env.term(), cList(calls), true
}

// per-step classes out of a sequence answer ("steps=err,err,ok; ...")
func c07StepClasses(detail string) []string {
	if !strings.HasPrefix(detail, "steps=") {
		return nil
	}
	i := strings.IndexByte(detail, ';')
	if i < 0 {
		return nil
	}
	return strings.Split(detail[len("steps="):i], ",")
}

// document spec for replay files: "hex:<hex>" or "rep:<prefix hex>:<unit hex>:<count>:<suffix hex>"
func c07DocSpec(prefix, unit []byte, n int, suffix []byte) string {
	return fmt.Sprintf("rep:%x:%x:%d:%x", prefix, unit, n, suffix)
}

func c07DocFromSpec(s string) ([]byte, error) {
	if strings.HasPrefix(s, "hex:") {
		return hex.DecodeString(s[4:])
	}
	if strings.HasPrefix(s, "rep:") {
		p := strings.Split(s[4:], ":")
		if len(p) != 4 {
			return nil, fmt.Errorf("bad doc spec")
		}
		pre, e1 := hex.DecodeString(p[0])
		unit, e2 := hex.DecodeString(p[1])
		n := 0
		_, e3 := fmt.Sscan(p[2], &n)
		suf, e4 := hex.DecodeString(p[3])
		if e1 != nil || e2 != nil || e3 != nil || e4 != nil || n < 0 || n > 10000000 {
			return nil, fmt.Errorf("bad doc spec")
		}
		out := append([]byte{}, pre...)
		out = append(out, bytes.Repeat(unit, n)...)
		return append(out, suf...), nil
	}
	return nil, fmt.Errorf("bad doc spec")
}

type c07Doc struct {
	B     []byte
	Class string
	Spec  string // replay spec ("" = hex)
}

func c07Encode(format string, es []Ev) ([]byte, bool) {
	var buf bytes.Buffer
	var enc ce.Encoder
	if format == "cte" {
		enc = ce.NewCTEEncoder(configuration.New())
	} else {
		enc = ce.NewCBEEncoder(configuration.New())
	}
	enc.PrepareToEncode(&buf)
	at, _ := playAll(enc, es)
	return append([]byte{}, buf.Bytes()...), at < 0
}

func c07Uleb(v uint64) []byte { return uleb(v) }

// documents announcing huge lengths in every CBE length field
func c07HugeLengthDocs() []c07Doc {
	out := []c07Doc{}
	// Either small enough to be allocated at once or far beyond the address-space cap: lengths in between make the
	// reader allocate (and the kernel fault in) gigabytes, which is slow but is not a hang.
	lens := []uint64{1 << 16, 1 << 20, 1 << 37, 1 << 40, 1 << 47, 1 << 55, 1<<62 - 1, 1 << 62, 1<<63 - 1}
	add := func(name string, head []byte, v uint64, chunk bool) {
		f := v
		if chunk {
			f = v << 1 // chunk header = count<<1 | more
		}
		d := append([]byte{0x81, 0}, head...)
		d = append(d, c07Uleb(f)...)
		d = append(d, 'a', 'b')
		out = append(out, c07Doc{B: d, Class: "huge-length/" + name})
	}
	for _, v := range lens {
		add("string-chunk", []byte{0x90}, v, true)
		add("rid-chunk", []byte{0x91}, v, true)
		add("custom-chunk", []byte{0x92, 1}, v, true)
		add("u8-array-chunk", []byte{0x93}, v, true)
		add("bit-array-chunk", []byte{0x94}, v, true)
		add("u16-array-chunk", []byte{0x7f, 0xe2}, v, true)
		add("f64-array-chunk", []byte{0x7f, 0xea}, v, true)
		add("uid-array-chunk", []byte{0x7f, 0xe0}, v, true)
		add("remote-ref-chunk", []byte{0x7f, 0xf2}, v, true)
		add("media-type-length", []byte{0x7f, 0xf3}, v, false)
		add("media-chunk", []byte{0x7f, 0xf3, 1, 'a'}, v, true)
		add("int-length", []byte{0x66}, v, false)
		add("negint-length", []byte{0x67}, v, false)
		add("record-id-length", []byte{0x96}, v, false)
		add("reference-id-length", []byte{0x77}, v, false)
		add("marker-id-length", []byte{0x7f, 0xf0}, v, false)
		add("record-type-id-length", []byte{0x7f, 0xf1}, v, false)
		add("custom-type-code", []byte{0x92}, v, false)
		add("second-chunk", []byte{0x90, 0x03, 'x'}, v, true) // first chunk: 1 byte, more follow
	}
	// all-ones ULEB128 of growing width (version, chunk header)
	for w := 1; w <= 12; w++ {
		if w == 4 {
			continue // 2^29: see above
		}
		u := bytes.Repeat([]byte{0xff}, w)
		u = append(u, 0x01)
		out = append(out, c07Doc{B: append(append([]byte{0x81}, u...), 1), Class: "huge-length/version-uleb"})
		out = append(out, c07Doc{B: append(append([]byte{0x81, 0, 0x90}, u...), 'a'), Class: "huge-length/string-chunk-uleb"})
	}
	return out
}

// n levels for CBE (the decoder is a loop), m levels for CTE (the generated parser needs time quadratic in the depth)
func c07NestedDocs(nCBE, nCTE int) []c07Doc {
	out := []c07Doc{}
	n := nCBE
	add := func(name string, pre, unit, suf []byte) {
		d := append(append([]byte{}, pre...), bytes.Repeat(unit, n)...)
		d = append(d, suf...)
		out = append(out, c07Doc{B: d, Class: "nested/" + name, Spec: c07DocSpec(pre, unit, n, suf)})
	}
	h := []byte{0x81, 0}
	add("cbe-list", h, []byte{0x9a}, nil)
	add("cbe-list-closed", h, []byte{0x9a}, bytes.Repeat([]byte{0x9b}, n))
	add("cbe-map", h, []byte{0x99, 0x81, 'a'}, nil)
	add("cbe-node", h, []byte{0x98, 1}, nil)
	add("cbe-edge", h, []byte{0x97}, nil)
	add("cbe-marker", h, []byte{0x7f, 0xf0, 1, 'a'}, nil)
	add("cbe-end", h, []byte{0x9b}, nil)
	t := []byte("c0 ")
	n = nCTE
	add("cte-list", t, []byte("["), nil)
	add("cte-list-closed", t, []byte("["), bytes.Repeat([]byte("]"), n))
	add("cte-map", t, []byte("{1="), nil)
	add("cte-node", t, []byte("(1 "), nil)
	add("cte-edge", t, []byte("@("), nil)
	add("cte-comment", t, []byte("/*"), nil)
	add("cte-end", t, []byte("]"), nil)
	return out
}

// random documents over the CBE fragment of CE.Model.Entry (frag_next)
func c07FragDoc(c *Ctx) []byte {
	d := []byte{0x81, byte(c.Rng.Intn(2))}
	switch c.Rng.Intn(30) {
	case 0:
		d = []byte{}
	case 1:
		d = []byte{0x81}
	case 2:
		d[0] = byte(c.Rng.Intn(256))
	case 3:
		d[1] = byte(c.Rng.Intn(128))
	}
	if len(d) < 2 {
		return d
	}
	n := c.Rng.Intn(14)
	fixed := []struct {
		code byte
		n    int
	}{{0x68, 1}, {0x69, 1}, {0x6a, 2}, {0x6b, 2}, {0x70, 2}, {0x6c, 4}, {0x6d, 4}, {0x71, 4}, {0x6e, 8}, {0x6f, 8}, {0x72, 8}, {0x65, 16}}
	for i := 0; i < n; i++ {
		switch r := c.Rng.Intn(100); {
		case r < 22:
			d = append(d, byte(c.Rng.Intn(101))) // small int
		case r < 26:
			d = append(d, byte(0x9c+c.Rng.Intn(100)))
		case r < 32:
			d = append(d, []byte{0x78, 0x79, 0x7d}[c.Rng.Intn(3)])
		case r < 36:
			d = append(d, 0x95)
		case r < 48:
			d = append(d, 0x9a)
		case r < 58:
			d = append(d, 0x99)
		case r < 68:
			d = append(d, 0x97)
		case r < 76:
			d = append(d, 0x98)
		case r < 90:
			d = append(d, 0x9b)
		case r < 93:
			d = append(d, []byte{0x73, 0x74, 0x75, 0x7e}[c.Rng.Intn(4)])
		case r < 97:
			f := fixed[c.Rng.Intn(len(fixed))]
			d = append(d, f.code)
			k := f.n
			if c.Rng.Intn(3) == 0 {
				k = c.Rng.Intn(f.n + 1) // possibly truncated: then the document ends here (the payload must not swallow later codes)
			}
			for j := 0; j < k; j++ {
				d = append(d, byte(c.Rng.Intn(256)))
			}
			if k < f.n {
				return d
			}
		default:
			l := c.Rng.Intn(16)
			d = append(d, byte(0x80+l))
			k := l
			if c.Rng.Intn(3) == 0 {
				k = c.Rng.Intn(l + 1)
			}
			for j := 0; j < k; j++ {
				d = append(d, byte('a'+c.Rng.Intn(26)))
			}
			if k < l {
				return d
			}
		}
	}
	return d
}

// is the document inside the fragment as far as the harness can tell cheaply (the model decides finally)?
// Only the byte alphabet is checked here; the model returns None for the rest and such a case would count as a mismatch,
// so the generator above must stay inside the fragment.

func c07Mutate(c *Ctx, d []byte) []byte {
	out := append([]byte{}, d...)
	special := []byte{0x97, 0x98, 0x99, 0x9a, 0x9b, 0x7f, 0x90, 0x93, 0x96, 0x77, 0xf0, 0xf3, 0x66, 0xff, 0x00, 0x80, 0x73, '(', ')', '[', ']', '{', '}', '@', '|', '"', '&', '$', '=', ' ', '\n', '/', '*', '\\'}
	n := 1 + c.Rng.Intn(3)
	for i := 0; i < n; i++ {
		if len(out) == 0 {
			out = append(out, byte(c.Rng.Intn(256)))
			continue
		}
		p := c.Rng.Intn(len(out))
		switch c.Rng.Intn(7) {
		case 0:
			out[p] ^= 1 << uint(c.Rng.Intn(8))
		case 1:
			out[p] = byte(c.Rng.Intn(256))
		case 2:
			out[p] = special[c.Rng.Intn(len(special))]
		case 3:
			out = append(out[:p], out[p+1:]...)
		case 4:
			out = append(out[:p+1], out[p:]...)
			out[p] = special[c.Rng.Intn(len(special))]
		case 5:
			out = out[:p]
		case 6:
			q := c.Rng.Intn(len(out))
			if q > p {
				out = append(out, out[p:q]...)
			}
		}
	}
	return out
}

// c07Stack mirrors the builder-stack model (CE.Model.Entry) — used ONLY to choose failure keys and to spend the
// hang budget, never as an oracle. Returns what ArtificiallyTerminate would spin on: "edge", "node", "" (terminates),
// or "unmodelled" (markers, references, records, containers as map keys).
func c07Spin(letters string) string {
	type fr struct {
		k byte // T S M E N
		n int  // edge: components; map: 1 = key next; node: 1 = building children
	}
	st := []fr{{k: 'T'}}
	var deliver func()
	deliver = func() {
		t := &st[len(st)-1]
		switch t.k {
		case 'M':
			t.n ^= 1
		case 'E':
			if t.n >= 2 {
				st = st[:len(st)-1]
				deliver()
			} else {
				t.n++
			}
		case 'N':
			if t.n == 0 {
				t.n = 1
				st = append(st, fr{k: 'S'})
			} else {
				st = st[:len(st)-1]
				deliver()
			}
		}
	}
	for i := 0; i < len(letters); i++ {
		top := st[len(st)-1]
		keyPos := top.k == 'M' && top.n == 1
		switch letters[i] {
		case 'V':
			deliver()
		case 'L', 'M', 'E', 'N':
			if keyPos {
				return "unmodelled"
			}
			m := map[byte]fr{'L': {k: 'S'}, 'M': {k: 'M', n: 1}, 'E': {k: 'E'}, 'N': {k: 'N'}}
			st = append(st, m[letters[i]])
		case 'e':
			if top.k != 'S' && top.k != 'M' {
				return "unmodelled"
			}
			st = st[:len(st)-1]
			deliver()
		default:
			return "unmodelled"
		}
	}
	for len(st) > 1 {
		top := st[len(st)-1]
		switch top.k {
		case 'S', 'M':
			st = st[:len(st)-1]
			deliver()
		case 'E':
			return "edge"
		case 'N':
			return "node"
		default:
			return "unmodelled"
		}
	}
	return ""
}

var c07UnsupportedSet = func() map[string]bool {
	m := map[string]bool{}
	for _, n := range c07UnsupportedNames {
		m[n] = true
	}
	return m
}()

func c07Cls(class string) string {
	switch class {
	case "ok":
		return "COk"
	case "err":
		return "CErr"
	case "panic":
		return "CPanic"
	case "hang":
		return "CHang"
	case "killed":
		return "CKilled"
	}
	return ""
}

func c07IsOOM(r c07Res) bool {
	d := strings.ToLower(r.Detail)
	return strings.Contains(d, "out of memory") || strings.Contains(d, "cannot allocate") || strings.Contains(d, "mmap") || strings.Contains(d, "failed to allocate")
}

// failure key: outcome / entry family / cause
func c07Key(it c07Item, r c07Res, letters string, fails bool) string {
	e := c07EntryByName(it.Req.Entry)
	outcome := "noreturn" // hang, or the runtime ended the process (deadlock detector, stack exhaustion)
	cause := "other"
	switch {
	case r.Class == "panic":
		outcome = "panic"
		if len(it.Req.Doc) == 0 && e.Kind != "marshal" {
			cause = "empty-input"
		}
	case r.Class == "killed" && c07IsOOM(r):
		outcome = "killed-oom" // the only allocations sized by the input are the reader's buffers for announced lengths
		cause = "announced-length"
	default:
		switch {
		case (e.Kind == "marshal" || e.Kind == "unmarshal") && c07UnsupportedSet[it.Req.Tmpl] && it.Req.Repeat > 1:
			cause = "reuse-after-unsupported-type"
		case e.Kind == "marshal" && strings.HasPrefix(it.Req.Tmpl, "v:cyclic"):
			cause = "cyclic-value"
		case e.Kind == "unmarshal" && it.Trace >= 0:
			sp := c07Spin(letters)
			switch {
			case sp == "edge":
				cause = "error-inside-edge"
			case sp == "node":
				cause = "error-at-node-value"
			case sp == "unmodelled" && strings.ContainsAny(letters, "K"):
				cause = "error-after-marker"
			case sp == "unmodelled":
				cause = "error-in-unmodelled-structure"
			}
			if it.Req.Tmpl != "nil" {
				cause = "typed-template/" + cause
			}
		}
	}
	if it.Seq != nil { // call sequence on one object: the cause is the kind of history, "seq/<history>" -> "reused-object/<history>"
		cause = "reused-object/" + strings.TrimPrefix(it.Class, "seq/")
	}
	return fmt.Sprintf("C07/%s/%s/%s", outcome, e.Family, cause)
}

func c07ReplayOf(it c07Item, docSpec string) map[string]string {
	ru := "off"
	if it.Req.Rules {
		ru = "on"
	}
	rep := it.Req.Repeat
	if rep < 1 {
		rep = 1
	}
	if docSpec == "" {
		docSpec = "hex:" + hex.EncodeToString(it.Req.Doc)
	}
	m := map[string]string{"entry": it.Req.Entry, "rules": ru, "template_or_value": it.Req.Tmpl, "repeat": fmt.Sprint(rep), "doc": docSpec, "input_class": it.Class}
	if it.Seq != nil {
		m["sequence"] = "calls on ONE object, in order, each `template or value name`@`hex document`: " + strings.TrimPrefix(it.Req.Tmpl, "seq:")
	}
	return m
}

func runC07(c *Ctx) {
	c.Rep.Rule = "every public decode / unmarshal / marshal entry point of package ce (one-shot functions and Marshaler/Unmarshaler/Decoder methods, reader and byte-slice variants) is called in child processes (4 GiB address-space cap, watchdog) on: empty and header-only documents, random bytes, valid CBE/CTE documents (generated) mutated / truncated at every position, deeply nested containers, huge announced lengths in every CBE length field, random documents over a CBE fragment, with the validator on and off, typed templates of every kind incl. unsupported ones, and values to marshal incl. unsupported kinds, cyclic values and repeated use of one object; and on SEQUENCES of 2-3 different calls on one reused Marshaler / Unmarshaler / Decoder / Encoder (every call under its own watchdog) whose earlier calls fail: unsupported kinds alone and inside self-referential type graphs (every ordered pair of 8 views of 14 root types, as values and as templates), documents truncated at every position and invalid documents, values whose iteration fails in mid-document; marshal sequences are compared call by call with the iterator-session model over the type graph; a call is non-trivial unless it is a random document whose first byte no format recognises; distinct = distinct (entry, validator, template/value, repeat, document)"
	pool := &c07Pool{memCap: 4 << 30, timeout: time.Duration(c.Pick(3, 5)) * time.Second, workers: 12}
	cf := c.Cases("entry", "CE.Model.Entry", "entry_case", "entry_case_ok")

	unmarshalEntries, decodeEntries, marshalEntries := []c07Entry{}, []c07Entry{}, []c07Entry{}
	for _, e := range c07Entries {
		switch e.Kind {
		case "unmarshal":
			unmarshalEntries = append(unmarshalEntries, e)
		case "decode":
			decodeEntries = append(decodeEntries, e)
		default:
			marshalEntries = append(marshalEntries, e)
		}
	}
	docEntries := append(append([]c07Entry{}, unmarshalEntries...), decodeEntries...)

	items := []c07Item{}
	specOf := map[string]string{} // item key -> replay doc spec
	add := func(e c07Entry, rules bool, tmpl string, rep int, d c07Doc) {
		it := c07Item{Req: c07Req{Entry: e.Name, Rules: rules, Tmpl: tmpl, Repeat: rep, Doc: d.B}, Class: d.Class, Trace: -1, Spec: -1}
		items = append(items, it)
		if d.Spec != "" {
			specOf[it.Req.line()] = d.Spec
		}
	}
	pickEntry := func(list []c07Entry) c07Entry { return list[c.Rng.Intn(len(list))] }
	pickTmpl := func() string {
		if c.Rng.Intn(10) < 6 {
			return "nil"
		}
		return c07TemplateNames[c.Rng.Intn(len(c07TemplateNames))]
	}
	// entries able to make sense of a document of this format
	entriesFor := func(format string, list []c07Entry) []c07Entry {
		out := []c07Entry{}
		for _, e := range list {
			if e.Fmt == format || e.Fmt == "ce" {
				out = append(out, e)
			}
		}
		return out
	}

	// A. empty and header-only documents: every document entry point, validator on and off
	// (pinned: before commit 753581c UniversalDecoder.DecodeDocument indexed document[0] of an empty document and panicked)
	for _, h := range []string{"", "81", "8100", "8101", "63", "6330", "633020", "43300a", "633120", "00", "ff", "8180", "81ff"} {
		b, _ := hex.DecodeString(h)
		cl := "header-only"
		if len(b) == 0 {
			cl = "empty"
		}
		for _, e := range docEntries {
			for _, ru := range []bool{true, false} {
				add(e, ru, "nil", 1, c07Doc{B: b, Class: cl})
			}
		}
	}

	// A2. pinned regression documents: a decode error while an edge / a node waiting for its value / a marker is on
	// top of the builder stack made ArtificiallyTerminate spin forever before commit 5799b55
	for _, h := range []string{"810097", "81009701", "8100970102", "810097010203", "81009a97", "81009a970102", "810098", "81009897", "8100999a97", "81007ff00161", "81009a7ff00161",
		"81009773", "8100976a01", "81009873", "81009a9773"} {
		b, _ := hex.DecodeString(h)
		for _, e := range entriesFor("cbe", unmarshalEntries) {
			for _, ru := range []bool{true, false} {
				add(e, ru, "nil", 1, c07Doc{B: b, Class: "pinned"})
			}
		}
	}
	for _, t := range []string{"c0 @(", "c0 @(1", "c0 @(1 2", "c0 (", "c0 [@(", "c0 [(", "c0 {1=@(", "c0 &a:", "c0 [&a:", "c0 @(1 2 3", "c0 @(]", "c0 (]", "c0 [@(1 }"} {
		for _, e := range entriesFor("cte", unmarshalEntries) {
			for _, ru := range []bool{true, false} {
				add(e, ru, "nil", 1, c07Doc{B: []byte(t), Class: "pinned"})
			}
		}
	}
	for _, tm := range []string{"edge", "node", "struct", "[]interface", "nested"} {
		for _, e := range []string{"UnmarshalFromCBEDocument", "CBEUnmarshaler_Unmarshal"} {
			for _, h := range []string{"810097", "81009701", "810098", "81009981419a", "8100998158", "81009981589a01"} {
				b, _ := hex.DecodeString(h)
				add(*c07EntryByName(e), true, tm, 1, c07Doc{B: b, Class: "pinned"})
			}
		}
		for _, e := range []string{"UnmarshalFromCTEDocument", "CTEUnmarshaler_Unmarshal"} {
			for _, t := range []string{"c0 @(", "c0 (", "c0 {\"X\"=[", "c0 {\"X\"=@(", "c0 {\"A\"=@("} {
				add(*c07EntryByName(e), true, tm, 1, c07Doc{B: []byte(t), Class: "pinned"})
			}
		}
	}

	// A3. pinned: announced lengths that no process can satisfy (validator off: a string chunk of 2^40 bytes; validator on:
	// a media type of 2^32-1 bytes, read before any event reaches the validator)
	for _, e := range entriesFor("cbe", docEntries) {
		if e.Method != e.Reader { // a sample: half of the entry points
			continue
		}
		add(e, false, "nil", 1, c07Doc{B: append([]byte{0x81, 0, 0x90}, append(c07Uleb(1<<41), 'a', 'b')...), Class: "huge-length/pinned-string-chunk"})
		add(e, true, "nil", 1, c07Doc{B: append([]byte{0x81, 0, 0x7f, 0xf3}, append(c07Uleb(1<<32-1), 'a', 'b')...), Class: "huge-length/pinned-media-type-length"})
	}

	// valid documents (generated event streams, encoded by the library's own encoders)
	type valid struct {
		format string
		b      []byte
	}
	valids := []valid{}
	gen := NewEvGen(c.Rng, DefaultGenOpts())
	small := DefaultGenOpts()
	small.MaxDepth, small.MaxFan = 3, 3
	genSmall := NewEvGen(c.Rng, small)
	for i := 0; i < c.Pick(40, 600); i++ {
		g := gen
		if i%2 == 0 {
			g = genSmall
		}
		es := g.Document()
		for _, f := range []string{"cbe", "cte"} {
			if b, ok := c07Encode(f, es); ok && len(b) < 4000 {
				valids = append(valids, valid{f, b})
			}
		}
	}
	// hand-written valid documents that exercise edges, nodes and markers
	for _, s := range []string{"810097010203", "81009a9701029a039b9b", "8100980102039b", "81009881619a019b9b", "81009981619701029881629b", "81007ff001619a7701619b",
		"8100999a", "81009a9a9b999b9b"} {
		b, _ := hex.DecodeString(s)
		valids = append(valids, valid{"cbe", b})
	}
	for _, s := range []string{"c0 @(1 2 3)", "c0 [@(1 2 [3]) 4]", "c0 (1 2 3)", "c0 (\"a\" [1] (2))", "c0 {\"a\"=@(1 2 (3 \"b\"))}", "c0 [&a:[1] $a]", "c0 {1=[2 {3=4}]}", "c0 [1 2 /* c */ \"x\" |u8x 01 02|]"} {
		valids = append(valids, valid{"cte", []byte(s)})
	}
	for i, v := range valids {
		e := pickEntry(entriesFor(v.format, docEntries))
		add(e, i%4 != 0, pickTmpl(), 1, c07Doc{B: v.b, Class: "valid"})
	}

	// B. random bytes
	for i := 0; i < c.Pick(150, 4000); i++ {
		n := c.Rng.Intn(40)
		b := make([]byte, n)
		c.Rng.Read(b)
		if n > 0 && c.Rng.Intn(10) < 7 {
			b[0] = []byte{0x81, 'c', 'C'}[c.Rng.Intn(3)]
			if n > 1 && c.Rng.Intn(10) < 8 {
				if b[0] == 0x81 {
					b[1] = byte(c.Rng.Intn(2))
				} else {
					b[1] = byte('0' + c.Rng.Intn(2))
					if n > 2 {
						b[2] = ' '
					}
				}
			}
		}
		add(pickEntry(docEntries), c.Rng.Intn(2) == 0, pickTmpl(), 1, c07Doc{B: b, Class: "random"})
	}

	// C. mutated valid documents
	for i := 0; i < c.Pick(250, 6000); i++ {
		v := valids[c.Rng.Intn(len(valids))]
		add(pickEntry(entriesFor(v.format, docEntries)), c.Rng.Intn(3) != 0, pickTmpl(), 1, c07Doc{B: c07Mutate(c, v.b), Class: "mutated"})
	}

	// D. truncation at every position (short valid documents; template nil so that the model applies)
	nTrunc := 0
	for i := len(valids) - 1; i >= 0 && nTrunc < c.Pick(24, 200); i-- {
		v := valids[i]
		if len(v.b) > c.Pick(40, 120) {
			continue
		}
		nTrunc++
		es := entriesFor(v.format, unmarshalEntries)
		for p := 0; p < len(v.b); p++ {
			add(es[c.Rng.Intn(len(es))], (p+i)%3 != 0, "nil", 1, c07Doc{B: v.b[:p], Class: "truncated"})
		}
	}

	// E. deeply nested containers
	for _, d := range c07NestedDocs(c.Pick(10000, 100000), c.Pick(600, 2000)) {
		f := "cbe"
		if d.B[0] == 'c' {
			f = "cte"
		}
		for _, ru := range []bool{true, false} {
			es := entriesFor(f, unmarshalEntries)
			add(es[c.Rng.Intn(len(es))], ru, "nil", 1, d)
			ds := entriesFor(f, decodeEntries)
			add(ds[c.Rng.Intn(len(ds))], ru, "nil", 1, d)
		}
	}

	// F. huge announced lengths
	for _, d := range c07HugeLengthDocs() {
		for _, ru := range []bool{true, false} {
			if c.Thorough() || c.Rng.Intn(3) == 0 {
				add(pickEntry(entriesFor("cbe", docEntries)), ru, "nil", 1, d)
			}
		}
	}

	// G. random documents over the CBE fragment of the model (validator off, destination interface{})
	fragStart := len(items)
	_ = fragStart
	cbeUnm := entriesFor("cbe", unmarshalEntries)
	for i := 0; i < c.Pick(500, 6000); i++ {
		add(cbeUnm[c.Rng.Intn(len(cbeUnm))], false, "nil", 1, c07Doc{B: c07FragDoc(c), Class: "fragment"})
	}
	fragEnd := len(items)
	_ = fragEnd

	// H. templates of every kind (supported and unsupported), one call and two calls on the same object
	// (pinned: before commit d2cf257 the second call with an unsupported type blocked forever on the type cache's placeholder)
	tdocs := map[string][]c07Doc{
		"cbe": {{B: []byte{0x81, 0, 1}, Class: "template"}, {B: []byte{0x81, 0, 0x9a, 1, 2, 0x9b}, Class: "template"}, {B: []byte{0x81, 0, 0x99, 0x81, 'A', 1, 0x81, 'B', 0x81, 'x', 0x9b}, Class: "template"},
			{B: []byte{0x81, 0, 0x82, 'h', 'i'}, Class: "template"}, {B: []byte{0x81, 0, 0x7d}, Class: "template"}, {B: []byte{0x81, 0, 0x97, 1, 2, 3}, Class: "template"}, {B: []byte{0x81, 0}, Class: "template"}},
		"cte": {{B: []byte("c0 1"), Class: "template"}, {B: []byte("c0 [1 2]"), Class: "template"}, {B: []byte("c0 {\"A\"=1 \"B\"=\"x\"}"), Class: "template"},
			{B: []byte("c0 \"hi\""), Class: "template"}, {B: []byte("c0 null"), Class: "template"}, {B: []byte("c0 (1 2)"), Class: "template"}, {B: []byte("c0"), Class: "template"}},
	}
	for _, e := range unmarshalEntries {
		fs := []string{e.Fmt}
		if e.Fmt == "ce" {
			fs = []string{"cbe", "cte"}
		}
		for _, t := range append(append([]string{}, c07TemplateNames...), c07UnsupportedNames...) {
			for _, f := range fs {
				ds := tdocs[f]
				if c07UnsupportedSet[t] {
					add(e, true, t, 1, ds[0])
					add(e, true, t, 2, ds[c.Rng.Intn(len(ds))])
				} else {
					add(e, c.Rng.Intn(4) != 0, t, 1+c.Rng.Intn(2), ds[c.Rng.Intn(len(ds))])
				}
			}
		}
	}

	// I. marshaling (unsupported kinds twice on the same Marshaler: pinned, see H; cyclic values: open defect)
	for _, e := range marshalEntries {
		for _, v := range append(append(append(append([]string{}, c07ValueNames...), c07TemplateNames...), c07UnsupportedNames...), c07CyclicNames...) {
			if strings.HasPrefix(v, "v:cyclic") && !c.Thorough() &&
				!(v == "v:cyclic-ptr" && e.Name == "MarshalToCBEDocument" || v == "v:cyclic-slice" && e.Name == "CBEMarshaler_Marshal" || v == "v:cyclic-map" && e.Name == "MarshalCTE") {
				continue // quick tier: every cyclic shape once (each costs the watchdog time)
			}
			deep := []byte{1}
			if v == "v:deep-list" {
				deep = make([]byte, c.Pick(4, 10)) // nesting depth = len * 200 (the CTE encoder needs time quadratic in the depth)
			}
			add(e, false, v, 1, c07Doc{B: deep, Class: "value"})
			if strings.HasPrefix(v, "v:cyclic") {
				items[len(items)-1].Req.Slow = true
				continue
			}
			if c07UnsupportedSet[v] || c.Rng.Intn(4) == 0 {
				add(e, false, v, 2, c07Doc{B: deep, Class: "value"})
			}
		}
	}

	// J. call sequences on ONE reused Marshaler / Unmarshaler / Decoder / Encoder (2-3 calls, every call under its own
	// watchdog in the child): earlier calls fail — unsupported types (plain, and inside self-referential type graphs, where
	// the failed generation leaves iterators / builders of OTHER types of the cycle cached), invalid documents, documents
	// truncated at every position, values whose iteration fails after events have reached the encoder — and the later calls
	// must still return.
	addSeq := func(e c07Entry, rules bool, class string, steps []c07Step) {
		items = append(items, c07Item{Req: c07Req{Entry: e.Name, Rules: rules, Tmpl: c07SeqSpec(steps), Repeat: 1}, Class: "seq/" + class, Trace: -1, Spec: -1, Seq: steps,
			Model: len(steps) != 2 || c.Thorough() || c.Rng.Intn(100) < 45})
	}
	methodEntries := func(list []c07Entry, format string) []c07Entry {
		out := []c07Entry{}
		for _, e := range list {
			if e.Method && (format == "" || e.Fmt == format || e.Fmt == "ce") {
				out = append(out, e)
			}
		}
		return out
	}
	marshalMethods := methodEntries(marshalEntries, "")
	oneShotMarshal := []c07Entry{}
	for _, e := range marshalEntries {
		if !e.Method {
			oneShotMarshal = append(oneShotMarshal, e)
		}
	}
	mstep := func(v string) c07Step { return c07Step{Tmpl: v, Doc: []byte{1}} }
	gname := func(root, view string) string { return "g:" + root + "/" + view }
	anyView := func() string {
		return gname(c07GraphRootNames[c.Rng.Intn(len(c07GraphRootNames))], c07GraphViews[c.Rng.Intn(len(c07GraphViews))])
	}
	nSeq := 0
	pickMarshalEntry := func() c07Entry {
		nSeq++
		if nSeq%8 == 0 {
			return oneShotMarshal[c.Rng.Intn(len(oneShotMarshal))] // fresh session per call: the control
		}
		return marshalMethods[c.Rng.Intn(len(marshalMethods))]
	}

	// J1. marshal, type graphs: every ordered pair of core views of every root, and sampled triples over all views and roots
	for _, root := range c07GraphRootNames {
		for _, v1 := range c07GraphCoreViews {
			for _, v2 := range c07GraphCoreViews {
				addSeq(pickMarshalEntry(), false, "type-graph", []c07Step{mstep(gname(root, v1)), mstep(gname(root, v2))})
			}
		}
	}
	for i := 0; i < c.Pick(300, 4000); i++ {
		root := c07GraphRootNames[c.Rng.Intn(len(c07GraphRootNames))]
		st := make([]c07Step, 3)
		for j := range st {
			if c.Rng.Intn(2) == 0 {
				st[j] = mstep(gname(root, c07GraphViews[c.Rng.Intn(len(c07GraphViews))]))
			} else {
				st[j] = mstep(anyView())
			}
		}
		addSeq(pickMarshalEntry(), false, "type-graph", st)
	}
	// J2. marshal: iteration fails in mid-document, then other values
	followUps := []string{"v:list", "v:nested", "v:map", "v:interface-map", "g:recOK/ptr2", "v:node"}
	for _, m := range c07MidFailNames {
		for _, f := range followUps {
			for _, e := range marshalMethods {
				addSeq(e, false, "after-failure-in-mid-document", []c07Step{mstep(m), mstep(f)})
			}
		}
		for k := 0; k < 8; k++ {
			addSeq(pickMarshalEntry(), false, "after-failure-in-mid-document", []c07Step{mstep(m), mstep(c07MidFailNames[c.Rng.Intn(len(c07MidFailNames))]), mstep(followUps[c.Rng.Intn(len(followUps))])})
		}
	}
	// J3. marshal: plain unsupported kinds, then other unsupported / supported values
	allValues := append(append([]string{}, c07ValueNames...), c07TemplateNames...)
	for i := 0; i < c.Pick(80, 1000); i++ {
		u1 := c07UnsupportedNames[c.Rng.Intn(len(c07UnsupportedNames))]
		u2 := c07UnsupportedNames[c.Rng.Intn(len(c07UnsupportedNames))]
		v := allValues[c.Rng.Intn(len(allValues))]
		st := []c07Step{mstep(u1), mstep(u2), mstep(v)}
		if v == "v:deep-list" {
			st[2].Doc = make([]byte, 4)
		}
		if i%3 == 0 {
			st = []c07Step{st[0], st[2]}
		}
		addSeq(pickMarshalEntry(), false, "after-unsupported-type", st)
	}

	// documents for the unmarshal / decode / encode sequences
	toCBE := func(cte string) []byte {
		var buf bytes.Buffer
		enc := ce.NewCBEEncoder(configuration.New())
		enc.PrepareToEncode(&buf)
		if err := ce.NewCTEDecoder(configuration.New()).DecodeDocument([]byte(cte), enc); err != nil {
			panic("c07: harness document does not convert: " + cte + ": " + err.Error())
		}
		return append([]byte{}, buf.Bytes()...)
	}
	gStruct := `{"Name"="a" "V"=1 "Next"={"Name"="b" "V"=2} "Kids"=[{"V"=3}] "M"={"k"={"V"=4}} "F"={"E"={"V"=5} "Back"=[{"V"=6}]} "H"={"I"={"G"={}}} "Arr"=[{} {}] "OK"={"V"=7 "Next"={"V"=8}} "A"={"Name"="c" "Next"={"Name"="d"}} "E"=[{"V"=9}]}`
	gdocs := map[string]map[string][]byte{"cte": {}, "cbe": {}}
	for k, body := range map[string]string{"struct": gStruct, "list": "[" + gStruct + " {\"V\"=1}]", "map": "{\"k\"=" + gStruct + "}", "wrap": "{\"P\"=" + gStruct + "}"} {
		gdocs["cte"][k] = []byte("c0 " + body)
		gdocs["cbe"][k] = toCBE("c0 " + body)
	}
	docOfView := func(view string) string {
		switch view {
		case "sliceptr", "sliceval", "emptyslice", "ifacelist":
			return "list"
		case "map":
			return "map"
		case "wrap":
			return "wrap"
		}
		return "struct"
	}
	gdocKinds := []string{"struct", "list", "map", "wrap"}
	unmarshalMethods := map[string][]c07Entry{"cbe": methodEntries(unmarshalEntries, "cbe"), "cte": methodEntries(unmarshalEntries, "cte")}
	ustep := func(format, root, view string) c07Step {
		k := docOfView(view)
		if c.Rng.Intn(5) == 0 {
			k = gdocKinds[c.Rng.Intn(len(gdocKinds))] // a document that does not fit the template
		}
		return c07Step{Tmpl: gname(root, view), Doc: gdocs[format][k]}
	}
	// J4. unmarshal, type graphs as templates: every ordered pair of core views of every root, sampled triples
	nU := 0
	pickUnmarshal := func() (string, c07Entry) {
		nU++
		f := []string{"cbe", "cte"}[c.Rng.Intn(2)]
		es := unmarshalMethods[f]
		return f, es[c.Rng.Intn(len(es))]
	}
	for _, root := range c07GraphRootNames {
		for _, v1 := range c07GraphCoreViews {
			for _, v2 := range c07GraphCoreViews {
				f, e := pickUnmarshal()
				addSeq(e, nU%3 != 0, "type-graph", []c07Step{ustep(f, root, v1), ustep(f, root, v2)})
			}
		}
	}
	for i := 0; i < c.Pick(300, 4000); i++ {
		f, e := pickUnmarshal()
		root := c07GraphRootNames[c.Rng.Intn(len(c07GraphRootNames))]
		st := make([]c07Step, 3)
		for j := range st {
			r := root
			if c.Rng.Intn(2) == 0 {
				r = c07GraphRootNames[c.Rng.Intn(len(c07GraphRootNames))]
			}
			st[j] = ustep(f, r, c07GraphViews[c.Rng.Intn(len(c07GraphViews))])
		}
		addSeq(e, c.Rng.Intn(3) != 0, "type-graph", st)
	}
	// J5. unmarshal: plain unsupported template kinds, then other templates
	for i := 0; i < c.Pick(80, 1000); i++ {
		f, e := pickUnmarshal()
		ds := tdocs[f]
		st := []c07Step{{Tmpl: c07UnsupportedNames[c.Rng.Intn(len(c07UnsupportedNames))], Doc: ds[c.Rng.Intn(len(ds))].B},
			{Tmpl: c07UnsupportedNames[c.Rng.Intn(len(c07UnsupportedNames))], Doc: ds[c.Rng.Intn(len(ds))].B},
			{Tmpl: c07TemplateNames[c.Rng.Intn(len(c07TemplateNames))], Doc: ds[c.Rng.Intn(len(ds))].B}}
		if i%3 == 0 {
			st = st[1:]
		}
		addSeq(e, c.Rng.Intn(2) == 0, "after-unsupported-type", st)
	}
	// J6. unmarshal / decode / encode: documents that fail (truncated at every position, invalid), then valid ones
	base := map[string][][]byte{"cbe": {}, "cte": {}}
	for f, ds := range tdocs {
		for _, d := range ds {
			base[f] = append(base[f], d.B)
		}
	}
	for f := range gdocs {
		base[f] = append(base[f], gdocs[f]["struct"], gdocs[f]["list"])
	}
	nGen := map[string]int{}
	for i := len(valids) - 1; i >= 0; i-- {
		v := valids[i]
		if len(v.b) <= 60 && nGen[v.format] < c.Pick(12, 80) {
			nGen[v.format]++
			base[v.format] = append(base[v.format], v.b)
		}
	}
	failing := map[string][][]byte{"cbe": {}, "cte": {}}
	for _, f := range []string{"cbe", "cte"} {
		for _, b := range base[f] {
			if len(b) <= c.Pick(48, 200) {
				for p := 0; p < len(b); p++ {
					failing[f] = append(failing[f], b[:p])
				}
			} else {
				for k := 0; k < c.Pick(16, 64); k++ {
					failing[f] = append(failing[f], b[:c.Rng.Intn(len(b))])
				}
			}
		}
	}
	for _, h := range []string{"810073", "81009b", "81009a9b9b", "8100999a", "81009901", "810090ff", "81007ff001617ff0016101", "8100770161", "81009901020103 9b", "8100960161", "810083ffffff",
		"810097", "81009701", "8100970102", "810098", "81009897", "8100999a97", "81007ff00161", "81009a7ff00161", "81009773", "8100976a01", "81009873", "8100", "81", "8102", "00"} {
		b, _ := hex.DecodeString(strings.ReplaceAll(h, " ", ""))
		failing["cbe"] = append(failing["cbe"], b)
	}
	for _, t := range []string{"c0 ]", "c0 [1 2", "c0 {1=", "c0 @(1 2", "c0 \"abc", "c0 [1 2}", "c0 $a", "c0 [&a:1 &a:2]", "c0 {1=2 1=3}", "c0 @a{", "c0 0x", "c0 1 2", "c1x", "c0 |u8x zz|",
		"c0 (", "c0 [@(1 }", "c0 @(", "c0 @(1", "c0 [(", "c0 {1=@(", "c0 &a:", "c0 [&a:", "c0 @(]", "c0 (]", "c0 /* x", "c", "c0", "x"} {
		failing["cte"] = append(failing["cte"], []byte(t))
	}
	failTmpls := []string{"nil", "nil", "nil", "struct", "nested", "[]interface", "edge", "node", "map[string]int", "g:recOK/ptr0"}
	decodeMethods := map[string][]c07Entry{"cbe": methodEntries(decodeEntries, "cbe"), "cte": methodEntries(decodeEntries, "cte")}
	encEntry := map[string]c07Entry{"cbe": c07EncoderEntries[0], "cte": c07EncoderEntries[1]}
	nF := 0
	failSeq := func(f string, docs [][]byte) {
		nF++
		other := f
		last := base[f][c.Rng.Intn(len(base[f]))]
		var e c07Entry
		switch nF % 5 {
		case 0, 1:
			e = unmarshalMethods[f][(nF/5)%len(unmarshalMethods[f])]
		case 2, 3:
			e = decodeMethods[f][(nF/5)%len(decodeMethods[f])]
			if e.Fmt == "ce" && c.Rng.Intn(2) == 0 { // the universal decoder may get the other format next
				other = map[string]string{"cbe": "cte", "cte": "cbe"}[f]
				last = base[other][c.Rng.Intn(len(base[other]))]
			}
		default:
			e = encEntry[[]string{"cbe", "cte"}[(nF/5)%2]] // the encoder is driven by a decoder of either format
		}
		st := []c07Step{}
		for _, d := range docs {
			st = append(st, c07Step{Tmpl: failTmpls[c.Rng.Intn(len(failTmpls))], Doc: d})
		}
		st = append(st, c07Step{Tmpl: pickTmpl(), Doc: last})
		if e.Kind != "unmarshal" {
			for j := range st {
				st[j].Tmpl = "nil"
			}
		}
		addSeq(e, nF%2 == 0, "after-failed-document", st)
	}
	for _, f := range []string{"cbe", "cte"} {
		for _, d := range failing[f] {
			failSeq(f, [][]byte{d})
		}
		for i := 0; i < c.Pick(100, 1500); i++ {
			failSeq(f, [][]byte{failing[f][c.Rng.Intn(len(failing[f]))], failing[f][c.Rng.Intn(len(failing[f]))]})
		}
	}

	// calls that are expected to take long are started first so that they overlap with everything else
	sort.SliceStable(items, func(i, j int) bool { return items[i].Req.Slow && !items[j].Req.Slow })

	// ---- phase 1: what reached the builder (template nil), per (format, validator, document)
	traceReqs := []c07Req{}
	traceIdx := map[string]int{}
	for i := range items {
		it := &items[i]
		e := c07EntryByName(it.Req.Entry)
		if e.Kind != "unmarshal" || it.Seq != nil {
			continue
		}
		tr := c07Req{Entry: "trace-" + e.Fmt, Rules: it.Req.Rules, Tmpl: "nil", Repeat: 1, Doc: it.Req.Doc}
		k := tr.line()
		if j, ok := traceIdx[k]; ok {
			it.Trace = j
			continue
		}
		traceIdx[k] = len(traceReqs)
		it.Trace = len(traceReqs)
		traceReqs = append(traceReqs, tr)
	}
	t0 := time.Now()
	traces := pool.run(traceReqs, nil, nil)
	c.Rep.Extra["phase1_trace_s"] = time.Since(t0).Seconds()
	t0 = time.Now()
	lettersOf := func(it c07Item) (letters string, inflight byte, fails bool, ok bool) {
		if it.Trace < 0 {
			return "", 0, false, false
		}
		r := traces[it.Trace]
		if r.Class != "ok" && r.Class != "err" {
			return "", 0, false, false
		}
		p := strings.LastIndexByte(r.Detail, '!')
		if p < 0 || p+1 >= len(r.Detail) {
			return "", 0, false, false
		}
		return r.Detail[:p], r.Detail[p+1], r.Class == "err", true
	}

	// companion format-specific decode for the universal decode entry points
	nItems := len(items)
	for i := 0; i < nItems; i++ {
		it := items[i]
		e := c07EntryByName(it.Req.Entry)
		if e.Kind != "decode" || e.Fmt != "ce" || len(it.Req.Doc) == 0 {
			continue
		}
		name := ""
		switch ce.VerifChooseDecoder(it.Req.Doc[0]) {
		case "cbe":
			name = "CBEDecoder_Decode"
		case "cte":
			name = "CTEDecoder_Decode"
		default:
			continue
		}
		if !e.Reader {
			name += "Document"
		}
		items[i].Spec = len(items)
		items = append(items, c07Item{Req: c07Req{Entry: name, Rules: it.Req.Rules, Tmpl: "nil", Repeat: 1, Doc: it.Req.Doc}, Class: it.Class + "+companion", Trace: -1, Spec: -1})
	}

	// ---- phase 2: the calls. Hang budget: documents on which the pre-5799b55 ArtificiallyTerminate would spin (decode error with an
	// edge or a node waiting for its value on top of the builder stack) stop being tried once `budget` of them really hung.
	budget := c.Pick(4, 20)
	spun := 0
	reqs := make([]c07Req, len(items))
	for i := range items {
		reqs[i] = items[i].Req
	}
	expectSpin := func(it c07Item) bool {
		letters, _, fails, ok := lettersOf(it)
		if !ok || !fails {
			return false
		}
		sp := c07Spin(letters)
		return sp == "edge" || sp == "node"
	}
	results := pool.run(reqs, func(i int) bool { return spun >= budget && expectSpin(items[i]) },
		func(i int, r c07Res) {
			if r.Class == "hang" && expectSpin(items[i]) {
				spun++
			}
		})

	c.Rep.Extra["phase2_calls_s"] = time.Since(t0).Seconds()

	// ---- oracle, evidence, correspondence cases
	nCases := map[string]int{}
	caseCap := map[string]int{"decode": c.Pick(350, 3000), "unmarshal": c.Pick(700, 8000), "marshal": c.Pick(250, 1500), "frag": c.Pick(500, 6000), "typed": c.Pick(800, 8000)}
	addCase := func(kind, term, human string) {
		if nCases[kind] >= caseCap[kind] {
			return
		}
		nCases[kind]++
		cf.Add(term, human)
	}
	for i, it := range items {
		r := results[i]
		e := c07EntryByName(it.Req.Entry)
		letters, inflight, fails, haveTrace := lettersOf(it)
		rep := it.Req.Repeat
		if rep < 1 {
			rep = 1
		}
		human := fmt.Sprintf("%s rules=%v tmpl=%s rep=%d class=%s doc=%s -> %s", it.Req.Entry, it.Req.Rules, it.Req.Tmpl, rep, it.Class, c07Short(it.Req.Doc), r.Class)
		if r.Class == "skipped" {
			c.Dist("skipped/hang-budget/" + e.Family)
			continue
		}
		if r.Class == "bad" || r.Class == "timeout" {
			panic("c07: harness error: " + human + " " + r.Detail)
		}
		nontrivial := !(it.Class == "random" && len(it.Req.Doc) > 0 && detectSpec(it.Req.Doc[0]) == "none")
		c.Count(it.Req.line(), nontrivial)
		c.Dist(fmt.Sprintf("%s/%s/%s", e.Family, strings.SplitN(it.Class, "/", 2)[0], r.Class))
		if it.Seq != nil {
			c.Dist(fmt.Sprintf("%s/%d-calls/%s", it.Class, len(it.Seq), r.Class))
		} else if e.Kind != "marshal" {
			c.Dist(fmt.Sprintf("validator=%v/%s", it.Req.Rules, r.Class))
			if it.Req.Tmpl != "nil" {
				c.Dist("template/" + it.Req.Tmpl + "/" + r.Class)
			}
		} else {
			c.Dist("value/" + it.Req.Tmpl + "/" + r.Class)
		}
		if r.Class != "ok" && r.Class != "err" {
			key := c07Key(it, r, letters, fails)
			c.Fail(Replay{Kind: "call", Key: key, Input: c07ReplayOf(it, specOf[it.Req.line()]),
				Expect: "the call returns (a result or an error)", Got: r.Class + ": " + r.Detail})
		} else if len(c.Rep.Samples) < 8 && i%97 == 0 {
			c.Sample(c07ReplayOf(it, specOf[it.Req.line()]))
		}

		// correspondence
		cl := c07Cls(r.Class)
		if cl == "" || (r.Class == "killed" && c07IsOOM(r)) {
			c.Dist("case-excluded/oom-or-unclassified")
			continue
		}
		if it.Seq != nil {
			// marshal sequences are compared step by step with the iterator-session model over the type graph
			// (CE.Model.Entry run_typed); the builder session of typed destinations has no model
			if e.Kind != "marshal" {
				c.Dist("case-excluded/sequence-without-model")
				continue
			}
			if !it.Model {
				c.Dist("case-excluded/sequence-not-sampled")
				continue
			}
			stepCls := c07StepClasses(r.Detail)
			envT, callsT, described := c07DescribeMarshalSeq(it.Seq)
			cls := []string{}
			for _, sc := range stepCls {
				if x := c07Cls(sc); x != "" {
					cls = append(cls, x)
				}
			}
			if !described || stepCls == nil || len(cls) != len(stepCls) {
				c.Dist("case-excluded/sequence-not-described")
				continue
			}
			addCase("typed", cApp("TypedMarshalCase", it.Req.Entry, envT, callsT, cList(cls)), human+" steps="+strings.Join(stepCls, ","))
			continue
		}
		head := it.Req.Doc
		if len(head) > 1 {
			head = head[:1]
		}
		switch e.Kind {
		case "decode":
			specFails := r.Class == "err"
			if e.Fmt == "ce" {
				if it.Spec < 0 {
					specFails = false // no format chosen: the model does not look at it
				} else {
					sr := results[it.Spec]
					if sr.Class != "ok" && sr.Class != "err" {
						c.Dist("case-excluded/companion-" + sr.Class)
						continue
					}
					specFails = sr.Class == "err"
				}
			} else if r.Class != "ok" && r.Class != "err" {
				c.Dist("case-excluded/specific-decoder-" + r.Class)
				continue
			}
			addCase("decode", cApp("DecodeCase", it.Req.Entry, cBytes(head), cNi(len(it.Req.Doc)), cBool(specFails), cl), human)
		case "unmarshal":
			sup := !c07UnsupportedSet[it.Req.Tmpl]
			if it.Class == "fragment" {
				if !haveTrace || c07Spin(letters) == "unmodelled" {
					c.Dist("case-excluded/fragment-with-container-as-map-key")
					continue
				}
				addCase("frag", cApp("FragCase", it.Req.Entry, cBytes(it.Req.Doc), cl), human)
				continue
			}
			if it.Req.Tmpl != "nil" && sup {
				c.Dist("case-excluded/typed-template")
				continue
			}
			if !haveTrace {
				c.Dist("case-excluded/no-trace")
				continue
			}
			if strings.ContainsAny(letters, "KRTr") || strings.ContainsRune("KRTr", rune(inflight)) || c07Spin(letters) == "unmodelled" {
				c.Dist("case-excluded/marker-reference-record-or-container-key")
				continue
			}
			if !sup && inflight != '-' && inflight != '.' {
				c.Dist("case-excluded/unsupported-template-with-refused-object")
				continue
			}
			if len(letters) > 30000 {
				c.Dist("case-excluded/trace-too-long")
				continue
			}
			lb := []byte(letters)
			addCase("unmarshal", cApp("UnmarshalCase", it.Req.Entry, cBytes(head), cNi(len(it.Req.Doc)), cBool(sup), fmt.Sprintf("%d%%nat", rep),
				cBytes(lb), cBool(fails), cl), human+" trace="+c07ShortS(letters)+"!"+string([]byte{inflight}))
		case "marshal":
			sup := !c07UnsupportedSet[it.Req.Tmpl]
			cyc := strings.HasPrefix(it.Req.Tmpl, "v:cyclic")
			addCase("marshal", cApp("MarshalCase", it.Req.Entry, cBool(sup), cBool(cyc), fmt.Sprintf("%d%%nat", rep), cl), human)
		}
	}
	c.Rep.Extra["hang_budget"] = map[string]int{"budget": budget, "hung": spun}
	c.Rep.Extra["trace_requests"] = len(traceReqs)
	c.Rep.Extra["cases_by_kind"] = nCases
}

func c07Short(b []byte) string {
	if len(b) <= 48 {
		return hex.EncodeToString(b)
	}
	return fmt.Sprintf("%x…(%d bytes)", b[:40], len(b))
}

func c07ShortS(s string) string {
	if len(s) <= 60 {
		return s
	}
	return fmt.Sprintf("%s…(%d)", s[:50], len(s))
}

func replayC07(r *Replay) (bool, string) {
	if r.Kind != "call" {
		return false, "unknown replay kind " + r.Kind
	}
	doc, err := c07DocFromSpec(r.Input["doc"])
	if err != nil {
		return false, "bad replay input: " + err.Error()
	}
	req := c07Req{Entry: r.Input["entry"], Rules: r.Input["rules"] == "on", Tmpl: r.Input["template_or_value"], Doc: doc}
	fmt.Sscan(r.Input["repeat"], &req.Repeat)
	req.Slow = strings.HasPrefix(req.Tmpl, "v:cyclic")
	if c07EntryByName(req.Entry) == nil {
		return false, "bad replay input: unknown entry point"
	}
	if strings.HasPrefix(req.Tmpl, "seq:") {
		if _, err := c07ParseSeq(req.Tmpl); err != nil {
			return false, "bad replay input: " + err.Error()
		}
	}
	pool := &c07Pool{memCap: 4 << 30, timeout: 5 * time.Second, workers: 1}
	res := pool.run([]c07Req{req}, nil, nil)[0]
	detail := fmt.Sprintf("%s (validator %s, template/value %s, %d call(s) on the same object, document %s) -> %s %s",
		req.Entry, r.Input["rules"], req.Tmpl, req.Repeat, c07Short(doc), res.Class, res.Detail)
	return res.Class == "ok" || res.Class == "err", detail
}

var _ = reflect.TypeOf
