package main

import (
	"bytes"
	"fmt"
	"go/ast"
	"go/parser"
	"go/printer"
	"go/token"
	"os"
	"regexp"
	"sort"
	"strings"

	"github.com/kstenerud/go-concise-encoding/ce/events"
	"github.com/kstenerud/go-concise-encoding/configuration"
	"github.com/kstenerud/go-concise-encoding/rules"
	"github.com/kstenerud/go-concise-encoding/verifhooks"
)

func init() { generators = append(generators, genRulesConsts, genRulesTable) }

const rulesDir = "/repo/rules"

// ---------------------------------------------------------------------------
// Gen/RulesConsts.v: data-type bits, masks, array tables, default limits,
// character tables used by the validator — obtained by executing the code.

func genRulesConsts(dir string) {
	g := newGen("RulesConsts.v")
	dt := map[string]rules.DataType{
		"DT_Null": rules.DataTypeNull, "DT_Nan": rules.DataTypeNan, "DT_Bool": rules.DataTypeBool, "DT_Int": rules.DataTypeInt,
		"DT_Float": rules.DataTypeFloat, "DT_UID": rules.DataTypeUID, "DT_Time": rules.DataTypeTime, "DT_List": rules.DataTypeList,
		"DT_Map": rules.DataTypeMap, "DT_RecordType": rules.DataTypeRecordType, "DT_Record": rules.DataTypeRecord,
		"DT_Edge": rules.DataTypeEdge, "DT_Node": rules.DataTypeNode, "DT_String": rules.DataTypeString, "DT_Media": rules.DataTypeMedia,
		"DT_CustomText": rules.DataTypeCustomText, "DT_CustomBinary": rules.DataTypeCustomBinary, "DT_Marker": rules.DataTypeMarker,
		"DT_LocalReference": rules.DataTypeLocalReference, "DT_ResourceID": rules.DataTypeResourceID,
		"DT_RemoteReference": rules.DataTypeRemoteReference, "DT_Comment": rules.DataTypeComment, "DT_Padding": rules.DataTypePadding,
		"DT_Invalid": rules.DataTypeInvalid,
		"Allow_Any": rules.AllowAny, "Allow_NonNull": rules.AllowNonNull, "Allow_Keyable": rules.AllowKeyable,
		"Allow_Markable": rules.AllowMarkable, "Allow_String": rules.AllowString, "Allow_ResourceID": rules.AllowResourceID,
	}
	names := []string{}
	for k := range dt {
		names = append(names, k)
	}
	sort.Strings(names)
	for _, k := range names {
		g.def(k, "N", cN(uint64(dt[k])))
	}
	at := map[string]events.ArrayType{
		"AT_Invalid": events.ArrayTypeInvalid, "AT_String": events.ArrayTypeString, "AT_ResourceID": events.ArrayTypeResourceID,
		"AT_ReferenceRemote": events.ArrayTypeReferenceRemote, "AT_CustomText": events.ArrayTypeCustomText,
		"AT_CustomBinary": events.ArrayTypeCustomBinary, "AT_Bit": events.ArrayTypeBit, "AT_Uint8": events.ArrayTypeUint8,
		"AT_Uint16": events.ArrayTypeUint16, "AT_Uint32": events.ArrayTypeUint32, "AT_Uint64": events.ArrayTypeUint64,
		"AT_Int8": events.ArrayTypeInt8, "AT_Int16": events.ArrayTypeInt16, "AT_Int32": events.ArrayTypeInt32, "AT_Int64": events.ArrayTypeInt64,
		"AT_Float16": events.ArrayTypeFloat16, "AT_Float32": events.ArrayTypeFloat32, "AT_Float64": events.ArrayTypeFloat64,
		"AT_UID": events.ArrayTypeUID, "AT_Media": events.ArrayTypeMedia, "AT_MediaData": events.ArrayTypeMediaData,
		"AT_Count": events.NumArrayTypes,
	}
	names = names[:0]
	for k := range at {
		names = append(names, k)
	}
	sort.Strings(names)
	for _, k := range names {
		g.def(k, "N", cN(uint64(at[k])))
	}
	// arrayTypeToDataType (index = array type)
	tbl := []string{}
	for _, d := range rules.VerifArrayTypeToDataType() {
		tbl = append(tbl, cN(uint64(d)))
	}
	g.def("array_type_to_data_type", "list N", "["+joinLines(tbl, 8)+"]")
	// element sizes in bits (ArrayType.ElementSize), index = array type
	tbl = tbl[:0]
	for t := events.ArrayType(0); t < events.NumArrayTypes; t++ {
		tbl = append(tbl, cN(uint64(t.ElementSize())))
	}
	g.def("array_elem_bits", "list N", "["+joinLines(tbl, 8)+"]")
	cfg := configuration.New()
	g.def("default_max_object_count", "N", cN(cfg.Rules.MaxObjectCount))
	g.def("default_max_container_depth", "N", cN(cfg.Rules.MaxContainerDepth))
	g.def("default_max_array_size_bytes", "N", cN(cfg.Rules.MaxArraySizeBytes))
	g.def("default_max_identifier_length", "N", cN(cfg.Rules.MaxIdentifierLength))
	g.def("default_max_local_reference_count", "N", cN(cfg.Rules.MaxLocalReferenceCount))
	g.def("default_max_marker_count", "N", cN(cfg.Rules.MaxMarkerCount))
	g.def("default_max_document_size_bytes", "N", cN(cfg.Rules.MaxDocumentSizeBytes))
	// rune byte counts by (start byte >> 3)
	tbl = tbl[:0]
	for i := 0; i < 32; i++ {
		tbl = append(tbl, cNi(verifhooks.CalculateRuneByteCount(byte(i<<3))))
	}
	g.def("rune_byte_counts", "list N", "["+joinLines(tbl, 16)+"]")
	// identifier-safe code points as closed intervals
	iv := []string{}
	start := -1
	for r := 0; r <= 0x110000; r++ {
		ok := r < 0x110000 && verifhooks.IsRuneValidIdentifier(rune(r))
		if ok && start < 0 {
			start = r
		}
		if !ok && start >= 0 {
			iv = append(iv, fmt.Sprintf("(%d, %d)", start, r-1))
			start = -1
		}
	}
	g.def("identifier_safe_intervals", "list (N * N)", "["+joinLines(iv, 6)+"]")
	g.write(dir)
}

// ---------------------------------------------------------------------------
// Gen/RulesTable.v: the (rule x method) dispatch matrix, translated from the
// method bodies of package rules.

type ruleSrc struct {
	fset    *token.FileSet
	methods map[string]map[string]*ast.FuncDecl // type -> method -> decl
	ruleVar map[string]string                   // variable name -> type name
	iface   []string                            // EventRule method names in order
}

func loadRules() *ruleSrc {
	rs := &ruleSrc{fset: token.NewFileSet(), methods: map[string]map[string]*ast.FuncDecl{}, ruleVar: map[string]string{}}
	pkgs, err := parser.ParseDir(rs.fset, rulesDir, func(fi os.FileInfo) bool {
		return !strings.HasSuffix(fi.Name(), "_test.go") && fi.Name() != "verif_hooks.go"
	}, 0)
	if err != nil {
		panic(err)
	}
	for _, f := range pkgs["rules"].Files {
		for _, d := range f.Decls {
			switch v := d.(type) {
			case *ast.FuncDecl:
				if v.Recv == nil || len(v.Recv.List) != 1 {
					continue
				}
				tn := ""
				switch t := v.Recv.List[0].Type.(type) {
				case *ast.StarExpr:
					if id, ok := t.X.(*ast.Ident); ok {
						tn = id.Name
					}
				case *ast.Ident:
					tn = t.Name
				}
				if rs.methods[tn] == nil {
					rs.methods[tn] = map[string]*ast.FuncDecl{}
				}
				rs.methods[tn][v.Name.Name] = v
			case *ast.GenDecl:
				for _, s := range v.Specs {
					switch sp := s.(type) {
					case *ast.ValueSpec:
						if id, ok := sp.Type.(*ast.Ident); ok && strings.HasSuffix(id.Name, "Rule") && v.Tok == token.VAR {
							for _, n := range sp.Names {
								rs.ruleVar[n.Name] = id.Name
							}
						}
					case *ast.TypeSpec:
						if sp.Name.Name == "EventRule" {
							for _, m := range sp.Type.(*ast.InterfaceType).Methods.List {
								rs.iface = append(rs.iface, m.Names[0].Name)
							}
						}
					}
				}
			}
		}
	}
	return rs
}

func (rs *ruleSrc) text(n ast.Node) string {
	var b bytes.Buffer
	printer.Fprint(&b, rs.fset, n)
	return strings.Join(strings.Fields(b.String()), " ")
}

func ruleCtor(typeName string) string { return "R" + strings.TrimSuffix(typeName, "Rule") }
func methCtor(m string) string        { return "M" + strings.TrimPrefix(m, "On") }

var maskCtor = map[string]string{"AllowAny": "MaskAny", "AllowNonNull": "MaskNonNull", "AllowKeyable": "MaskKeyable",
	"AllowMarkable": "MaskMarkable", "AllowString": "MaskString", "AllowResourceID": "MaskResourceID"}

func paramNames(fd *ast.FuncDecl) []string {
	out := []string{}
	for _, f := range fd.Type.Params.List {
		for _, n := range f.Names {
			out = append(out, n.Name)
		}
	}
	return out
}

// flatten the body, inlining calls of the rule's own helper methods (_this.helper(ctx)).
func (rs *ruleSrc) flatten(typeName string, stmts []ast.Stmt, depth int) []ast.Stmt {
	out := []ast.Stmt{}
	for _, s := range stmts {
		if es, ok := s.(*ast.ExprStmt); ok {
			if call, ok := es.X.(*ast.CallExpr); ok {
				if sel, ok := call.Fun.(*ast.SelectorExpr); ok {
					if id, ok := sel.X.(*ast.Ident); ok && id.Name == "_this" && len(call.Args) == 1 && rs.text(call.Args[0]) == "ctx" {
						h := rs.methods[typeName][sel.Sel.Name]
						if h != nil && depth < 3 {
							out = append(out, rs.flatten(typeName, h.Body.List, depth+1)...)
							continue
						}
					}
				}
			}
		}
		out = append(out, s)
	}
	return out
}

type pat struct {
	re *regexp.Regexp
	f  func(m []string, tr *translator) (string, bool)
}

type translator struct {
	rs       *ruleSrc
	typeName string
	method   string
	params   []string
	arrayDT  bool // `dataType := arrayTypeToDataType[arrayType]` seen
}

func konst(s string) func([]string, *translator) (string, bool) {
	return func([]string, *translator) (string, bool) { return s, true }
}

var stmtPats = []pat{
	{regexp.MustCompile(`^wrongType\(.*\)$`), konst("PReject")},
	{regexp.MustCompile(`^panic\(.*\)$`), konst("PReject")},
	{regexp.MustCompile(`^ctx\.ChangeRule\(&(\w+)\)$`), func(m []string, tr *translator) (string, bool) {
		t, ok := tr.rs.ruleVar[m[1]]
		return "PChangeRule " + ruleCtor(t), ok
	}},
	{regexp.MustCompile(`^ctx\.BeginList\(\)$`), konst("PBeginList")},
	{regexp.MustCompile(`^ctx\.BeginMap\(\)$`), konst("PBeginMap")},
	{regexp.MustCompile(`^ctx\.BeginEdge\(\)$`), konst("PBeginEdge")},
	{regexp.MustCompile(`^ctx\.BeginNode\(\)$`), konst("PBeginNode")},
	{regexp.MustCompile(`^ctx\.BeginRecordType\(identifier\)$`), konst("PBeginRecordType")},
	{regexp.MustCompile(`^ctx\.BeginRecord\(identifier\)$`), konst("PBeginRecord")},
	{regexp.MustCompile(`^ctx\.EndContainer\((true|false)\)$`), func(m []string, _ *translator) (string, bool) { return "PEndContainer " + m[1], true }},
	{regexp.MustCompile(`^ctx\.BeginMarkerAnyType\(identifier, (Allow\w+)\)$`), func(m []string, _ *translator) (string, bool) {
		c, ok := maskCtor[m[1]]
		return "PBeginMarkerAnyType " + c, ok
	}},
	{regexp.MustCompile(`^ctx\.BeginMarkerKeyable\(identifier, (Allow\w+)\)$`), func(m []string, _ *translator) (string, bool) {
		c, ok := maskCtor[m[1]]
		return "PBeginMarkerKeyable " + c, ok
	}},
	{regexp.MustCompile(`^ctx\.LocalReferenceAnyType\(identifier\)$`), konst("PLocalReferenceAnyType")},
	{regexp.MustCompile(`^ctx\.LocalReferenceKeyable\(identifier\)$`), konst("PLocalReferenceKeyable")},
	{regexp.MustCompile(`^ctx\.ValidateFullArrayAnyType\(arrayType, elementCount, data\)$`), konst("PValidateFullArrayAnyType")},
	{regexp.MustCompile(`^ctx\.ValidateFullArrayStringlike\(arrayType, data\)$`), konst("PValidateFullArrayStringlike")},
	{regexp.MustCompile(`^ctx\.ValidateFullArrayKeyable\("[^"]*", arrayType, elementCount, data\)$`), konst("PValidateFullArrayKeyable")},
	{regexp.MustCompile(`^ctx\.ValidateFullArrayStringlikeKeyable\("[^"]*", arrayType, data\)$`), konst("PValidateFullArrayStringlikeKeyable")},
	{regexp.MustCompile(`^ctx\.AssertArrayType\("[^"]*", arrayType, (Allow\w+)\)$`), func(m []string, _ *translator) (string, bool) {
		c, ok := maskCtor[m[1]]
		return "PAssertArrayType " + c, ok
	}},
	{regexp.MustCompile(`^ctx\.BeginArrayAnyType\(arrayType\)$`), konst("PBeginArrayAnyType")},
	{regexp.MustCompile(`^ctx\.BeginArrayKeyable\("[^"]*", arrayType\)$`), konst("PBeginArrayKeyable")},
	{regexp.MustCompile(`^ctx\.NotifyKey\(key\)$`), konst("PNotifyKeyArg")},
	{regexp.MustCompile(`^switch arrayType \{ case events\.ArrayTypeString: ctx\.NotifyKey\(string\(data\)\) case events\.ArrayTypeResourceID: ctx\.NotifyKey\(rid\(data\)\) \}$`), konst("PNotifyKeyFromArrayData")},
	{regexp.MustCompile(`^switch dataType \{ case DataTypeString: ctx\.NotifyKey\(ctx\.GetBuiltArrayAsString\(\)\) case DataTypeResourceID: ctx\.NotifyKey\(rid\(ctx\.GetBuiltArrayAsString\(\)\)\) \}$`), konst("PNotifyKeyFromBuilt")},
	{regexp.MustCompile(`^if version != ctx\.ExpectedVersion \{ panic\(.*\) \}$`), konst("PCheckVersion")},
	{regexp.MustCompile(`^ctx\.EndDocument\(\)$`), konst("PEndDocument")},
	{regexp.MustCompile(`^ctx\.UnstackRule\(\)$`), konst("PUnstackRule")},
	{regexp.MustCompile(`^dataType := arrayTypeToDataType\[arrayType\]$`), func(_ []string, tr *translator) (string, bool) {
		tr.arrayDT = true
		return "", true
	}},
	{regexp.MustCompile(`^ctx\.(CurrentEntry\.Rule|ParentRule\(\))\.(On\w+)\((.*)\)$`), func(m []string, tr *translator) (string, bool) {
		args := strings.Split(m[3], ", ")
		same := m[2] == tr.method && strings.Join(args, ",") == strings.Join(tr.params, ",")
		if m[1] == "CurrentEntry.Rule" {
			if same {
				return "PForwardCurrent " + methCtor(m[2]), true
			}
			if tr.method == "OnNonKeyableObject" && m[2] == "OnKeyableObject" && len(args) == 3 && args[0] == "ctx" && args[1] == tr.params[1] && args[2] == `""` {
				return "PForwardCurrentKeyableEmptyKey", true
			}
			return "", false
		}
		if same {
			return "PForwardParent " + methCtor(m[2]), true
		}
		return "", false
	}},
	{regexp.MustCompile(`^ctx\.MarkObject\((\w+)\)$`), func(m []string, tr *translator) (string, bool) {
		switch {
		case m[1] == "DataTypeNull":
			return "PMarkObject DtNull", true
		case m[1] == "dataType" && tr.arrayDT:
			return "PMarkObject DtOfArrayType", true
		case len(tr.params) >= 2 && m[1] == tr.params[1] && (tr.method == "OnKeyableObject" || tr.method == "OnNonKeyableObject" || tr.method == "OnChildContainerEnded"):
			return "PMarkObject DtArg", true
		}
		return "", false
	}},
	{regexp.MustCompile(`^ctx\.MarkContainer\((\w+)\)$`), func(m []string, tr *translator) (string, bool) {
		return "PMarkContainer", len(tr.params) >= 2 && m[1] == tr.params[1] && tr.method == "OnChildContainerEnded"
	}},
	{regexp.MustCompile(`^switch arrayType \{ (case [^:]+: ctx\.MarkObject\(dataType\) )*default: ctx\.MarkObject\(dataType\) \}$`), func(_ []string, tr *translator) (string, bool) {
		return "PMarkObject DtOfArrayType", tr.arrayDT
	}},
}

var bodyPats = []struct {
	re   *regexp.Regexp
	prim string
}{
	{regexp.MustCompile(`^if length == 0 \{ ctx\.tryEndArray\(moreChunksFollow, nil\) return \} ; ctx\.BeginChunkAnyType\(length, moreChunksFollow\)$`), "PArrayRuleChunk"},
	{regexp.MustCompile(`^if length == 0 \{ ctx\.tryEndArray\(moreChunksFollow, nil\) return \} ; ctx\.BeginChunkString\(length, moreChunksFollow\)$`), "PStringRuleChunk"},
	{regexp.MustCompile(`^if length == 0 \{ ctx\.tryEndArray\(moreChunksFollow, nil\) return \} ; ctx\.BeginChunkStringBuilder\(length, moreChunksFollow\)$`), "PStringBuilderRuleChunk"},
	{regexp.MustCompile(`^ctx\.MarkCompletedChunkByteCount\(uint64\(len\(data\)\)\) ; if ctx\.chunkActualByteCount == ctx\.chunkExpectedByteCount \{ ctx\.EndChunkAnyType\(\) \}$`), "PArrayChunkRuleData"},
	{regexp.MustCompile(`^ctx\.MarkCompletedChunkByteCount\(uint64\(len\(data\)\)\) ; firstRuneBytes, nextRunesBytes := ctx\.StreamStringData\(data\) ; ctx\.ValidateArrayDataFunc\(firstRuneBytes\) ; ctx\.ValidateArrayDataFunc\(nextRunesBytes\) ; ctx\.AddBuiltArrayBytes\(firstRuneBytes\) ; ctx\.AddBuiltArrayBytes\(nextRunesBytes\) ; if ctx\.chunkActualByteCount == ctx\.chunkExpectedByteCount \{ ctx\.EndChunkString\(\) \}$`), "PStringChunkRuleData"},
	{regexp.MustCompile(`^ctx\.MarkCompletedChunkByteCount\(uint64\(len\(data\)\)\) ; ctx\.AddBuiltArrayBytes\(data\) ; if ctx\.chunkActualByteCount == ctx\.chunkExpectedByteCount \{ ctx\.EndChunkString\(\) \}$`), "PStringBuilderChunkRuleData"},
}

// translate returns the prim list of one method body, or an error describing the statement it does not recognise.
func (rs *ruleSrc) translate(typeName, method string) ([]string, error) {
	fd := rs.methods[typeName][method]
	if fd == nil {
		return nil, fmt.Errorf("%s has no method %s", typeName, method)
	}
	stmts := rs.flatten(typeName, fd.Body.List, 0)
	texts := []string{}
	for _, s := range stmts {
		texts = append(texts, rs.text(s))
	}
	whole := strings.Join(texts, " ; ")
	for _, bp := range bodyPats {
		if bp.re.MatchString(whole) {
			return []string{bp.prim}, nil
		}
	}
	tr := &translator{rs: rs, typeName: typeName, method: method, params: paramNames(fd)}
	out := []string{}
	for _, t := range texts {
		found := false
		for _, p := range stmtPats {
			if m := p.re.FindStringSubmatch(t); m != nil {
				prim, ok := p.f(m, tr)
				if !ok {
					continue
				}
				if prim != "" {
					out = append(out, prim)
				}
				found = true
				break
			}
		}
		if !found {
			return nil, fmt.Errorf("%s.%s: statement not recognised by the translator: %s", typeName, method, t)
		}
	}
	return out, nil
}

func genRulesTable(dir string) {
	rs := loadRules()
	g := newGen("RulesTable.v")
	fmt.Fprintf(g, "From CE Require Import Model.RulesSyntax.\n\n")
	// stable order of rule types = constructor order of Model/RulesSyntax.v
	order := []string{"BeginDocumentRule", "EndDocumentRule", "TerminalRule", "VersionRule", "TopLevelRule", "ListRule", "MapKeyRule",
		"MapValueRule", "RecordTypeRule", "RecordRule", "ArrayRule", "ArrayChunkRule", "StringRule", "StringChunkRule",
		"MarkedObjectKeyableRule", "MarkedObjectAnyTypeRule", "StringBuilderRule", "StringBuilderChunkRule",
		"EdgeSourceRule", "EdgeDescriptionRule", "EdgeDestinationRule", "NodeRule", "AwaitEndRule"}
	have := map[string]bool{}
	for _, t := range rs.ruleVar {
		have[t] = true
	}
	problems := []string{}
	for _, t := range order {
		if !have[t] {
			problems = append(problems, "rule type "+t+" is no longer declared as a rule variable")
		}
		delete(have, t)
	}
	for t := range have {
		problems = append(problems, "new rule type "+t+" is not known to the model")
	}
	wantIface := "OnBeginDocument OnEndDocument OnChildContainerEnded OnVersion OnPadding OnComment OnKeyableObject OnNonKeyableObject OnNull OnList OnMap OnRecordType OnRecord OnEdge OnNode OnEnd OnMarker OnReferenceLocal OnArray OnStringlikeArray OnArrayBegin OnArrayChunk OnArrayData"
	if strings.Join(rs.iface, " ") != wantIface {
		problems = append(problems, "EventRule interface changed: "+strings.Join(rs.iface, " "))
	}
	fmt.Fprintf(g, "Definition dispatch (r : rule) (m : meth) : list prim :=\n  match r, m with\n")
	for _, t := range order {
		for _, m := range strings.Fields(wantIface) {
			prims, err := rs.translate(t, m)
			if err != nil {
				problems = append(problems, err.Error())
				continue
			}
			if len(prims) == 1 && prims[0] == "PReject" {
				continue // default
			}
			fmt.Fprintf(g, "  | %s, %s => [%s]\n", ruleCtor(t), methCtor(m), strings.Join(prims, "; "))
		}
	}
	fmt.Fprintf(g, "  | _, _ => [PReject]\n  end.\n\n")
	// A translation problem is recorded in the generated file: the definition below then fails to
	// type-check, which breaks every proof that depends on the table (handled as a broken obligation).
	if len(problems) > 0 {
		sort.Strings(problems)
		fmt.Fprintf(g, "(* TRANSLATION PROBLEMS:\n")
		for _, p := range problems {
			fmt.Fprintf(g, "   %s\n", strings.ReplaceAll(p, "*)", "* )"))
		}
		fmt.Fprintf(g, "*)\nDefinition rules_table_translation_failed : False := I.\n")
	}
	g.write(dir)
}
