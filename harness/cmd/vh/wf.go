package main

import (
	"fmt"
	"math/big"
	"regexp"
	"unicode/utf8"

	"github.com/kstenerud/go-concise-encoding/ce/events"
	"github.com/kstenerud/go-concise-encoding/verifhooks"
)

// wfCheck is an independent, executable statement of "well-formed document" (properties C10, C12, C13):
// it returns the index of the first event that makes the sequence invalid, or -1 when every event is
// acceptable so far, and whether the sequence is a complete document. It is written from the property
// texts and the format's structure, as a pushdown recogniser, not from the validator's rule table.
//
// Quirks of the validator that the properties do not speak about are followed deliberately and listed here:
//   - comments and padding are allowed between objects in every container and before the top-level object,
//     never after it; only padding may separate a marker from its object; a comment is allowed between the
//     chunks of a non-string array and nowhere else inside arrays;
//   - a zero-length data event is acceptable only while a chunk is open.
type wfFrame struct {
	kind     string // top list mapkey mapvalue rectype record edge node marker array done
	count    int    // objects seen (edge position, record arity progress, node first)
	arity    int
	keys     map[string]bool
	name     string // record type name / marker id
	keyable  bool   // marker in key position
	markedAt int
	// arrays
	t         events.ArrayType
	validated bool
	inChunk   bool
	remaining uint64
	chunkData []byte
	last      bool
	total     uint64
	built     []byte
}

type wfState struct {
	stack    []*wfFrame
	recs     map[string]int
	marked   map[string]string // id -> type class of the marked object
	pending  map[string]bool   // referenced, not yet marked: true = needs keyable
	started  bool
	version  bool
	maxArray uint64
	maxIdent int
	// floatKeyRef relaxes one rule: a reference in key position may point to a marked (non-NaN) float.
	// Used only to recognise the known deviation of the validator (its AllowKeyable mask contains the float type).
	floatKeyRef bool
	// chunkedKeyUnmarked relaxes another: a marker in key position whose object arrives as a CHUNKED array is not
	// registered (known deviation: MarkedObjectKeyableRule.OnChildContainerEnded does not call MarkObject).
	chunkedKeyUnmarked bool
	lastWasChunked     bool
	// lateUTF8 relaxes a third: string-like chunk data is judged only when the chunk is complete (the latest
	// point at which invalid UTF-8 can be noticed). Used to recognise the validator's deferred verdict: it waits
	// for as many bytes as the lead byte of a split character promises before it looks at them.
	lateUTF8 bool
}

func (s *wfState) keyRefOK(oc string) bool {
	return oc == ocKeyable || oc == ocKeyArray || (s.floatKeyRef && oc == ocNonKeyable)
}

func wfKeyDen(e Ev) string {
	switch e.K {
	case "b":
		return fmt.Sprintf("bool:%v", e.B)
	case "t":
		return "bool:true"
	case "f":
		return "bool:false"
	case "pi":
		return fmt.Sprintf("int:%d", e.N)
	case "ni":
		if e.N == 0 {
			return "negzero"
		}
		return "int:-" + fmt.Sprint(e.N)
	case "i":
		return fmt.Sprintf("int:%d", e.I)
	case "bi":
		return "int:" + e.Big.String()
	case "uid":
		u := make([]byte, 16)
		copy(u, e.Data)
		return "uid:" + string(u)
	case "tm":
		return "time:" + e.T.String()
	}
	return ""
}

func isStringlikeValidated(t events.ArrayType) bool {
	return t == events.ArrayTypeString || t == events.ArrayTypeResourceID || t == events.ArrayTypeCustomText || t == events.ArrayTypeReferenceRemote
}

// object classes
const (
	ocNull        = "null"
	ocKeyable     = "keyable"    // keyable scalar
	ocNonKeyable  = "nonkeyable" // float
	ocNan         = "nan"
	ocContainer   = "container"
	ocKeyArray    = "keyarray" // string / resource id
	ocOtherArray  = "otherarray"
	ocRemoteArray = "remote"
)

func wfIdentOK(id []byte, maxLen int) bool {
	if len(id) == 0 || len(id) > maxLen || !utf8.Valid(id) {
		return false
	}
	for _, r := range string(id) {
		if !verifhooks.IsRuneValidIdentifier(r) {
			return false
		}
	}
	return true
}

func (s *wfState) top() *wfFrame { return s.stack[len(s.stack)-1] }

// mayStart: may an object of class oc begin in frame f?
func (s *wfState) mayStart(f *wfFrame, oc string) bool {
	switch f.kind {
	case "top", "list", "mapvalue", "record":
		if f.kind == "record" && f.count >= f.arity {
			return false
		}
		return true
	case "mapkey", "rectype":
		return oc == ocKeyable || oc == ocKeyArray
	case "edge":
		switch f.count {
		case 0, 2:
			return oc != ocNull
		case 1:
			return true
		}
		return false
	case "node":
		return true
	case "marker":
		parent := s.stack[len(s.stack)-2]
		if f.keyable && !(oc == ocKeyable || oc == ocKeyArray) {
			return false
		}
		if oc == ocRemoteArray {
			return false // references cannot be marked
		}
		return s.mayStart(parent, oc)
	}
	return false
}

// objectDone: an object of class oc (with key denotation den when it is a key) completed in the top frame.
func (s *wfState) objectDone(oc string, den string) bool {
	f := s.top()
	switch f.kind {
	case "top":
		f.kind = "done"
	case "list":
	case "mapkey":
		if den != "" {
			if f.keys[den] {
				return false
			}
			f.keys[den] = true
		}
		f.kind = "mapvalue"
	case "mapvalue":
		f.kind = "mapkey"
	case "rectype":
		if f.keys[den] {
			return false
		}
		f.keys[den] = true
		f.count++
	case "record", "edge", "node":
		f.count++
	case "marker":
		id := f.name
		if s.chunkedKeyUnmarked && f.keyable && s.lastWasChunked {
			s.stack = s.stack[:len(s.stack)-1]
			return s.objectDone(oc, den)
		}
		if _, dup := s.marked[id]; dup {
			return false
		}
		if needKey, ok := s.pending[id]; ok {
			if needKey && !s.keyRefOK(oc) {
				return false
			}
			delete(s.pending, id)
		}
		s.marked[id] = oc
		s.stack = s.stack[:len(s.stack)-1]
		return s.objectDone(oc, den)
	}
	return true
}

func newWF(maxArray uint64, maxIdent int) *wfState {
	return &wfState{recs: map[string]int{}, marked: map[string]string{}, pending: map[string]bool{}, maxArray: maxArray, maxIdent: maxIdent}
}

func (s *wfState) lengthOK(n uint64) bool { return s.maxArray == 0 || n <= s.maxArray }

// step consumes one event; false = the event is invalid here.
func (s *wfState) step(e Ev) bool {
	if !s.started {
		if e.K != "bd" {
			return false
		}
		s.started = true
		return true
	}
	if !s.version {
		if e.K != "v" || e.N != 0 {
			return false
		}
		s.version = true
		s.stack = []*wfFrame{{kind: "top"}}
		return true
	}
	if len(s.stack) == 0 {
		return false
	}
	f := s.top()
	if f.kind == "terminal" {
		return false
	}
	if f.kind == "done" {
		if e.K == "ed" && len(s.pending) == 0 {
			f.kind = "terminal"
			return true
		}
		return false
	}
	if f.kind == "array" {
		switch e.K {
		case "ac":
			if f.inChunk {
				return false
			}
			nb := byteCountFor(f.t, e.N)
			if isStringlikeValidated(f.t) || f.t == events.ArrayTypeCustomBinary || f.t == events.ArrayTypeMedia {
				nb = e.N
			}
			if e.N == 0 {
				if !e.B {
					return s.finishArray(f)
				}
				return true
			}
			f.total += nb
			if !s.lengthOK(f.total) {
				return false
			}
			f.inChunk, f.remaining, f.last, f.chunkData = true, nb, !e.B, nil
			return true
		case "ad":
			if !f.inChunk || uint64(len(e.Data)) > f.remaining {
				return false
			}
			f.remaining -= uint64(len(e.Data))
			f.chunkData = append(f.chunkData, e.Data...)
			if f.validated {
				// a data event is rejected as soon as the bytes so far cannot be the beginning of valid UTF-8
				if (!s.lateUTF8 || f.remaining == 0) && !utf8PrefixOK(f.chunkData, f.remaining == 0) {
					return false
				}
			}
			if f.remaining == 0 {
				f.inChunk = false
				f.built = append(f.built, f.chunkData...)
				if f.last {
					return s.finishArray(f)
				}
			}
			return true
		case "cm":
			return !f.inChunk && !f.validated
		}
		return false
	}
	switch e.K {
	case "pad":
		return true
	case "cm":
		return f.kind != "marker"
	case "e":
		switch f.kind {
		case "list", "mapkey":
		case "rectype":
			if _, dup := s.recs[f.name]; dup {
				return false
			}
			s.recs[f.name] = f.count
			s.stack = s.stack[:len(s.stack)-1]
			return true // a record type is not an object of its parent
		case "record":
			if f.count != f.arity {
				return false
			}
		case "edge":
			if f.count != 3 {
				return false
			}
		case "node":
			if f.count < 1 {
				return false
			}
		default:
			return false
		}
		s.stack = s.stack[:len(s.stack)-1]
		return s.objectDone(ocContainer, "")
	case "rt":
		if f.kind != "top" || !wfIdentOK(e.Data, s.maxIdent) {
			return false
		}
		s.stack = append(s.stack, &wfFrame{kind: "rectype", name: string(e.Data), keys: map[string]bool{}})
		return true
	case "mk":
		if !wfIdentOK(e.Data, s.maxIdent) {
			return false
		}
		switch f.kind {
		case "top", "list", "mapvalue", "record", "edge", "node":
			if f.kind == "record" && f.count >= f.arity || f.kind == "edge" && f.count >= 3 {
				return false
			}
			s.stack = append(s.stack, &wfFrame{kind: "marker", name: string(e.Data)})
			return true
		case "mapkey":
			s.stack = append(s.stack, &wfFrame{kind: "marker", name: string(e.Data), keyable: true})
			return true
		}
		return false
	case "ref":
		if !wfIdentOK(e.Data, s.maxIdent) {
			return false
		}
		id := string(e.Data)
		needKey := false
		switch f.kind {
		case "list", "mapvalue", "node":
		case "record":
			if f.count >= f.arity {
				return false
			}
		case "edge":
			if f.count >= 3 {
				return false
			}
		case "mapkey":
			needKey = true
		default:
			return false
		}
		if oc, ok := s.marked[id]; ok {
			if needKey && !s.keyRefOK(oc) {
				return false
			}
		} else {
			s.pending[id] = s.pending[id] || needKey
		}
		return s.objectDone("ref", "")
	}
	// value events
	oc, den := "", ""
	switch e.K {
	case "null":
		oc = ocNull
	case "bi":
		if e.Big == nil {
			oc = ocNull
		} else {
			oc, den = ocKeyable, wfKeyDen(e)
		}
	case "bf":
		if e.BF == nil {
			oc = ocNull
		} else {
			oc = ocNonKeyable
		}
	case "bdf":
		if e.BDF == nil {
			oc = ocNull
		} else if e.BDF.Form == 2 || e.BDF.Form == 3 { // apd.NaN, apd.NaNSignaling
			oc = ocNan
		} else {
			oc = ocNonKeyable
		}
	case "b", "t", "f", "pi", "ni", "i", "uid", "tm":
		if e.K == "tm" && !e.T.IsZeroValue() && e.T.Validate() != nil {
			return false // a time with a field out of range is not a value (go-compact-time decides)
		}
		oc, den = ocKeyable, wfKeyDen(e)
	case "nan":
		oc = ocNan
	case "fl":
		oc = ocNonKeyable
		if e.F != e.F {
			oc = ocNan
		}
	case "df":
		oc = ocNonKeyable
		if e.DF.IsNan() {
			oc = ocNan
		}
	case "l", "m", "edge", "node", "rec":
		oc = ocContainer
	case "a", "sa":
		if e.A == events.ArrayTypeCustomBinary || e.A == events.ArrayTypeCustomText || e.A == events.ArrayTypeMedia || e.A == events.ArrayTypeInvalid || e.A >= events.ArrayTypeMediaData {
			return false
		}
		switch e.A {
		case events.ArrayTypeString:
			oc, den = ocKeyArray, "str:"+string(e.Data)
		case events.ArrayTypeResourceID:
			oc, den = ocKeyArray, "rid:"+string(e.Data)
		case events.ArrayTypeReferenceRemote:
			oc = ocRemoteArray
		default:
			oc = ocOtherArray
		}
	case "media", "cb", "ct":
		oc = ocOtherArray
	case "ab", "mb", "cbeg":
		t := e.A
		if e.K == "mb" {
			t = events.ArrayTypeMedia
		}
		if e.K == "ab" && (t == events.ArrayTypeCustomBinary || t == events.ArrayTypeCustomText || t == events.ArrayTypeMedia || t == events.ArrayTypeInvalid || t >= events.ArrayTypeMediaData) {
			return false
		}
		if e.K == "cbeg" && t != events.ArrayTypeCustomBinary && t != events.ArrayTypeCustomText {
			return false
		}
		switch t {
		case events.ArrayTypeString, events.ArrayTypeResourceID:
			oc = ocKeyArray
		case events.ArrayTypeReferenceRemote:
			oc = ocRemoteArray
		default:
			oc = ocOtherArray
		}
	default:
		return false // bd, v, ed, ac, ad out of place
	}
	if !s.mayStart(f, oc) {
		return false
	}
	switch e.K {
	case "l":
		s.stack = append(s.stack, &wfFrame{kind: "list"})
		return true
	case "m":
		s.stack = append(s.stack, &wfFrame{kind: "mapkey", keys: map[string]bool{}})
		return true
	case "edge":
		s.stack = append(s.stack, &wfFrame{kind: "edge"})
		return true
	case "node":
		s.stack = append(s.stack, &wfFrame{kind: "node"})
		return true
	case "rec":
		if !wfIdentOK(e.Data, s.maxIdent) {
			return false
		}
		n, ok := s.recs[string(e.Data)]
		if !ok {
			return false
		}
		s.stack = append(s.stack, &wfFrame{kind: "record", arity: n})
		return true
	case "a":
		if isStringlikeValidated(e.A) {
			if !utf8.Valid(e.Data) {
				return false
			}
		} else if uint64(len(e.Data)) != byteCountFor(e.A, e.N) {
			return false
		}
		if !s.lengthOK(uint64(len(e.Data))) {
			return false
		}
	case "sa":
		if isStringlikeValidated(e.A) && !utf8.Valid(e.Data) {
			return false
		}
		if !s.lengthOK(uint64(len(e.Data))) {
			return false
		}
	case "media":
		if !utf8.ValidString(e.S) || !wfMediaType(e.S) || !s.lengthOK(uint64(len(e.Data))) {
			return false
		}
	case "cb":
		if e.N > 0xffffffff || !s.lengthOK(uint64(len(e.Data))) {
			return false
		}
	case "ct":
		if e.N > 0xffffffff || !utf8.Valid(e.Data) || !s.lengthOK(uint64(len(e.Data))) {
			return false
		}
	case "ab", "mb", "cbeg":
		t := e.A
		if e.K == "mb" {
			t = events.ArrayTypeMedia
			if !utf8.ValidString(e.S) || !wfMediaType(e.S) {
				return false
			}
		}
		if e.K == "cbeg" && e.N > 0xffffffff {
			return false
		}
		kindDen := ""
		if t == events.ArrayTypeString {
			kindDen = "str:"
		} else if t == events.ArrayTypeResourceID {
			kindDen = "rid:"
		}
		s.stack = append(s.stack, &wfFrame{kind: "array", t: t, validated: isStringlikeValidated(t), name: kindDen + "|" + oc})
		return true
	}
	return s.objectDone(oc, den)
}

func (s *wfState) finishArray(f *wfFrame) bool {
	s.stack = s.stack[:len(s.stack)-1]
	s.lastWasChunked = true
	defer func() { s.lastWasChunked = false }()
	den := ""
	oc := ocOtherArray
	switch f.t {
	case events.ArrayTypeString:
		oc, den = ocKeyArray, "str:"+string(f.built)
	case events.ArrayTypeResourceID:
		oc, den = ocKeyArray, "rid:"+string(f.built)
	case events.ArrayTypeReferenceRemote:
		oc = ocRemoteArray
	}
	return s.objectDone(oc, den)
}

// utf8PrefixOK: can b be the beginning of a valid UTF-8 string (complete = nothing may be missing at the end)?
func utf8PrefixOK(b []byte, complete bool) bool {
	for len(b) > 0 {
		if utf8.FullRune(b) {
			r, n := utf8.DecodeRune(b)
			if r == utf8.RuneError && n == 1 {
				return false
			}
			b = b[n:]
			continue
		}
		// incomplete trailing sequence: acceptable only if more data may follow and it is a valid prefix of some rune
		if complete {
			return false
		}
		return validRunePrefix(b)
	}
	return true
}

func validRunePrefix(b []byte) bool {
	// try to complete b with continuation bytes
	for n := len(b) + 1; n <= 4; n++ {
		for _, fill := range []byte{0x80, 0x8f, 0x90, 0x9f, 0xa0, 0xbf} {
			c := append(append([]byte{}, b...), make([]byte, n-len(b))...)
			for i := len(b); i < n; i++ {
				c[i] = fill
			}
			c[n-1] = 0x80
			if r, sz := utf8.DecodeRune(c); !(r == utf8.RuneError && sz == 1) && sz == n {
				return true
			}
			for i := len(b); i < n; i++ {
				c[i] = 0xbf
			}
			if r, sz := utf8.DecodeRune(c); !(r == utf8.RuneError && sz == 1) && sz == n {
				return true
			}
		}
	}
	return false
}

// wfCheck runs the recogniser over es.
func wfCheck(es []Ev, maxArray uint64, maxIdent int) (firstInvalid int, complete bool) {
	return wfCheckOpt(es, maxArray, maxIdent, false)
}

func wfCheckOpt(es []Ev, maxArray uint64, maxIdent int, floatKeyRef bool) (firstInvalid int, complete bool) {
	return wfCheckRelaxed(es, maxArray, maxIdent, floatKeyRef, false)
}

func wfCheckRelaxed(es []Ev, maxArray uint64, maxIdent int, floatKeyRef, chunkedKeyUnmarked bool) (firstInvalid int, complete bool) {
	s := newWF(maxArray, maxIdent)
	s.floatKeyRef = floatKeyRef
	s.chunkedKeyUnmarked = chunkedKeyUnmarked
	for i, e := range es {
		if !s.step(e) {
			return i, false
		}
	}
	return -1, len(s.stack) > 0 && s.top().kind == "terminal"
}

// wfLateUTF8: is the only difference between the recogniser (first invalid event = want) and the validator
// (rejected at rej) that invalid UTF-8 inside one chunk was noticed a few data events late, but no later
// than the end of that chunk?
func wfLateUTF8(es []Ev, rej, want int, maxArray uint64, maxIdent int) bool {
	if want < 0 || rej <= want || rej >= len(es) {
		return false
	}
	for i := want; i <= rej; i++ {
		if es[i].K != "ad" {
			return false
		}
	}
	s := newWF(maxArray, maxIdent)
	s.lateUTF8 = true
	for i, e := range es {
		if !s.step(e) {
			return i >= rej
		}
	}
	return false
}

var _ = big.NewInt

// wfMediaType: type "/" subtype (RFC 6838 restricted-name characters as far as
// the CTE grammar admits them), written independently of the library.
var wfMediaTypeRe = regexp.MustCompile("^[a-zA-Z][a-zA-Z0-9!#$%&'*+.^_`|~{}-]*/[a-zA-Z0-9!#$%&'*+.^_`|~{}-]+$")

func wfMediaType(s string) bool { return wfMediaTypeRe.MatchString(s) }
